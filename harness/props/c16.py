"""C16 — pruning predicates are exact on exact data and never reject a true hit.

impl  : bezier._helpers / bezier._geometric_intersection shims (pure or compiled): vector_close, in_interval,
        bbox, contains_nd, cross_product, wiggle_interval, simple_convex_hull, polygon_collide, bbox_intersect;
        pure Python only (same code in both configurations): matrix_product, cross_product_compare, in_sorted,
        is_separating, solve2x2, linearization_error, segment_intersection, parallel_lines_parameters,
        line_line_collide, convex_hull_collide, bbox_line_intersect, clipping.*
model : driver ops of Driver/Ops/Helpers.lean (both hull / polygon_collide / contains_nd variants)
spec  : exact rational geometry written here (brute-force hull, convex polygon intersection, segment
        intersection, box relations, distance-polynomial containment), independent of library and model

Regime E on lattices: all products / sums are small integers, hence exact; every quotient the code forms is
one correctly rounded division of two exact integers and is compared with `float(model quotient)` bit for bit;
quantities behind two or more roundings (t-parameters of parallel_lines_parameters, solve2x2 values,
linearization_error) are compared with a small relative tolerance.  Decisions are compared exactly.
"""
import itertools
import os
import math
import sys
import warnings
from fractions import Fraction as Fr

import numpy as np

import common as C
import exact as X

warnings.simplefilter("ignore")
F = np.asfortranarray
U = C.U
KNOWN_HULL = "f90-hull:repeated-points"


# ====================================================================== exact reference geometry
def orient(o, a, b):
    return (a[0] - o[0]) * (b[1] - o[1]) - (a[1] - o[1]) * (b[0] - o[0])


def on_segment(a, b, p):
    return orient(a, b, p) == 0 and min(a[0], b[0]) <= p[0] <= max(a[0], b[0]) and \
        min(a[1], b[1]) <= p[1] <= max(a[1], b[1])


def sgn(x):
    return (x > 0) - (x < 0)


def seg_seg(a, b, c, d):
    """closed segments [a,b], [c,d] share a point (degenerate segments allowed)"""
    o1, o2, o3, o4 = sgn(orient(a, b, c)), sgn(orient(a, b, d)), sgn(orient(c, d, a)), sgn(orient(c, d, b))
    if o1 * o2 < 0 and o3 * o4 < 0:
        return True
    return on_segment(a, b, c) or on_segment(a, b, d) or on_segment(c, d, a) or on_segment(c, d, b)


def hull_spec(points):
    """vertices of the convex hull: input points in strictly convex position, counter-clockwise, starting at the
    lexicographically smallest one; collinear input -> the two extreme points; one point -> itself"""
    pts = sorted(set(points))
    if len(pts) <= 1:
        return pts
    if all(orient(pts[0], pts[-1], p) == 0 for p in pts):
        return [pts[0], pts[-1]]
    nxt = {}
    for a in pts:
        for b in pts:
            if a == b:
                continue
            ok = True
            for p in pts:
                c = orient(a, b, p)
                if c < 0 or (c == 0 and not on_segment(a, b, p)):
                    ok = False
                    break
            if ok:
                nxt[a] = b
    out = [pts[0]]
    cur = nxt[pts[0]]
    while cur != pts[0] and len(out) <= len(pts):
        out.append(cur)
        cur = nxt[cur]
    return out


def in_convex(poly, p):
    """p in the closed convex polygon (1, 2 or more vertices, either orientation)"""
    n = len(poly)
    if n == 0:
        return False
    if n == 1:
        return tuple(poly[0]) == tuple(p)
    if n == 2:
        return on_segment(poly[0], poly[1], p)
    signs = [sgn(orient(poly[i], poly[(i + 1) % n], p)) for i in range(n)]
    return not (any(s > 0 for s in signs) and any(s < 0 for s in signs))


def poly_edges(poly):
    n = len(poly)
    if n < 2:
        return []
    if n == 2:
        return [(poly[0], poly[1])]
    return [(poly[i], poly[(i + 1) % n]) for i in range(n)]


def convex_intersect(P, Q):
    if any(in_convex(Q, p) for p in P) or any(in_convex(P, q) for q in Q):
        return True
    return any(seg_seg(a, b, c, d) for a, b in poly_edges(P) for c, d in poly_edges(Q))


def all_collinear(P, Q):
    """every vertex of both polygons on one line (includes: two points, point + segment on its line, collinear segments).
    There the Minkowski difference is flat and no edge normal can separate along the common line: the separating-axis
    test (edge normals only) answers "collide"; the library treats segment pairs by line_line_collide instead."""
    pts = sorted(set(list(P) + list(Q)))
    return len(pts) <= 2 or all(orient(pts[0], pts[-1], p) == 0 for p in pts)


def hull_property(poly, points):
    """what the hull must satisfy, stated without reference to any algorithm; returns '' or a complaint"""
    pset = set(points)
    if any(tuple(v) not in pset for v in poly):
        return "a vertex is not an input point"
    if len(set(poly)) != len(poly):
        return "a vertex is repeated"
    n = len(poly)
    dist = sorted(pset)
    if n == 0:
        return "" if not dist else "empty hull"
    if n >= 3:
        for i in range(n):
            if orient(poly[i], poly[(i + 1) % n], poly[(i + 2) % n]) <= 0:
                return "not strictly convex / not counter-clockwise at vertex %d" % ((i + 1) % n)
        total = sum(poly[i][0] * poly[(i + 1) % n][1] - poly[(i + 1) % n][0] * poly[i][1] for i in range(n))
        if total <= 0:
            return "non-positive area"
    for p in dist:
        if not in_convex(poly, p):
            return "input point %r outside the returned polygon" % (tuple(map(str, p)),)
    if n >= 3:
        # all left turns + every input point inside; exclude multiple winding: edges must not cross
        for i in range(n):
            for j in range(i + 2, n):
                if (j + 1) % n == i:
                    continue
                if seg_seg(poly[i], poly[i + 1], poly[j], poly[(j + 1) % n]):
                    return "self-crossing"
    return ""


def box_of(nodes):
    return min(nodes[0]), max(nodes[0]), min(nodes[1]), max(nodes[1])


def box_relation_spec(n1, n2):
    """DISJOINT (2): the closed boxes share no point; INTERSECTION (0): each pair of facing sides overlaps strictly
    (left_i < right_j and bottom_i < top_j both ways); TANGENT (1): neither.  (For boxes with interior INTERSECTION
    is "overlap with positive area"; for a degenerate box strictly inside another box the library's notion, and this
    one, is INTERSECTION although the common part has no area.)"""
    l1, r1, b1, t1 = box_of(n1)
    l2, r2, b2, t2 = box_of(n2)
    ix = (max(l1, l2), min(r1, r2))
    iy = (max(b1, b2), min(t1, t2))
    if ix[0] > ix[1] or iy[0] > iy[1]:
        return 2
    if l1 < r2 and l2 < r1 and b1 < t2 and b2 < t1:
        return 0
    return 1


def seg_box(nodes, a, b):
    """closed segment [a,b] meets the closed box"""
    l, r, bo, t = box_of(nodes)
    corners = [(l, bo), (r, bo), (r, t), (l, t)]
    if any(l <= p[0] <= r and bo <= p[1] <= t for p in (a, b)):
        return True
    return any(seg_seg(corners[i], corners[(i + 1) % 4], a, b) for i in range(4))


# ====================================================================== small utilities
def num(x):
    """json-able number -> Fraction (ints, 'p/q' strings, hex floats)"""
    if isinstance(x, bool):
        return Fr(int(x))
    if isinstance(x, int):
        return Fr(x)
    if isinstance(x, float):
        return Fr(x)
    if isinstance(x, Fr):
        return x
    if isinstance(x, str):
        if "x" in x or "p" in x or x in ("inf", "-inf", "nan"):
            return Fr(float.fromhex(x))
        return Fr(x)
    raise TypeError(x)


def js(x):
    """Fraction / nested -> json-able, exact"""
    if isinstance(x, (list, tuple)):
        return [js(y) for y in x]
    if isinstance(x, Fr):
        return int(x) if x.denominator == 1 else (float(x).hex() if Fr(float(x)) == x else str(x))
    return x


def fl(x):
    return float(x)


def pts_to_rows(pts):
    return [[p[0] for p in pts], [p[1] for p in pts]]


def rows_to_pts(rows):
    return [(a, b) for a, b in zip(rows[0], rows[1])]


def arr(rows):
    if len(rows[0]) == 0:
        return F(np.zeros((len(rows), 0)))
    return F([[float(x) for x in r] for r in rows], dtype=np.float64)


def vec(p):
    return F([float(x) for x in p])


def rq(x):
    """the correctly rounded binary64 value of an exact rational, as Fraction"""
    return Fr(float(x))


def close(got, want, k=8):
    """|got - want| <= k u max(|want|, tiny)"""
    got = Fr(got)
    return abs(got - want) <= k * U * max(abs(want), Fr(1, 2 ** 1000))


def lattice(n, lo=0):
    return [(x, y) for x in range(lo, lo + n) for y in range(lo, lo + n)]


class Ctx:
    pass


# ====================================================================== the families of checks
class Family:
    name = "?"

    def __init__(self, ctx):
        self.ctx = ctx
        self.res = ctx.res

    def cases(self):
        return []

    def ask(self, drv, case):
        return []

    def check(self, case, replies):
        pass

    def rc(self, case):
        """replay case, built lazily (only when a failure / mismatch is recorded)"""
        return lambda: {"fam": self.name, "case": js(case)}


def _capped_failure(res):
    """keep at most 4 witnesses per key (all are counted), so that every key keeps a replayable witness"""
    orig = res.failure
    seen = {}

    def failure(key, what, replay):
        seen[key] = seen.get(key, 0) + 1
        if seen[key] <= 4:
            orig(key, what, replay() if callable(replay) else replay)
        else:
            res.dist.setdefault("failure_keys", {})
            res.dist["failure_keys"][key] = res.dist["failure_keys"].get(key, 0) + 1
    res.failure = failure
    orig_mm = res.mismatch
    nmm = [0]

    def mismatch(op, inputs, impl, model, note=""):
        nmm[0] += 1
        if nmm[0] <= 50:
            inputs = inputs() if callable(inputs) else inputs
        else:
            inputs = None
        orig_mm(op, inputs, impl, model, note)
    res.mismatch = mismatch


# ---------------------------------------------------------------------- convex hull
class Hull(Family):
    name = "hull"

    def __init__(self, ctx):
        super().__init__(ctx)
        self.cache = {}
        self.tags = {}
        self.nfail = 0
        self.nfail_by = {}
        self.nseq = 0
        self.first_fail = None

    def cases(self):
        ctx = self.ctx
        rnd = ctx.rnd
        l4 = lattice(4)
        l3 = lattice(3)
        # the documented witness and friends
        yield ("witness", ((1, 1), (0, 0), (0, 1), (1, 0), (0, 0)))
        yield ("witness", ((1, 2), (1, 2), (1, 2)))
        yield ("4x4", ())
        # mandatory exhaustive part
        # (in search mode the main run has just covered them: shorter exhaustive part, larger differently seeded samples)
        for k in range(1, 5 if not ctx.search else 4):
            for s in itertools.product(l4, repeat=k):
                yield ("4x4", s)
        for k in range(1, 6 if not ctx.search else 5):
            for s in itertools.product(l3, repeat=k):
                yield ("3x3", s)
        if ctx.thorough:
            for s in itertools.product(l4, repeat=5):
                yield ("4x4", s)
            for k in (6, 7):
                for s in itertools.product(l3, repeat=k):
                    yield ("3x3", s)
        else:
            n = 6000 if not ctx.search else 50000
            for _ in range(n):
                yield ("4x4", tuple(rnd.choice(l4) for _ in range(5)))
            for _ in range(n // 2):
                yield ("3x3", tuple(rnd.choice(l3) for _ in range(6)))
            for _ in range(n // 2):
                yield ("3x3", tuple(rnd.choice(l3) for _ in range(7)))
        # dyadic / larger coordinates (still exact), with repetitions and collinearities
        for _ in range(300 if not ctx.thorough else 4000):
            k = rnd.randint(1, 8)
            base = [(Fr(rnd.randint(-64, 64), 8), Fr(rnd.randint(-64, 64), 8)) for _ in range(rnd.randint(1, k))]
            yield ("dyadic", tuple(rnd.choice(base) if rnd.random() < 0.5 else
                                   (base[0][0] + rnd.randint(-2, 2) * Fr(1, 2), base[0][1] + rnd.randint(-2, 2) * Fr(1, 2))
                                   for _ in range(k)))

    def ask(self, drv, case):
        tag, seq = case
        rows = pts_to_rows(seq)
        return [drv.ask("hull_" + self.ctx.variant, rows)]

    def spec(self, seq):
        key = frozenset(seq)
        if key not in self.cache:
            want = hull_spec(list(seq))
            # the reference itself is checked against the algorithm-free statement of the property
            assert hull_property(want, seq) == "", (seq, want)
            self.cache[key] = want
        return self.cache[key]

    def check(self, case, replies):
        ctx, res = self.ctx, self.res
        tag, seq = case
        if tag == "dyadic" or (seq and not isinstance(seq[0][0], int)):
            seq = tuple((num(p[0]), num(p[1])) for p in seq)
        self.nseq += 1
        if seq:
            got = ctx.H.simple_convex_hull(F([[float(p[0]) for p in seq], [float(p[1]) for p in seq]]))
        else:
            got = ctx.H.simple_convex_hull(F(np.zeros((2, 0))))
        impl = list(zip(got[0].tolist(), got[1].tolist())) if got.size else []
        st, mod = replies[0]
        model = list(zip(mod[0], mod[1])) if st == "ok" else None
        want = self.spec(seq)
        repeated = len(set(seq)) != len(seq)
        # (same bookkeeping as res.count, batched: one hash per case, tags expanded in finish())
        res.evaluations += 1
        if seq:
            res.keys.add(hash((tag, seq)))
        tk = (tag, len(seq), repeated, len(want))
        self.tags[tk] = self.tags.get(tk, 0) + 1
        if self.nseq % 20011 == 1:
            res.sample({"fam": "hull", "points": js(seq), "hull": js(impl)})
        if model != impl:
            res.mismatch("simple_convex_hull", self.rc(case), js(impl), js(model), "E regime: hull must be identical")
        # model vs spec (the Python variant always; the Fortran variant on pairwise distinct input)
        if model is not None and model != want and (ctx.variant == "py" or not repeated):
            res.mismatch("model-vs-spec:hull_" + ctx.variant, self.rc(case), js(model), js(want))
        # property on the real code
        if impl == want:
            return
        implq = [(Fr(a), Fr(b)) for a, b in impl]
        bad = hull_property(implq, [(Fr(a), Fr(b)) for a, b in seq])
        if not bad:
            n = len(want)
            rot = any(implq == want[i:] + want[:i] for i in range(n)) if len(implq) == n else False
            if rot:
                return
            bad = "vertex list is not the hull"
        self.nfail += 1
        lk = "%s/len%d" % (tag, len(seq))
        self.nfail_by[lk] = self.nfail_by.get(lk, 0) + 1
        if ctx.cfg == "speedup" and repeated:
            key = KNOWN_HULL
        else:
            key = "hull-wrong:%s:%s" % (ctx.cfg, "repeated" if repeated else "distinct")
        res.failure(key, "simple_convex_hull(%s) = %s: %s (exact hull %s)" % (js(seq), js(implq), bad, js(want)),
                    self.rc(case))
        if len(ctx.bad_hull_inputs) < 5000:
            ctx.bad_hull_inputs.append(seq)

    def finish(self):
        for (tag, ln, repeated, hs), cnt in self.tags.items():
            for k, v in (("fam", "hull"), ("lattice", tag), ("length", ln), ("repeated", repeated), ("hull_size", hs)):
                d = self.res.dist.setdefault(k, {})
                d[str(v)] = d.get(str(v), 0) + cnt
        self.res.notes.append("hull[%s]: %d of %d sequences give a wrong hull; by lattice/length: %s" %
                              (self.ctx.cfg, self.nfail, self.nseq, dict(sorted(self.nfail_by.items()))))


# ---------------------------------------------------------------------- polygon_collide / is_separating
def lattice_polygons(n):
    """all convex lattice polygons with 1..4 vertices (strictly convex position), as the hull returns them"""
    pts = lattice(n)
    out = []
    for k in range(1, 5):
        for sub in itertools.combinations(pts, k):
            h = hull_spec(list(sub))
            if len(h) == k:
                out.append(tuple(h))
    return out


class PolyCollide(Family):
    name = "polygon_collide"

    def cases(self):
        ctx = self.ctx
        rnd = ctx.rnd
        polys = lattice_polygons(4)
        ctx.polys4 = polys
        by = {k: [p for p in polys if len(p) == k] for k in range(1, 5)}
        self.res.notes.append("lattice polygons 4x4: " + ", ".join("%d with %d vertices" % (len(by[k]), k) for k in by))
        out = [(((1, 1),), ((0, 0), (2, 0), (2, 2), (0, 2))), (((0, 0), (2, 0), (2, 2), (0, 2)), ((1, 1),))]
        if ctx.thorough:
            out += [(p, q) for p in polys for q in polys]
        else:
            small = lattice_polygons(3)
            out += [(p, q) for p in small for q in small if len(p) >= 2 and len(q) >= 2 and rnd.random() < 0.25]
            # every size combination is sampled
            n = 500 if not ctx.search else 1200
            for k1 in range(1, 5):
                for k2 in range(1, 5):
                    out += [(rnd.choice(by[k1]), rnd.choice(by[k2])) for _ in range(n)]
            # all point / segment combinations are cheap: exhaustive
            out += [(p, q) for p in by[1] for q in by[1] + by[2]]
            out += [(p, q) for p in by[2] for q in by[1]]
        # other orientations / starting vertices are legitimate "ordered polygons", too
        extra = []
        for p, q in rnd.sample(out, min(len(out), 1500)):
            if len(p) >= 3:
                r = rnd.randrange(len(p))
                p2 = p[r:] + p[:r]
                if rnd.random() < 0.5:
                    p2 = tuple(reversed(p2))
                extra.append((p2, q))
        return out + extra

    def ask(self, drv, case):
        p, q = case
        return [drv.ask("polygon_collide_" + self.ctx.variant, pts_to_rows(p), pts_to_rows(q))]

    def check(self, case, replies):
        ctx, res = self.ctx, self.res
        p, q = case
        p = [(num(a), num(b)) for a, b in p]
        q = [(num(a), num(b)) for a, b in q]
        impl = bool(ctx.H.polygon_collide(arr(pts_to_rows(p)), arr(pts_to_rows(q))))
        st, mod = replies[0]
        model = bool(mod) if st == "ok" else None
        want = convex_intersect(p, q)
        res.count(("pc", tuple(p), tuple(q)), fam="polygon_collide", sizes="%dx%d" % (len(p), len(q)), truth=want)
        if model is None or model != impl:
            res.mismatch("polygon_collide", js([p, q]), impl, model if model is not None else "err " + str(mod))
        if impl != want:
            if impl and not want and all_collinear(p, q):
                # flat configuration: only the safe side is required of the separating-axis test (see all_collinear)
                ctx.flat_false_hits["polygon_collide %dx%d" % (len(p), len(q))] += 1
                return
            if len(p) == 1 or len(q) == 1:
                key = "%s-polygon-collide:single-point-polygon:%s" % (ctx.variant, "missed-hit" if want else "false-hit")
            else:
                key = "polygon-collide-wrong:%s:%s" % (ctx.cfg, "missed-hit" if want else "false-hit")
            res.failure(key, "polygon_collide(%s, %s) = %s, exact convex-polygon intersection = %s" %
                        (js(p), js(q), impl, want), self.rc(case))


# ---------------------------------------------------------------------- segments
class Segments(Family):
    name = "segments"

    def cases(self):
        ctx = self.ctx
        rnd = ctx.rnd
        out = []
        l3 = lattice(3)
        segs3 = [(a, b) for a in l3 for b in l3 if a != b]
        out += [(s[0], s[1], t[0], t[1]) for s in segs3 for t in segs3]
        l5 = lattice(5)
        segs5 = [(a, b) for a in l5 for b in l5 if a != b]
        if ctx.thorough:
            out += [(s[0], s[1], t[0], t[1]) for s in segs5 for t in segs5]
        else:
            n = 16000 if not ctx.search else 40000
            for _ in range(n):
                s = rnd.choice(segs5)
                t = rnd.choice(segs5)
                out.append((s[0], s[1], t[0], t[1]))
            # collinear / parallel pairs are rare in a uniform sample: force them
            for _ in range(n // 3):
                s = rnd.choice(segs5)
                dx, dy = s[1][0] - s[0][0], s[1][1] - s[0][1]
                g = math.gcd(abs(dx), abs(dy))
                ux, uy = dx // g, dy // g
                k0, k1 = rnd.randint(-4, 4), rnd.randint(-4, 4)
                if k0 == k1:
                    continue
                off = (0, 0) if rnd.random() < 0.7 else (rnd.choice(l3)[0] - 1, rnd.choice(l3)[1] - 1)
                c = (s[0][0] + k0 * ux + off[0], s[0][1] + k0 * uy + off[1])
                d = (s[0][0] + k1 * ux + off[0], s[0][1] + k1 * uy + off[1])
                out.append((s[0], s[1], c, d))
        # second segment degenerate (a point): still inside the routines' domain
        for _ in range(600):
            s = rnd.choice(segs5)
            p = rnd.choice(l5)
            out.append((s[0], s[1], p, p))
        return out

    def ask(self, drv, case):
        a, b, c, d = case
        return [drv.ask("segment_intersection", a, b, c, d), drv.ask("parallel_lines_parameters", a, b, c, d),
                drv.ask("line_line_collide", [[a[0], b[0]], [a[1], b[1]]], [[c[0], d[0]], [c[1], d[1]]])]

    def check(self, case, replies):
        ctx, res = self.ctx, self.res
        a, b, c, d = [(num(p[0]), num(p[1])) for p in case]
        PG = ctx.PG
        par = orient((0, 0), (b[0] - a[0], b[1] - a[1]), (d[0] - c[0], d[1] - c[1])) == 0
        res.count(("seg", a, b, c, d), fam="segments", parallel=par, degenerate_second=(c == d))
        rc = self.rc(case)
        # --- segment_intersection
        s, t, ok = PG.segment_intersection(vec(a), vec(b), vec(c), vec(d))
        st, mod = replies[0]
        if bool(ok) != (len(mod) == 2) or (ok and (Fr(float(s)) != rq(mod[0]) or Fr(float(t)) != rq(mod[1]))):
            res.mismatch("segment_intersection", rc, [float(s) if ok else None, float(t) if ok else None, bool(ok)], js(mod),
                         "E: success flag equal, s and t the correctly rounded exact quotients")
        if bool(ok) == par:
            res.failure("segment-intersection:success-flag", "segment_intersection%s success=%s but directions %s parallel" %
                        (js(case), ok, "are" if par else "are not"), rc)
        if ok and not par:
            # THE solution of S0 + s D0 = S1 + t D1, exact
            den = (b[0] - a[0]) * (d[1] - c[1]) - (b[1] - a[1]) * (d[0] - c[0])
            s_ex = ((c[0] - a[0]) * (d[1] - c[1]) - (c[1] - a[1]) * (d[0] - c[0])) / den
            t_ex = ((c[0] - a[0]) * (b[1] - a[1]) - (c[1] - a[1]) * (b[0] - a[0])) / den
            assert a[0] + s_ex * (b[0] - a[0]) == c[0] + t_ex * (d[0] - c[0]) and a[1] + s_ex * (b[1] - a[1]) == c[1] + t_ex * (d[1] - c[1])
            if st == "ok" and len(mod) == 2 and (mod[0] != s_ex or mod[1] != t_ex):
                res.mismatch("model-vs-spec:segment_intersection", rc, js(mod), js([s_ex, t_ex]))
            if Fr(float(s)) != rq(s_ex) or Fr(float(t)) != rq(t_ex):
                res.failure("segment-intersection:value", "segment_intersection%s = (%r, %r), exact (%s, %s)" %
                            (js(case), float(s), float(t), s_ex, t_ex), rc)
        # --- line_line_collide
        impl = bool(PG.line_line_collide(arr([[a[0], b[0]], [a[1], b[1]]]), arr([[c[0], d[0]], [c[1], d[1]]])))
        st3, mod3 = replies[2]
        want = seg_seg(a, b, c, d)
        if st3 != "ok" or bool(mod3) != impl:
            res.mismatch("line_line_collide", rc, impl, js(mod3) if st3 == "ok" else "err " + str(mod3))
        if impl != want:
            res.failure("line-line-collide:%s" % ("missed-hit" if want else "false-hit"),
                        "line_line_collide%s = %s, exact closed-segment intersection = %s" % (js(case), impl, want), rc)
        # --- parallel_lines_parameters (its contract: parallel lines)
        if par:
            disjoint, params = PG.parallel_lines_parameters(vec(a), vec(b), vec(c), vec(d))
            st2, mod2 = replies[1]
            if st2 != "ok":
                res.mismatch("parallel_lines_parameters", rc, [bool(disjoint)], "err " + str(mod2))
                return
            m_disjoint = (mod2 == [])
            if bool(disjoint) != m_disjoint:
                res.mismatch("parallel_lines_parameters", rc, bool(disjoint), m_disjoint, "disjoint flag")
            if bool(disjoint) != (not want):
                res.failure("parallel-lines:disjoint-flag", "parallel_lines_parameters%s disjoint=%s, exact common point: %s" %
                            (js(case), disjoint, want), rc)
            if not disjoint and not m_disjoint:
                pm = [[Fr(float(x)) for x in row] for row in params.tolist()]
                # first row: single rounding of an exact quotient; second row: a few roundings
                for j in range(2):
                    if pm[0][j] != rq(mod2[0][j]):
                        res.mismatch("parallel_lines_parameters", rc, js(pm), js(mod2), "s-row: correctly rounded exact quotient")
                    if not close(pm[1][j], mod2[1][j], 16) and abs(pm[1][j] - mod2[1][j]) > 16 * U:
                        res.mismatch("parallel_lines_parameters", rc, js(pm), js(mod2), "t-row: tolerance 16u")
                # spec: the common part of the two closed segments, in both parametrisations
                dd = (b[0] - a[0]) ** 2 + (b[1] - a[1]) ** 2
                s0 = ((c[0] - a[0]) * (b[0] - a[0]) + (c[1] - a[1]) * (b[1] - a[1])) / dd
                s1 = ((d[0] - a[0]) * (b[0] - a[0]) + (d[1] - a[1]) * (b[1] - a[1])) / dd
                lo, hi = max(Fr(0), min(s0, s1)), min(Fr(1), max(s0, s1))
                exp_s = [lo, hi] if s0 <= s1 else [hi, lo]
                ms = mod2[0]
                mt = mod2[1]
                okm = ms == exp_s and all(0 <= x <= 1 for x in ms + mt)
                if c != d:
                    # same two points in the parametrisation of the second segment
                    okm = okm and all(a[0] + ms[j] * (b[0] - a[0]) == c[0] + mt[j] * (d[0] - c[0]) and
                                      a[1] + ms[j] * (b[1] - a[1]) == c[1] + mt[j] * (d[1] - c[1]) for j in range(2))
                if not okm:
                    res.mismatch("model-vs-spec:parallel_lines_parameters", rc, js(mod2), js(exp_s))
                if any(not (0 <= x <= 1) for row in pm for x in row) or pm[0] != [rq(exp_s[0]), rq(exp_s[1])]:
                    res.failure("parallel-lines:parameters", "parallel_lines_parameters%s = %s, common part in s is %s" %
                                (js(case), js(pm), js(exp_s)), rc)
            # The COMPILED parallel_lines_parameters is not exported: the shim above binds the Python routine in both
            # configurations.  Its only observable entry point is the intersection of two exactly straight curves
            # (check_lines), so in the compiled configuration the same exact answer is demanded there.  A one-point
            # common part (touching collinear segments) is the listed finding F-D of C20 and is left to that check.
            # the compiled convex_hull_collide (not exported either) sends two hulls that are both segments to the compiled
            # line_line_collide: reached with curves of degree 2 whose control points are collinear but unevenly spaced (non-zero
            # linearisation error, so the closed-form line / line branch is not taken).  Slanted directions only: a curve lying on
            # an axis-parallel line is the listed finding F-E.  A true overlap must not come back as "no intersection, not
            # coincident"; disjoint parallel pieces must not produce an intersection.
            if ctx.cfg == "speedup" and a != b and c != d and b[0] != a[0] and b[1] != a[1] and ctx.slanted_budget > 0:
                ctx.slanted_budget -= 1
                qa = arr([[a[0], a[0] + (b[0] - a[0]) / 4, b[0]], [a[1], a[1] + (b[1] - a[1]) / 4, b[1]]])
                qb = arr([[c[0], c[0] + 3 * (d[0] - c[0]) / 4, d[0]], [c[1], c[1] + 3 * (d[1] - c[1]) / 4, d[1]]])
                dd_ = (b[0] - a[0]) ** 2 + (b[1] - a[1]) ** 2
                s0_ = ((c[0] - a[0]) * (b[0] - a[0]) + (c[1] - a[1]) * (b[1] - a[1])) / dd_
                s1_ = ((d[0] - a[0]) * (b[0] - a[0]) + (d[1] - a[1]) * (b[1] - a[1])) / dd_
                lo_, hi_ = max(Fr(0), min(s0_, s1_)), min(Fr(1), max(s0_, s1_))
                try:
                    got_, flag_ = ctx.GI.all_intersections(qa, qb)
                    ncol = np.asarray(got_).shape[1]
                    out_ = None
                except NotImplementedError:
                    out_ = "refused"
                except Exception as exc:  # noqa
                    out_ = type(exc).__name__
                if out_ not in (None, "refused"):
                    res.failure("hull-segments:compiled-entry-raised", "all_intersections of the collinear-net curves over %s raised %s" % (js(case), out_), rc)
                elif out_ is None:
                    if want and lo_ < hi_ and ncol == 0 and not flag_:
                        res.failure("hull-segments:compiled-entry", "curves with collinear, unevenly spaced control points over the overlapping segments %s: "
                                    "returned no intersection and coincident=False (a true hit was pruned)" % js(case), rc)
                    if not want and ncol > 0:
                        res.failure("hull-segments:compiled-entry", "curves with collinear control points over the disjoint parallel segments %s: "
                                    "returned %d intersection(s)" % (js(case), ncol), rc)
            if ctx.cfg == "speedup" and a != b and c != d:
                dd = (b[0] - a[0]) ** 2 + (b[1] - a[1]) ** 2
                s0 = ((c[0] - a[0]) * (b[0] - a[0]) + (c[1] - a[1]) * (b[1] - a[1])) / dd
                s1 = ((d[0] - a[0]) * (b[0] - a[0]) + (d[1] - a[1]) * (b[1] - a[1])) / dd
                lo, hi = max(Fr(0), min(s0, s1)), min(Fr(1), max(s0, s1))
                if not want or lo < hi:
                    try:
                        got, coincident = ctx.GI.all_intersections(arr([[a[0], b[0]], [a[1], b[1]]]), arr([[c[0], d[0]], [c[1], d[1]]]))
                        got = [[Fr(float(x)) for x in row] for row in np.asarray(got).tolist()]
                        outcome = None
                    except Exception as exc:  # noqa
                        got, coincident, outcome = None, None, type(exc).__name__
                    if outcome is not None:
                        res.failure("parallel-lines:compiled-entry-raised", "all_intersections of the collinear / parallel segments %s raised %s" %
                                    (js(case), outcome), rc)
                    elif not want:
                        if got[0] or coincident:
                            res.failure("parallel-lines:compiled-entry", "all_intersections of the disjoint parallel segments %s = %s, coincident=%s" %
                                        (js(case), js(got), coincident), rc)
                    else:
                        exp_s = [lo, hi] if s0 <= s1 else [hi, lo]
                        if not coincident or len(got[0]) != 2 or got[0] != [rq(exp_s[0]), rq(exp_s[1])] or \
                                any(not (0 <= x <= 1) for row in got for x in row):
                            res.failure("parallel-lines:compiled-entry", "all_intersections of the overlapping collinear segments %s = %s, coincident=%s; "
                                        "common part in s is %s" % (js(case), js(got), coincident, js(exp_s)), rc)


# ---------------------------------------------------------------------- boxes, containment, intervals
class Boxes(Family):
    name = "boxes"

    def cases(self):
        ctx = self.ctx
        rnd = ctx.rnd
        out = []
        l4 = lattice(4)
        n = 4000 if not ctx.thorough else 60000
        for _ in range(n):
            n1 = [rnd.choice(l4) for _ in range(rnd.randint(1, 4))]
            n2 = [rnd.choice(l4) for _ in range(rnd.randint(1, 4))]
            out.append(("bbox_intersect", pts_to_rows(n1), pts_to_rows(n2)))
        # all pairs of lattice boxes given by two corners on the 4x4 lattice (exhaustive in thorough)
        corners = [(a, b) for a in l4 for b in l4]
        pairs = [(p, q) for p in corners for q in corners]
        if not ctx.thorough:
            pairs = rnd.sample(pairs, 5000)
        for p, q in pairs:
            out.append(("bbox_intersect", pts_to_rows(p), pts_to_rows(q)))
        # floats: ties and one-ulp neighbours of ties
        for _ in range(n // 2):
            v = [rnd.uniform(-2, 2) for _ in range(4)]
            w = list(v)
            j = rnd.randrange(4)
            k = rnd.randrange(4)
            w[k] = rnd.choice([v[j], math.nextafter(v[j], 9), math.nextafter(v[j], -9)])
            n1 = [[v[0], v[1], rnd.uniform(min(v[0], v[1]), max(v[0], v[1]))], [v[2], v[3], rnd.uniform(-2, 2)]]
            n2 = [[w[0], w[1]], [w[2], w[3]]]
            out.append(("bbox_intersect", [[Fr(x) for x in r] for r in n1], [[Fr(x) for x in r] for r in n2]))
        # contains_nd: lattice, dimensions 1..4
        for _ in range(n):
            dim = rnd.randint(1, 4)
            nodes = [[rnd.randint(0, 3) for _ in range(rnd.choice([1, 2, 3, 5]))] for _ in range(dim)]
            m = len(nodes[0])
            nodes = [(r * m)[:m] for r in nodes]
            pt = [rnd.randint(-1, 4) for _ in range(dim)]
            out.append(("contains_nd", nodes, pt))
        for _ in range(n // 2):
            dim = rnd.randint(1, 3)
            nodes = [[Fr(rnd.uniform(-1, 1)) for _ in range(4)] for _ in range(dim)]
            pt = []
            for r in nodes:
                base = rnd.choice([min(r), max(r), r[0], Fr(rnd.uniform(-1, 1))])
                pt.append(Fr(rnd.choice([float(base), math.nextafter(float(base), 9), math.nextafter(float(base), -9)])))
            out.append(("contains_nd", nodes, pt))
        # in_interval incl. ties / ulp neighbours / reversed intervals
        for _ in range(n // 2):
            a, b = rnd.uniform(-1, 1), rnd.uniform(-1, 1)
            base = rnd.choice([a, b, rnd.uniform(-1, 1)])
            v = rnd.choice([base, math.nextafter(base, 9), math.nextafter(base, -9)])
            out.append(("in_interval", Fr(v), Fr(a), Fr(b)))
        for v in range(-1, 5):
            for a in range(0, 4):
                for b in range(0, 4):
                    out.append(("in_interval", v, a, b))
        return out

    def ask(self, drv, case):
        kind = case[0]
        v = self.ctx.variant
        if kind == "bbox_intersect":
            return [drv.ask("bbox_intersect", case[1], case[2]), drv.ask("bbox", case[1])]
        if kind == "contains_nd":
            return [drv.ask("contains_nd_" + v, case[1], case[2])]
        return [drv.ask("in_interval", case[1], case[2], case[3])]

    def check(self, case, replies):
        ctx, res = self.ctx, self.res
        kind = case[0]
        rc = self.rc(case)
        if kind == "bbox_intersect":
            n1 = [[num(x) for x in r] for r in case[1]]
            n2 = [[num(x) for x in r] for r in case[2]]
            impl = int(ctx.GI.bbox_intersect(arr(n1), arr(n2)))
            want = box_relation_spec(n1, n2)
            st, mod = replies[0]
            lattice_case = all(x.denominator == 1 for r in n1 + n2 for x in r)
            res.count(("bi", n1, n2), fam="bbox_intersect", regime="lattice" if lattice_case else "float-ties", truth=want)
            if st != "ok" or int(mod) != impl:
                res.mismatch("bbox_intersect", rc, impl, js(mod))
            if impl != want:
                res.failure("bbox-intersect:%s" % ("missed-hit" if impl == 2 else "inexact"),
                            "bbox_intersect(%s, %s) = %d, exact relation of the closed boxes = %d" % (js(n1), js(n2), impl, want), rc)
            b = [Fr(x) for x in ctx.H.bbox(arr(n1))]
            st, mod = replies[1]
            if st != "ok" or b != mod:
                res.mismatch("bbox", rc, js(b), js(mod))
            if b != list(box_of(n1)):
                res.failure("bbox:wrong", "bbox(%s) = %s" % (js(n1), js(b)), rc)
        elif kind == "contains_nd":
            nodes = [[num(x) for x in r] for r in case[1]]
            pt = [num(x) for x in case[2]]
            impl = bool(ctx.H.contains_nd(arr(nodes), vec(pt)))
            want = all(min(r) <= p <= max(r) for r, p in zip(nodes, pt))
            st, mod = replies[0]
            res.count(("cn", nodes, pt), fam="contains_nd", dim=len(nodes), truth=want)
            if st != "ok" or bool(mod) != impl:
                res.mismatch("contains_nd", rc, impl, js(mod))
            if impl != want:
                res.failure("contains-nd:%s" % ("missed-hit" if want else "false-hit"),
                            "contains_nd(%s, %s) = %s" % (js(nodes), js(pt), impl), rc)
        else:
            v, a, b = num(case[1]), num(case[2]), num(case[3])
            impl = bool(ctx.H.in_interval(float(v), float(a), float(b)))
            want = a <= v <= b
            st, mod = replies[0]
            res.count(("ii", v, a, b), fam="in_interval", truth=want)
            if st != "ok" or bool(mod) != impl:
                res.mismatch("in_interval", rc, impl, js(mod))
            if impl != want:
                res.failure("in-interval:wrong", "in_interval(%s, %s, %s) = %s" % (v, a, b, impl), rc)


# ---------------------------------------------------------------------- wiggle_interval
class Wiggle(Family):
    name = "wiggle"

    def cases(self):
        ctx = self.ctx
        rnd = ctx.rnd
        w = float(ctx.wiggle)
        pts = [0.0, -0.0, 1.0, w, -w, 1.0 - w, 1.0 + w, 0.5, 2.0, -1.0, w / 2, -w / 2, 1 - w / 2, 1 + w / 2, 2 * w, -2 * w,
               1e-300, -1e-300, 5e-324, 0.25, 0.75]
        out = []
        for p in pts:
            for q in (math.nextafter(p, -9), p, math.nextafter(p, 9)):
                out.append((Fr(q),))
        for _ in range(2000):
            out.append((Fr(rnd.uniform(-0.5, 1.5)),))
            out.append((Fr(rnd.choice([0.0, 1.0]) + rnd.uniform(-2, 2) * w),))
        return out

    def ask(self, drv, case):
        return [drv.ask("wiggle_interval", self.ctx.wiggle, case[0])]

    def check(self, case, replies):
        ctx, res = self.ctx, self.res
        v = num(case[0])
        w = ctx.wiggle
        val, ok = ctx.H.wiggle_interval(float(v))
        st, mod = replies[0]
        rc = self.rc(case)
        margin = min(abs(v - x) for x in (-w, w, 1 - w, 1 + w))
        res.count(("w", v), fam="wiggle_interval", at_threshold=(margin == 0), within_ulp=(0 < margin <= 4 * U))
        model_ok = (st == "ok" and len(mod) == 1)
        if bool(ok) != model_ok or (ok and Fr(float(val)) != mod[0]):
            res.mismatch("wiggle_interval", rc, [float(val) if ok else None, bool(ok)], js(mod),
                         "threshold used for the model: %s (Fortran parameter; Python default argument)" % w)
        # spec
        want_ok = (-w < v < 1 + w)
        want_val = None if not want_ok else (Fr(0) if v < w else (v if v <= 1 - w else Fr(1)))
        if bool(ok) != want_ok or (ok and Fr(float(val)) != want_val):
            res.failure("wiggle-interval:wrong", "wiggle_interval(%s) = (%r, %s), exact: %s" % (float(v).hex(), float(val), ok, want_val), rc)
        if model_ok != want_ok or (model_ok and mod[0] != want_val):
            res.mismatch("model-vs-spec:wiggle_interval", rc, js(mod), js(want_val))


# ---------------------------------------------------------------------- vector_close
def isqrt_exact(x):
    """exact square root of a non-negative rational if it is rational, else None"""
    n, d = x.numerator, x.denominator
    rn, rd = math.isqrt(n), math.isqrt(d)
    return Fr(rn, rd) if rn * rn == n and rd * rd == d else None


class VectorClose(Family):
    name = "vector_close"

    def cases(self):
        ctx = self.ctx
        rnd = ctx.rnd
        out = []
        eps0 = float(ctx.eps)
        # thresholds hit exactly, one ulp below / above (all norms exact in binary64)
        e = 2.0 ** -20
        for ee in (math.nextafter(e, 0), e, math.nextafter(e, 1)):
            out.append(([3.0, 4.0], [3.0 * (1 + e), 4.0 * (1 + e)], ee))
            out.append(([3.0 * (1 + e), 4.0 * (1 + e)], [3.0, 4.0], ee))
        for d in (math.nextafter(eps0, 0), eps0, math.nextafter(eps0, 1)):
            out.append(([1.0, 0.0], [1.0, d], eps0))
            out.append(([0.0, 0.0], [0.0, d], eps0))
            out.append(([d, 0.0], [0.0, 0.0], eps0))
            out.append(([0.0, 0.0, 0.0], [0.0, -d, 0.0], eps0))
            out.append(([3 * d / 5 * 5, 0.0], [0.0, 0.0], 4 * eps0))
        out.append(([0.0, 0.0], [0.0, 0.0], eps0))
        out.append(([0.0, 0.0], [0.0, 0.0], 0.0))
        out.append(([3.0, 4.0], [3.0, 4.0], 0.0))
        # lattice vectors, eps a power of two (ties have the form sqrt(4^k m) = 2^k sqrt(m))
        vs = [(x, y) for x in range(-2, 3) for y in range(-2, 3)]
        for v1 in vs:
            for v2 in vs:
                for eps in (0.0, 0.5, 1.0, 2.0):
                    if ctx.thorough or rnd.random() < 0.4:
                        out.append(([float(v1[0]), float(v1[1])], [float(v2[0]), float(v2[1])], eps))
        # random floats with graded relative distance
        for _ in range(1500):
            n = rnd.randint(1, 4)
            v1 = [rnd.uniform(-1, 1) for _ in range(n)]
            g = 2.0 ** rnd.randint(-50, -30)
            v2 = [x * (1 + g * rnd.uniform(-1, 1)) for x in v1]
            out.append((v1, v2, eps0))
        return [([Fr(x) for x in a], [Fr(x) for x in b], Fr(e)) for a, b, e in out]

    def ask(self, drv, case):
        v1, v2, eps = case
        return [drv.ask("vector_close_sq", [num(x) for x in v1], [num(x) for x in v2], num(eps) ** 2)]

    def check(self, case, replies):
        ctx, res = self.ctx, self.res
        v1 = [num(x) for x in case[0]]
        v2 = [num(x) for x in case[1]]
        eps = num(case[2])
        rc = self.rc(case)
        if ctx.cfg == "pure":
            impl = bool(ctx.H.vector_close(vec(v1), vec(v2), eps=float(eps)))
        else:
            impl = bool(ctx.H.vector_close(vec(v1), vec(v2), eps=float(eps)))
        s1 = sum(x * x for x in v1)
        s2 = sum(x * x for x in v2)
        dd = sum((x - y) ** 2 for x, y in zip(v1, v2))
        # exact decision and its margin
        if s1 == 0:
            lhs, rhs = s2, eps * eps
        elif s2 == 0:
            lhs, rhs = s1, eps * eps
        else:
            lhs, rhs = dd, eps * eps * min(s1, s2)
        want = lhs <= rhs
        roots = [isqrt_exact(s1), isqrt_exact(s2), isqrt_exact(dd)]
        exact_norms = all(r is not None and C.is_exact_float(r) for r in roots) and \
            all(C.is_exact_float(x * x) for x in v1 + v2) and C.is_exact_float(s1) and C.is_exact_float(s2) and C.is_exact_float(dd)
        if lhs == rhs:
            clear = exact_norms or (lhs == 0)
        else:
            big = max(lhs, rhs)
            clear = exact_norms or abs(lhs - rhs) > big * Fr(1, 2 ** 48)
        st, mod = replies[0]
        res.count(("vc", tuple(v1), tuple(v2), eps), fam="vector_close", tie=(lhs == rhs), exact_norms=exact_norms, truth=want)
        if st != "ok" or bool(mod) != want:
            res.mismatch("model-vs-spec:vector_close", rc, js(mod), want)
        if clear:
            if st != "ok" or bool(mod) != impl:
                res.mismatch("vector_close", rc, impl, js(mod), "squares model; decision margin clear or all norms exact")
            if impl != want:
                res.failure("vector-close:wrong", "vector_close(%s, %s, eps=%s) = %s, exact %s" % (js(v1), js(v2), js(eps), impl, want), rc)
        else:
            res.skip("vector_close: tie with irrational norms (decision not compared)")


# ---------------------------------------------------------------------- small algebra: cross products, matrix product, in_sorted, is_separating, solve2x2
class Algebra(Family):
    name = "algebra"

    def cases(self):
        ctx = self.ctx
        rnd = ctx.rnd
        out = []
        vs = [(x, y) for x in range(-2, 3) for y in range(-2, 3)]
        for u in vs:
            for v in vs:
                out.append(("cross_product", u, v))
        for _ in range(1500):
            out.append(("cross_product_compare", rnd.choice(vs), rnd.choice(vs), rnd.choice(vs)))
            out.append(("cross_product", (Fr(rnd.randint(-2 ** 20, 2 ** 20), 2 ** 10), Fr(rnd.randint(-2 ** 20, 2 ** 20), 2 ** 10)),
                        (Fr(rnd.randint(-2 ** 20, 2 ** 20), 2 ** 10), Fr(rnd.randint(-2 ** 20, 2 ** 20), 2 ** 10))))
        for _ in range(300):
            a, b, c = rnd.randint(1, 4), rnd.randint(1, 4), rnd.randint(1, 4)
            out.append(("matrix_product", [[rnd.randint(-8, 8) for _ in range(b)] for _ in range(a)],
                        [[rnd.randint(-8, 8) for _ in range(c)] for _ in range(b)]))
        # in_sorted: every strictly increasing list over 0..6 of length 1..5, every value 0..7
        for k in range(0, 6):
            for vals in itertools.combinations(range(7), k):
                for x in range(8):
                    out.append(("in_sorted", list(vals), x))
        # is_separating on lattice directions / polygons
        polys = ctx.polys3
        dirs = [v for v in vs]
        for _ in range(2500 if not ctx.thorough else 25000):
            out.append(("is_separating", rnd.choice(dirs), rnd.choice(polys), rnd.choice(polys)))
        # solve2x2: entries in -2..2 (ratios 0, +-1/2, +-1 exact)
        rng5 = range(-2, 3)
        for a, b, c, d in itertools.product(rng5, repeat=4):
            for e, f in ((1, 0), (0, 1), (1, 2), (-2, 1)) if not ctx.thorough else itertools.product(rng5, repeat=2):
                out.append(("solve2x2", [[a, b], [c, d]], [e, f]))
        for _ in range(600):
            out.append(("solve2x2", [[Fr(rnd.uniform(-1, 1)), Fr(rnd.uniform(-1, 1))], [Fr(rnd.uniform(-1, 1)), Fr(rnd.uniform(-1, 1))]],
                        [Fr(rnd.uniform(-1, 1)), Fr(rnd.uniform(-1, 1))]))
        return out

    def ask(self, drv, case):
        k = case[0]
        v = self.ctx.variant
        if k == "cross_product":
            return [drv.ask("cross_product", list(case[1]), list(case[2]))]
        if k == "cross_product_compare":
            return [drv.ask("cross_product_compare", list(case[1]), list(case[2]), list(case[3]))]
        if k == "matrix_product":
            return [drv.ask("matrix_product", case[1], case[2])]
        if k == "in_sorted":
            return [drv.ask("in_sorted_py", case[1], case[2]), drv.ask("in_sorted_f90", case[1], case[2])]
        if k == "is_separating":
            return [drv.ask("is_separating_py", list(case[1]), pts_to_rows(case[2]), pts_to_rows(case[3])),
                    drv.ask("is_separating_f90", list(case[1]), pts_to_rows(case[2]), pts_to_rows(case[3]))]
        return [drv.ask("solve2x2", case[1], case[2])]

    def check(self, case, replies):
        ctx, res = self.ctx, self.res
        k = case[0]
        rc = self.rc(case)
        PH = ctx.PH
        if k == "cross_product":
            u = [num(x) for x in case[1]]
            v = [num(x) for x in case[2]]
            impl = Fr(float(ctx.H.cross_product(vec(u), vec(v))))
            want = u[0] * v[1] - u[1] * v[0]
            st, mod = replies[0]
            res.count(("cp", tuple(u), tuple(v)), fam="cross_product", nontrivial=want != 0)
            if st != "ok" or mod != impl:
                res.mismatch("cross_product", rc, js(impl), js(mod))
            if impl != want:
                res.failure("cross-product:wrong", "cross_product(%s, %s) = %s" % (js(u), js(v), impl), rc)
            if Fr(float(ctx.H.cross_product(vec(v), vec(u)))) != -impl:
                res.failure("cross-product:antisymmetry", "cross_product(%s, %s)" % (js(u), js(v)), rc)
        elif k == "cross_product_compare":
            s, a, b = [[num(x) for x in p] for p in case[1:4]]
            impl = Fr(float(PH.cross_product_compare(vec(s), vec(a), vec(b))))
            want = orient(s, a, b)
            st, mod = replies[0]
            res.count(("cpc", tuple(s), tuple(a), tuple(b)), fam="cross_product_compare", nontrivial=want != 0)
            if st != "ok" or mod != impl:
                res.mismatch("cross_product_compare", rc, js(impl), js(mod))
            if impl != want:
                res.failure("cross-product-compare:wrong", "cross_product_compare%s = %s" % (js(case[1:]), impl), rc)
        elif k == "matrix_product":
            m1 = [[num(x) for x in r] for r in case[1]]
            m2 = [[num(x) for x in r] for r in case[2]]
            impl = C.to_fr(PH.matrix_product(arr(m1), arr(m2)))
            want = X.mat_mul(m1, m2)
            st, mod = replies[0]
            res.count(("mp", str(m1), str(m2)), fam="matrix_product")
            if st != "ok" or mod != impl:
                res.mismatch("matrix_product", rc, js(impl), js(mod))
            if impl != want:
                res.failure("matrix-product:wrong", "matrix_product(%s, %s)" % (js(m1), js(m2)), rc)
        elif k == "in_sorted":
            vals, x = list(case[1]), int(case[2])
            impl = bool(PH.in_sorted(vals, x))
            want = x in vals
            res.count(("is", tuple(vals), x), fam="in_sorted", truth=want)
            mpy = replies[0][1]
            mf = replies[1][1]
            if bool(mpy) != impl:
                res.mismatch("in_sorted", rc, impl, js(mpy))
            if impl != want:
                res.failure("in-sorted:wrong", "in_sorted(%s, %d) = %s" % (vals, x, impl), rc)
            if vals and bool(mf) != want:
                res.mismatch("model-vs-spec:in_sorted_f90", rc, js(mf), want, "Fortran binary search (model) is not membership")
        elif k == "is_separating":
            d = [num(x) for x in case[1]]
            p = [(num(a), num(b)) for a, b in case[2]]
            q = [(num(a), num(b)) for a, b in case[3]]
            impl = bool(PH.is_separating(vec(d), arr(pts_to_rows(p)), arr(pts_to_rows(q))))
            res.count(("sep", tuple(d), tuple(p), tuple(q)), fam="is_separating", zero_direction=(d == [0, 0]))
            mpy = replies[0]
            if mpy[0] != "ok" or bool(mpy[1]) != impl:
                res.mismatch("is_separating", rc, impl, js(mpy[1]))
            if d != [0, 0]:
                pp = [d[0] * v[1] - d[1] * v[0] for v in p]
                qq = [d[0] * v[1] - d[1] * v[0] for v in q]
                want = min(pp) > max(qq) or max(pp) < min(qq)
                if impl != want:
                    res.failure("is-separating:wrong", "is_separating(%s, %s, %s) = %s" % (js(d), js(p), js(q), impl), rc)
                mf = replies[1]
                if mf[0] != "ok" or bool(mf[1]) != want:
                    res.mismatch("model-vs-spec:is_separating_f90", rc, js(mf[1]), want)
        else:
            lhs = [[num(x) for x in r] for r in case[1]]
            rhs = [num(x) for x in case[2]]
            sing, x, y = PH.solve2x2(arr(lhs), vec(rhs))
            st, mod = replies[0]
            (a, b), (c, d) = lhs
            det = a * d - b * c
            ints = all(v.denominator == 1 for r in lhs for v in r)
            res.count(("s2", str(lhs), str(rhs)), fam="solve2x2", regime="E" if ints else "T", singular=(det == 0))
            m_sing = (mod == [])
            if ints:
                if bool(sing) != m_sing:
                    res.mismatch("solve2x2", rc, bool(sing), js(mod), "singular flag (exact ratios)")
                if bool(sing) != (det == 0):
                    res.failure("solve2x2:singular-flag", "solve2x2(%s, %s): singular=%s, det=%s" % (js(lhs), js(rhs), sing, det), rc)
                if m_sing != (det == 0):
                    res.mismatch("model-vs-spec:solve2x2", rc, js(mod), str(det))
            if det != 0 and not m_sing:
                xe = (rhs[0] * d - b * rhs[1]) / det
                ye = (a * rhs[1] - c * rhs[0]) / det
                if mod != [xe, ye]:
                    res.mismatch("model-vs-spec:solve2x2", rc, js(mod), js([xe, ye]))
                if not sing:
                    # backward-stable 2x2 elimination with partial pivoting: residual small relative to |A||x|
                    r0 = abs(a * Fr(float(x)) + b * Fr(float(y)) - rhs[0])
                    r1 = abs(c * Fr(float(x)) + d * Fr(float(y)) - rhs[1])
                    sc0 = abs(a) * abs(Fr(float(x))) + abs(b) * abs(Fr(float(y))) + abs(rhs[0])
                    sc1 = abs(c) * abs(Fr(float(x))) + abs(d) * abs(Fr(float(y))) + abs(rhs[1])
                    if r0 > 64 * U * max(sc0, sc1) or r1 > 64 * U * max(sc0, sc1):
                        res.mismatch("solve2x2", rc, [float(x), float(y)], js(mod), "residual > 64u(|A||x|+|b|)")
                        if ints:
                            res.failure("solve2x2:value", "solve2x2(%s, %s) = (%r, %r), exact (%s, %s)" % (js(lhs), js(rhs), x, y, xe, ye), rc)


# ---------------------------------------------------------------------- linearization_error
class LinErr(Family):
    name = "linearization_error"

    def cases(self):
        ctx = self.ctx
        rnd = ctx.rnd
        out = []
        for _ in range(1000 if not ctx.thorough else 15000):
            deg = rnd.randint(1, 8)
            dim = rnd.choice([2, 2, 2, 3, 1])
            kind = rnd.choice(["lattice", "lattice", "float", "float-smooth"])
            if kind == "lattice":
                nodes = [[Fr(rnd.randint(0, 3)) for _ in range(deg + 1)] for _ in range(dim)]
            elif kind == "float":
                nodes = [[Fr(rnd.uniform(-1, 1)) for _ in range(deg + 1)] for _ in range(dim)]
            else:
                nodes = []
                for _ in range(dim):
                    x = rnd.uniform(-1, 1)
                    row = []
                    for _ in range(deg + 1):
                        row.append(Fr(x))
                        x += rnd.uniform(0.0, 0.5)
                    nodes.append(row)
            out.append((kind, nodes))
        return out

    def ask(self, drv, case):
        return [drv.ask("linearization_error_sq", case[1])]

    def check(self, case, replies):
        ctx, res = self.ctx, self.res
        kind = case[0]
        nodes = [[num(x) for x in r] for r in case[1]]
        rc = self.rc(case)
        deg = len(nodes[0]) - 1
        impl = Fr(float(ctx.PG.linearization_error(arr(nodes))))
        st, mod = replies[0]
        res.count(("le", str(nodes)), fam="linearization_error", degree=deg, kind=kind, nontrivial=deg >= 2)
        # spec: (d(d-1)/8)^2 * sum_rows max|second difference|^2
        worst = [max([abs(r[i] - 2 * r[i + 1] + r[i + 2]) for i in range(deg - 1)] or [Fr(0)]) for r in nodes]
        want_sq = (Fr(deg * (deg - 1), 8)) ** 2 * sum(w * w for w in worst)
        if st != "ok" or mod != want_sq:
            res.mismatch("model-vs-spec:linearization_error", rc, js(mod), js(want_sq))
        # rounding: each second difference a - 2b + c carries an absolute error <= 2u(|a| + 2|b| + |c|) (cancellation!),
        # the norm and the two products a relative error of a few u
        mult = Fr(deg * (deg - 1), 8)
        cond = [max([abs(r[i]) + 2 * abs(r[i + 1]) + abs(r[i + 2]) for i in range(deg - 1)] or [Fr(0)]) for r in nodes]
        tol = mult * 3 * U * sum(cond) + 8 * U * impl
        lo, hi = max(impl - tol, Fr(0)), impl + tol
        tiny = Fr(1, 2 ** 1000)
        okv = (lo * lo <= want_sq + tiny) and (want_sq <= hi * hi + tiny)
        if not okv:
            res.mismatch("linearization_error", rc, float(impl), js(mod), "impl^2 vs model (squares), tolerance 3u*mult*sum(|a|+2|b|+|c|) + 8u*value")
            res.failure("linearization-error:value", "linearization_error(%s) = %r, exact bound^2 = %s" % (js(nodes), float(impl), want_sq), rc)
        # safe side: the bound dominates the true deviation from the chord at dyadic parameters
        bound_sq = (impl + tol) ** 2
        for k in range(0, 17):
            s = Fr(k, 16)
            dev = sum((X.bern(r, s) - ((1 - s) * r[0] + s * r[-1])) ** 2 for r in nodes)
            if dev > bound_sq + tiny:
                res.failure("linearization-error:not-a-bound", "degree %d nodes %s: |B(s)-L(s)|^2 = %s > bound^2 = %s at s=%s" %
                            (deg, js(nodes), float(dev), float(bound_sq), s), rc)
                break


# ---------------------------------------------------------------------- bbox_line_intersect
class BoxLine(Family):
    name = "bbox_line_intersect"

    def cases(self):
        ctx = self.ctx
        rnd = ctx.rnd
        l4 = lattice(4)
        l6 = lattice(6, -1)
        out = []
        n = 12000 if not ctx.thorough else 150000
        for _ in range(n):
            nodes = [rnd.choice(l4) for _ in range(rnd.randint(2, 4))]
            if rnd.random() < 0.15:
                nodes = [(nodes[0][0], p[1]) for p in nodes] if rnd.random() < 0.5 else [(p[0], nodes[0][1]) for p in nodes]
            a, b = rnd.choice(l6), rnd.choice(l6)
            if a == b:
                continue
            out.append((pts_to_rows(nodes), a, b))
        return out

    def ask(self, drv, case):
        return [drv.ask("bbox_line_intersect", case[0], list(case[1]), list(case[2]))]

    def check(self, case, replies):
        ctx, res = self.ctx, self.res
        nodes = [[num(x) for x in r] for r in case[0]]
        a = tuple(num(x) for x in case[1])
        b = tuple(num(x) for x in case[2])
        rc = self.rc(case)
        impl = int(ctx.PG.bbox_line_intersect(arr(nodes), vec(a), vec(b)))
        want = 0 if seg_box(nodes, a, b) else 2
        st, mod = replies[0]
        l, r, bo, t = box_of(nodes)
        degenerate = (l == r) or (bo == t)
        res.count(("bl", str(nodes), a, b), fam="bbox_line_intersect", degenerate_box=degenerate, truth=want)
        if st != "ok" or int(mod) != impl:
            res.mismatch("bbox_line_intersect", rc, impl, js(mod))
        if impl != want:
            if degenerate:
                key = "bbox-line-intersect:degenerate-box:%s" % ("missed-hit" if want == 0 else "false-hit")
            else:
                key = "bbox-line-intersect:%s" % ("missed-hit" if want == 0 else "false-hit")
            res.failure(key, "bbox_line_intersect(nodes=%s, %s -> %s) = %d, exact segment/closed-box test = %d" %
                        (js(nodes), js(a), js(b), impl, want), rc)


# ---------------------------------------------------------------------- clipping
class Clip(Family):
    name = "clipping"

    def cases(self):
        ctx = self.ctx
        rnd = ctx.rnd
        l4 = lattice(4)
        out = []
        n = 2500 if not ctx.thorough else 40000
        for _ in range(n):
            n1 = [rnd.choice(l4) for _ in range(rnd.randint(2, 4))]
            n2 = [rnd.choice(l4) for _ in range(rnd.randint(2, 4))]
            if n1[0] == n1[-1]:
                continue
            out.append(("clip_range", pts_to_rows(n1), pts_to_rows(n2)))
        for _ in range(n // 4):
            n1 = [(Fr(rnd.randint(-64, 64), 8), Fr(rnd.randint(-64, 64), 8)) for _ in range(rnd.randint(2, 5))]
            n2 = [(Fr(rnd.randint(-64, 64), 8), Fr(rnd.randint(-64, 64), 8)) for _ in range(rnd.randint(2, 5))]
            if n1[0] == n1[-1]:
                continue
            out.append(("clip_range", pts_to_rows(n1), pts_to_rows(n2)))
        out.append(("clip_range", [[2, Fr(9, 2), Fr(5, 2), 5], [0, 1, 3, 4]], [[Fr(-1, 4), Fr(15, 4), 7], [Fr(25, 8), Fr(7, 8), Fr(25, 8)]]))
        for _ in range(n // 4):
            out.append(("update_parameters", Fr(rnd.randint(0, 8), 8), Fr(rnd.randint(0, 8), 8),
                        (0, rnd.randint(-3, 3)), (rnd.randint(1, 4), None), rnd.choice(lattice(5, -1)), rnd.choice(lattice(5, -1))))
        return out

    def ask(self, drv, case):
        if case[0] == "clip_range":
            return [drv.ask("clip_range", case[1], case[2]), drv.ask("compute_fat_line", case[1]),
                    drv.ask("compute_implicit_line", case[1])]
        _, smin, smax, s0, e0, s1, e1 = case
        e0 = (e0[0], s0[1])
        return [drv.ask("update_parameters", smin, smax, list(s0), list(e0), list(s1), list(e1))]

    def check(self, case, replies):
        ctx, res = self.ctx, self.res
        CL = ctx.CL
        rc = self.rc(case)
        if case[0] == "update_parameters":
            smin, smax = num(case[1]), num(case[2])
            s0 = tuple(num(x) for x in case[3])
            e0 = (num(case[4][0]), s0[1])
            s1 = tuple(num(x) for x in case[5])
            e1 = tuple(num(x) for x in case[6])
            st, mod = replies[0]
            res.count(("up", smin, smax, s0, e0, s1, e1), fam="update_parameters")
            try:
                got = CL._update_parameters(float(smin), float(smax), vec(s0), vec(e0), vec(s1), vec(e1))
                got = [Fr(float(got[0])), Fr(float(got[1]))]
                if st != "ok" or got != [rq(mod[0]), rq(mod[1])]:
                    res.mismatch("_update_parameters", rc, js(got), js(mod) if st == "ok" else "err " + str(mod))
            except NotImplementedError:
                if st != "err" or mod != "notImplemented":
                    res.mismatch("_update_parameters", rc, "NotImplementedError", js(mod))
            return
        n1 = [[num(x) for x in r] for r in case[1]]
        n2 = [[num(x) for x in r] for r in case[2]]
        p1, p2 = rows_to_pts(n1), rows_to_pts(n2)
        # compute_implicit_line / compute_fat_line : exact on lattices / dyadics
        fat = [Fr(float(x)) for x in CL.compute_fat_line(arr(n1))]
        st, mod = replies[1]
        if st != "ok" or fat != mod:
            res.mismatch("compute_fat_line", rc, js(fat), js(mod))
        imp = [Fr(float(x)) for x in CL.compute_implicit_line(arr(n1))]
        st, mod = replies[2]
        if st != "ok" or imp != mod:
            res.mismatch("compute_implicit_line", rc, js(imp), js(mod))
        dx, dy = p1[-1][0] - p1[0][0], p1[-1][1] - p1[0][1]
        a, b, c = -dy, dx, dy * p1[0][0] - dx * p1[0][1]
        dist1 = [a * p[0] + b * p[1] + c for p in p1]
        dmin = min([Fr(0)] + dist1[1:-1])
        dmax = max([Fr(0)] + dist1[1:-1])
        if imp != [a, b, c] or a * p1[0][0] + b * p1[0][1] + c != 0 or a * p1[-1][0] + b * p1[-1][1] + c != 0:
            res.failure("implicit-line:wrong", "compute_implicit_line(%s) = %s" % (js(n1), js(imp)), rc)
        if fat != [a, b, c, dmin, dmax]:
            res.failure("fat-line:wrong", "compute_fat_line(%s) = %s, exact (%s)" % (js(n1), js(fat), js([a, b, c, dmin, dmax])), rc)
        st, mod = replies[0]
        raised = False
        try:
            got = CL.clip_range(arr(n1), arr(n2))
            got = [Fr(float(got[0])), Fr(float(got[1]))]
        except NotImplementedError:
            raised = True
        res.count(("cr", str(n1), str(n2)), fam="clip_range", outcome="raises" if raised else ("empty" if got == [1, 0] else "range"),
                  degree2=len(p2) - 1)
        if raised:
            if st != "err" or mod != "notImplemented":
                res.mismatch("clip_range", rc, "NotImplementedError", js(mod))
            return
        # spec (containment) on the IMPLEMENTATION's answer, whatever the model says: a parameter t of the clipped curve whose exact
        # distance-polynomial value lies in the fat line [d_min, d_max] (every true intersection is such a t) must not be clipped
        # away; allowance 2^-40 for the rounding of the two quotients (the grid parameters are k/64)
        d2i = [a * p[0] + b * p[1] + c for p in p2]
        tol = Fr(1, 2 ** 40)
        for k in range(0, 65):
            t = Fr(k, 64)
            dt = X.bern(d2i, t)
            if dmin <= dt <= dmax and not (got[0] - tol <= t <= got[1] + tol):
                res.failure("clip-range:rejects-true-hit", "clip_range(%s, %s) returns (%s, %s) but the point of the clipped curve at "
                            "t = %s has distance value d = %s inside the fat line [%s, %s]: a parameter range that may contain "
                            "intersections is clipped away" % (js(n1), js(n2), float(got[0]), float(got[1]), t, dt, dmin, dmax), rc)
                break
        if st != "ok" or got != [rq(mod[0]), rq(mod[1])]:
            res.mismatch("clip_range", rc, js(got), js(mod) if st == "ok" else "err " + str(mod),
                         "E: s_min, s_max are correctly rounded exact quotients")
            return
        # spec (containment): every parameter t of the clipped curve whose exact distance polynomial value lies in
        # the fat line [d_min, d_max] must lie in the returned range; (1, 0) means "no such t"
        d2 = [a * p[0] + b * p[1] + c for p in p2]
        smin, smax = mod
        for k in range(0, 65):
            t = Fr(k, 64)
            dt = X.bern(d2, t)
            if dmin <= dt <= dmax and not (smin <= t <= smax):
                res.failure("clip-range:cuts-off-fat-line-point", "clip_range(%s, %s) = (%s, %s) but d(%s) = %s lies in [%s, %s]" %
                            (js(n1), js(n2), smin, smax, t, dt, dmin, dmax), rc)
                break


# ---------------------------------------------------------------------- convex_hull_collide
class HullCollide(Family):
    name = "convex_hull_collide"

    def cases(self):
        ctx = self.ctx
        rnd = ctx.rnd
        l4 = lattice(4)
        out = []
        n = 3000 if not ctx.thorough else 100000
        for _ in range(n):
            n1 = tuple(rnd.choice(l4) for _ in range(rnd.randint(2, 5)))
            n2 = tuple(rnd.choice(l4) for _ in range(rnd.randint(2, 5)))
            out.append((n1, n2))
        # inputs on which the compiled hull is wrong, against every small lattice polygon
        bad = ctx.bad_hull_inputs[:: max(1, len(ctx.bad_hull_inputs) // (40 if not ctx.thorough else 2000))]
        others = [p for p in ctx.polys3 if len(p) >= 2]
        for s in bad:
            for q in others:
                out.append((tuple(s), q))
        return out

    def ask(self, drv, case):
        n1, n2 = case
        return [drv.ask("convex_hull_collide_py", pts_to_rows(n1), pts_to_rows(n2)),
                drv.ask("convex_hull_collide_f90", pts_to_rows(n1), pts_to_rows(n2))]

    def check(self, case, replies):
        ctx, res = self.ctx, self.res
        n1 = [(num(a), num(b)) for a, b in case[0]]
        n2 = [(num(a), num(b)) for a, b in case[1]]
        rc = self.rc(case)
        want = convex_intersect(hull_spec(n1), hull_spec(n2))
        rep = len(set(n1)) != len(n1) or len(set(n2)) != len(n2)
        res.count(("chc", tuple(n1), tuple(n2)), fam="convex_hull_collide", repeated_points=rep, truth=want)
        # the pure-Python routine (same code in both configurations)
        impl = bool(ctx.PG.convex_hull_collide(arr(pts_to_rows(n1)), arr(pts_to_rows(n2))))
        st, mod = replies[0]
        if st != "ok" or bool(mod) != impl:
            res.mismatch("convex_hull_collide", rc, impl, js(mod))
        flat = all_collinear(n1, n2) and not (len(hull_spec(n1)) == 2 and len(hull_spec(n2)) == 2)
        if impl != want and impl and flat:
            ctx.flat_false_hits["convex_hull_collide (pure)"] += 1
        elif impl != want:
            one = len(set(n1)) == 1 or len(set(n2)) == 1
            res.failure(("py-polygon-collide:single-point-polygon:" if one else "convex-hull-collide:pure:") +
                        ("missed-hit" if want else "false-hit"),
                        "convex_hull_collide(%s, %s) = %s (pure Python), exact hull intersection = %s" % (js(n1), js(n2), impl, want), rc)
        if ctx.cfg == "speedup":
            # the compiled routine is not exported; its three calls are: hull, hull, line_line_collide / polygon_collide
            h1 = ctx.H.simple_convex_hull(arr(pts_to_rows(n1)))
            h2 = ctx.H.simple_convex_hull(arr(pts_to_rows(n2)))
            st, mod = replies[1]
            if h1.shape[1] == 2 and h2.shape[1] == 2:
                got = bool(ctx.PG.line_line_collide(h1, h2))
            else:
                got = bool(ctx.H.polygon_collide(h1, h2))
            if st == "ok" and bool(mod) != got:
                res.mismatch("convex_hull_collide(compiled pieces)", rc, got, js(mod))
            if st != "ok":
                res.skip("convex_hull_collide (compiled pieces): hull is a repeated point, line_line_collide on a degenerate segment (NaN in the code)")
            wrong = False
            if got != want:
                wrong = [tuple(map(Fr, c)) for c in zip(*h1.tolist())] != hull_spec(n1) or \
                    [tuple(map(Fr, c)) for c in zip(*h2.tolist())] != hull_spec(n2)
            if got != want and got and flat and not wrong:
                ctx.flat_false_hits["convex_hull_collide (compiled pieces)"] += 1
            elif got != want:
                kind = "missed-hit" if want else "false-hit"
                if wrong:
                    # consequence of a wrong compiled hull (regression detector of the repaired sort_in_place)
                    key = KNOWN_HULL
                    ctx.downstream[kind + " (a compiled hull is wrong)"] += 1
                else:
                    key = "convex-hull-collide:compiled:" + kind
                    ctx.downstream[kind + " (compiled hulls right)"] += 1
                res.failure(key, "compiled simple_convex_hull + polygon_collide/line_line_collide on (%s, %s) = %s, exact hull intersection = %s"
                            % (js(n1), js(n2), got, want), rc)
            ctx.downstream["checked"] += 1


# ---------------------------------------------------------------------- random floats with graded gap / penetration
class Graded(Family):
    name = "graded"

    def cases(self):
        ctx = self.ctx
        rnd = ctx.rnd
        out = []
        n = 1000 if not ctx.thorough else 15000
        for _ in range(n):
            k = rnd.randint(3, 6)
            pts = [(Fr(rnd.uniform(-1, 1)), Fr(rnd.uniform(-1, 1))) for _ in range(k)]
            P = hull_spec(pts)
            if len(P) < 3:
                continue
            i = rnd.randrange(len(P))
            a, b = P[i], P[(i + 1) % len(P)]
            # mirror image across the edge a-b (computed in floats), pushed by g along the outward normal
            ex, ey = float(b[0] - a[0]), float(b[1] - a[1])
            ln = math.hypot(ex, ey)
            nx, ny = ey / ln, -ex / ln      # outward for a counter-clockwise polygon
            g = 2.0 ** rnd.choice([-8, -16, -24, -32, -36, -40, -44, -48, -52])
            sign = rnd.choice([-1, 1])      # -1: penetration, +1: gap
            Q = []
            for p in P:
                px, py = float(p[0] - a[0]), float(p[1] - a[1])
                dist = px * nx + py * ny
                qx = float(p[0]) - 2 * dist * nx + sign * g * nx
                qy = float(p[1]) - 2 * dist * ny + sign * g * ny
                Q.append((Fr(qx), Fr(qy)))
            Qh = hull_spec(Q)
            out.append((tuple(P), tuple(Qh), int(round(math.log2(g))), sign))
        return out

    def ask(self, drv, case):
        P, Q = case[0], case[1]
        return [drv.ask("polygon_collide_" + self.ctx.variant, pts_to_rows(P), pts_to_rows(Q)),
                drv.ask("bbox_intersect", pts_to_rows(P), pts_to_rows(Q))]

    def check(self, case, replies):
        ctx, res = self.ctx, self.res
        P = [(num(a), num(b)) for a, b in case[0]]
        Q = [(num(a), num(b)) for a, b in case[1]]
        lg, sign = int(case[2]), int(case[3])
        rc = self.rc(case)
        truth = convex_intersect(P, Q)
        impl = bool(ctx.H.polygon_collide(arr(pts_to_rows(P)), arr(pts_to_rows(Q))))
        hc = bool(ctx.PG.convex_hull_collide(arr(pts_to_rows(P)), arr(pts_to_rows(Q))))
        bi = int(ctx.GI.bbox_intersect(arr(pts_to_rows(P)), arr(pts_to_rows(Q))))
        res.count(("gr", tuple(P), tuple(Q)), fam="graded", log2_gap=lg, kind="penetration" if sign < 0 else "gap",
                  truth=truth, polygon_collide=impl)
        # bbox_intersect only compares: exact on any binary64 data
        if bi != box_relation_spec(pts_to_rows(P), pts_to_rows(Q)) or replies[1][0] != "ok" or int(replies[1][1]) != bi:
            res.failure("bbox-intersect:inexact", "bbox_intersect on float polygons %s %s = %d" % (js(P), js(Q), bi), rc)
        if truth and bi == 2:
            res.failure("bbox-intersect:missed-hit", "boxes DISJOINT but polygons overlap: %s %s" % (js(P), js(Q)), rc)
        # safe side: an overlap by a clear margin (>= 2^-40 of the size) is never declared separate
        if truth and sign < 0 and lg >= -40:
            if not impl:
                res.failure("polygon-collide:float:missed-hit", "penetration 2^%d: polygon_collide(%s, %s) = False" % (lg, js(P), js(Q)), rc)
            if not hc:
                res.failure("convex-hull-collide:float:missed-hit", "penetration 2^%d: convex_hull_collide(%s, %s) = False" % (lg, js(P), js(Q)), rc)
        # correspondence in regime T: compare decisions only for a clear margin
        st, mod = replies[0]
        if lg >= -40 and (st != "ok" or bool(mod) != impl):
            res.mismatch("polygon_collide(float)", rc, impl, js(mod), "clear margin 2^%d" % lg)
        if st == "ok" and bool(mod) != truth:
            res.mismatch("model-vs-spec:polygon_collide(float)", rc, js(mod), truth, "the exact model must give the exact answer")


# ---------------------------------------------------------------------- contains_nd of curve points
class ContainsCurve(Family):
    name = "contains_curve_point"

    def cases(self):
        ctx = self.ctx
        rnd = ctx.rnd
        out = []
        for _ in range(800 if not ctx.thorough else 8000):
            deg = rnd.randint(1, 8)
            dim = rnd.randint(1, 3)
            if rnd.random() < 0.5:
                nodes = [[Fr(rnd.randint(0, 3)) for _ in range(deg + 1)] for _ in range(dim)]
            else:
                nodes = [[Fr(rnd.uniform(-1, 1)) for _ in range(deg + 1)] for _ in range(dim)]
            if rnd.random() < 0.3:
                nodes[0] = [nodes[0][0]] * (deg + 1)       # flat coordinate: the point lies ON the box
            s = Fr(rnd.randint(0, 64), 64)
            out.append((nodes, s))
        return out

    def ask(self, drv, case):
        nodes, s = case
        pt = [rq(X.bern([num(x) for x in r], num(s))) for r in nodes]
        return [drv.ask("contains_nd_" + self.ctx.variant, nodes, pt)]

    def check(self, case, replies):
        ctx, res = self.ctx, self.res
        nodes = [[num(x) for x in r] for r in case[0]]
        s = num(case[1])
        rc = self.rc(case)
        exact_pt = [X.bern(r, s) for r in nodes]
        pt = [rq(v) for v in exact_pt]                    # nearest binary64 to the exact curve point
        impl = bool(ctx.H.contains_nd(arr(nodes), vec(pt)))
        res.count(("cc", str(nodes), s), fam="contains_curve_point", degree=len(nodes[0]) - 1, dim=len(nodes))
        st, mod = replies[0]
        if st != "ok" or bool(mod) != impl:
            res.mismatch("contains_nd(curve point)", rc, impl, js(mod))
        if not impl:
            res.failure("contains-nd:curve-point-rejected", "contains_nd(nodes=%s, B(%s) = %s) = False" % (js(nodes), s, js(pt)), rc)
        # and with the library's own evaluation, away from flat coordinates (rounding of the evaluation is C01's business)
        ev = ctx.CH.evaluate_multi(arr(nodes), F([float(s)]))[:, 0]
        margin = all(min(r) < min(r) + (max(r) - min(r)) * Fr(1, 2 ** 30) <= v <= max(r) - (max(r) - min(r)) * Fr(1, 2 ** 30)
                     for r, v in zip(nodes, exact_pt))
        if margin and not bool(ctx.H.contains_nd(arr(nodes), F(ev))):
            res.failure("contains-nd:curve-point-rejected", "contains_nd(nodes=%s, evaluate(%s)) = False" % (js(nodes), s), rc)


FAMILIES = [Hull, PolyCollide, Segments, Boxes, Wiggle, VectorClose, Algebra, LinErr, BoxLine, Clip, HullCollide,
            Graded, ContainsCurve]


def main():
    bezier = C.import_bezier()
    from bezier import _helpers as H, _geometric_intersection as GI, _curve_helpers as CH
    from bezier.hazmat import helpers as PH, geometric_intersection as PG, clipping as CL
    ctx = Ctx()
    ctx.rnd, ctx.seed = C.rng()
    ctx.thorough = C.tier() == "thorough"
    ctx.search = bool(int(__import__("os").environ.get("VERIF_SEARCH", "0") or 0))
    ctx.cfg = C.config_name()
    ctx.variant = "py" if ctx.cfg == "pure" else "f90"
    ctx.H, ctx.GI, ctx.PH, ctx.PG, ctx.CL, ctx.CH = H, GI, PH, PG, CL, CH
    ctx.res = res = C.Result("C16")
    _capped_failure(res)
    ctx.wiggle = C.generated("f90_helpers_WIGGLE")
    ctx.eps = C.generated("py_helpers_EPS")
    ctx.bad_hull_inputs = []
    ctx.slanted_budget = 400 if not ctx.thorough else 6000
    import collections
    ctx.downstream = collections.Counter()
    ctx.flat_false_hits = collections.Counter()
    ctx.polys3 = lattice_polygons(3)
    ctx.polys4 = None
    # extracted thresholds seen from Python (the default argument is not a module constant)
    import inspect
    wdef = inspect.signature(PH.wiggle_interval).parameters["wiggle"].default
    if Fr(wdef) != ctx.wiggle:
        res.mismatch("wiggle default", {}, str(Fr(wdef)), str(ctx.wiggle), "Python default argument differs from the Fortran parameter")
    if (PG.BoxIntersectionType.INTERSECTION, PG.BoxIntersectionType.TANGENT, PG.BoxIntersectionType.DISJOINT) != (0, 1, 2):
        res.mismatch("BoxIntersectionType", {}, "python enum", "0,1,2")

    rep = C.replay_case()
    fams = [f(ctx) for f in FAMILIES]
    if rep:
        fam = [f for f in fams if f.name == rep["fam"]][0]
        # families that consume the output of earlier ones
        case = rep["case"]

        def tup(x):
            return tuple(tup(y) for y in x) if isinstance(x, list) else x
        case = tup(case)
        drv = C.Driver()
        ix = fam.ask(drv, _prep(case))
        replies = drv.run()
        try:
            fam.check(_prep(case), [replies[i] for i in ix])
        except Exception as exc:     # noqa: BLE001
            res.failure("raised:%s:%s" % (fam.name, type(exc).__name__), "%s: raised %r" % (fam.name, exc), rep)
        res.emit()
        bad = bool(res.failures)
        print("replay: " + ("property fails on this input: " + res.failures[0]["what"] if bad else "property holds on this input"))
        sys.exit(1 if bad else 0)

    import time
    raised_seen = {}
    for fam in fams:
        t_fam = time.time()
        cases = iter(fam.cases())
        CH_ = 40000
        while True:
            chunk = list(itertools.islice(cases, CH_))
            if not chunk:
                break
            drv = C.Driver()
            idx = [fam.ask(drv, c) for c in chunk]
            replies = drv.run() if drv.lines else []
            for c, ix in zip(chunk, idx):
                try:
                    fam.check(c, [replies[i] for i in ix])
                except Exception as exc:     # noqa: BLE001
                    # an exception raised INSIDE the library on an input of the family is a failing input of the property
                    # (the predicates are total on these inputs); anything else is a harness problem and stops the script
                    import traceback
                    tb = traceback.extract_tb(exc.__traceback__)
                    pkg = os.environ.get("BEZIER_PKG", "\0")
                    if not any(fr.filename.startswith(pkg) for fr in tb):
                        raise
                    where = next(fr for fr in reversed(tb) if fr.filename.startswith(pkg))
                    if raised_seen.get((fam.name, type(exc).__name__), 0) < 3:
                        raised_seen[(fam.name, type(exc).__name__)] = raised_seen.get((fam.name, type(exc).__name__), 0) + 1
                        rcase = fam.rc(c)
                        res.failure("raised:%s:%s" % (fam.name, type(exc).__name__),
                                    "%s: the library raised %r in %s (%s:%d) on an input of the family" %
                                    (fam.name, exc, where.name, os.path.basename(where.filename), where.lineno), rcase)
        if hasattr(fam, "finish"):
            fam.finish()
        res.dist.setdefault("seconds", {})[fam.name] = round(time.time() - t_fam, 1)
    if ctx.cfg == "speedup":
        res.notes.append("downstream of the compiled hull (simple_convex_hull + polygon_collide / line_line_collide = the compiled "
                         "convex_hull_collide): " + ", ".join("%s: %d" % kv for kv in sorted(ctx.downstream.items())))
    res.notes.append("flat configurations (all vertices of both polygons collinear) answered 'collide' although separate - safe side, "
                     "inherent to the separating-axis test over edge normals: " +
                     (", ".join("%s: %d" % kv for kv in sorted(ctx.flat_false_hits.items())) or "none"))
    res.emit()


def _prep(case):
    """json round trip turns Fractions into ints / hex / 'p/q' strings: parse numbers back"""
    def conv(x):
        if isinstance(x, tuple):
            return tuple(conv(y) for y in x)
        if isinstance(x, list):
            return [conv(y) for y in x]
        if isinstance(x, str):
            try:
                return num(x)
            except Exception:
                return x
        return x
    return conv(case)


main()
