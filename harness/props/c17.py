"""C17 — intersections do not depend on how the same geometry is presented: metamorphic oracle on the real code.

impl  : bezier._geometric_intersection.all_intersections (shim: pure hazmat / compiled _speedup.curve_intersections),
        every 4th pair through bezier.Curve.intersect; bezier.Triangle.intersect for the triangle part
spec  : exact.py — the presentations are built with EXACT rational transformations and accepted only when every
        coordinate is a binary64 number, so each presentation is literally the same point set; whether a reported
        parameter pair is an intersection, how transversal it is, how far it is from the other reported pairs and from
        the boundary of the unit square is decided in exact rational arithmetic from the base nets
model : the Lean side (Props/C17) proves the relabelling of the exact intersection set under each presentation; the
        script re-checks these identities on every pair at a dyadic parameter in exact arithmetic (`spec-equivariance`)

Curve pairs.  Presentations of (n1, n2) and the map back to base parameters:
    base (s,t) | swap (t,s) | reverse1 (1-s,t) | reverse2 (s,1-t) | elevate1/elevate2 (s,t) |
    split1 = left half (s/2,t) U right half ((1+s)/2,t) (the junction s = 1/2 reported by both halves counts once) |
    translate, axes (x,y)->(y,x), mirror x->-x, scale-3, scale+5 (s,t)
All reported pairs are pooled.  A pooled pair (s,t) is CLAIMED when, exactly,
    |B1(s)-B2(t)|_inf <= 2^-40 size   (best member of its 2^-30 cluster; size = extent of the two nets),
    sin^2(angle of the exact tangents) >= 2^-14, both tangents >= 2^-6 size in max-norm,
    every other pooled pair is either within 2^-30 (the same point) or at least 2^-16 away (max-norm in (s,t)),
    each parameter is >= 2^-16 away from {0,1} or within 2^-45 of it.
A pair of curves with a non-claimed pooled point within 2^-8 of a claimed one is not judged at all.
Requirement: every claimed point occurs exactly once (within 2^-30 in both parameters, after relabelling) in EVERY
presentation that returns normally:
    presentation-misses:<name> / presentation-duplicates:<name>
    presentation-raises:<name>:<exception>   when all pooled points are claimed (at least one) and another presentation returned
    presentation-flag:<name>                 when all pooled points are claimed and the coincident flags differ
    presentation-misses:<name>:end-point-incidence   the same when the missed point has a parameter at 0 or 1
    tangent-bbox:curve-on-axis-parallel-line a miss whose INPUT has one (genuinely curved) curve entirely on an axis-parallel
                                             line while the boxes are tangent along it, or the other curve reaches that line
                                             exactly at a bisection breakpoint k/2^m (m <= 20) of its parameter, so that the
                                             sub-curve boxes are tangent along it (known C03 finding, any subdivision level)
Nothing is required of non-claimed points (tangencies, overlaps, bogus double-root Newton output, clusters).

Triangle pairs (degree 1..3, perturbed affine lattices): base | swap | translate | rot90 | scale-3 | scale+5 | elevate1.
The pair is judged when every edge/edge intersection found in any presentation is claimed as above with both
parameters inside [2^-16, 1-2^-16] (no corner incidence), none is coincident, no edge call raised.  Then all
presentations must return normally with the same number of regions, the same multiset of edge counts and total area
within 2^-30 size^2 of the consensus; swap must give the same regions (edge count, area) one by one:
    tri-presentation-raises:<name>:<exception> / tri-presentation-regions:<name> / tri-presentation-area:<name>
"""
import json
import os
import sys
import time
import warnings
from fractions import Fraction as Fr

import numpy as np

import common as C
import exact as X

warnings.simplefilter("ignore", RuntimeWarning)    # 0/0 inside the library on zero-length lattice segments
TOL = Fr(1, 2 ** 30)
RES = Fr(1, 2 ** 40)
SIN2 = Fr(1, 2 ** 14)
SEP = Fr(1, 2 ** 16)
EDGE = Fr(1, 2 ** 16)
SNAP = Fr(1, 2 ** 45)
NEAR = Fr(1, 2 ** 8)
SPEED = Fr(1, 2 ** 6)
HALF = Fr(1, 2)
ZOO = os.path.join(os.environ.get("BEZIER_REPO", "/repo"), "tests", "functional")


# ------------------------------------------------------------------------------------------ exact helpers
def odd_part(m):
    while m % 2 == 0:
        m //= 2
    return m


def representable(nodes):
    return all(C.is_exact_float(x) for r in nodes for x in r)


def subdivide_exact(row):
    """de Casteljau at 1/2: (left, right) control rows"""
    cur = list(row)
    left, right = [cur[0]], [cur[-1]]
    while len(cur) > 1:
        cur = [(cur[i] + cur[i + 1]) / 2 for i in range(len(cur) - 1)]
        left.append(cur[0])
        right.append(cur[-1])
    right.reverse()
    return left, right


def extent(*nets):
    xs = [v for n in nets for v in n[0]]
    ys = [v for n in nets for v in n[1]]
    return max(max(xs) - min(xs), max(ys) - min(ys))


def boxes_disjoint(n1, n2):
    return any(max(n1[r]) < min(n2[r]) or max(n2[r]) < min(n1[r]) for r in (0, 1))


def is_straight(n):
    """all second differences vanish: a (degree-elevated) segment, linearised by the library before any box test"""
    return all(r[j] - 2 * r[j + 1] + r[j + 2] == 0 for r in n for j in range(len(r) - 2))


def tangent_box_line_degenerate(n1, n2):
    """boxes tangent along an axis-parallel line AND one curve entirely on that line (input geometry only;
    same predicate as the C03 check), both curves genuinely curved (the tangent-box shortcut of the library is only
    taken for pairs that are not both linearised; a straight input is linearised from the start)"""
    if boxes_disjoint(n1, n2) or is_straight(n1) or is_straight(n2):
        return False
    for r in (0, 1):
        for a, b in ((n1, n2), (n2, n1)):
            c = max(a[r])
            if c == min(b[r]) and (all(v == c for v in a[r]) or all(v == c for v in b[r])):
                return True
    return False


def is_breakpoint(p, depth=20):
    """p = k / 2^m with m <= depth: an end point of a sub-curve after at most `depth` bisections (0 and 1 included)"""
    return (p.denominator & (p.denominator - 1)) == 0 and p.denominator <= 2 ** depth


def tangent_line_family(n1, n2, s, t):
    """the known C03 family, at any subdivision level, decided from the input nets and the exact crossing: one curve
    lies entirely on an axis-parallel line (a constant coordinate row), both curves are genuinely curved, and the
    OTHER curve reaches that line exactly at a bisection breakpoint of its parameter — so one of its sub-curves
    ending there has a box tangent to the line, and the library then only compares end points."""
    if is_straight(n1) or is_straight(n2):
        return False
    for on_line, other_param, other in ((n1, t, n2), (n2, s, n1)):
        for r in (0, 1):
            c = on_line[r][0]
            if all(v == c for v in on_line[r]) and is_breakpoint(other_param) and X.bern(other[r], other_param) == c:
                return True
    return False


def dist(p, q):
    return max(abs(p[0] - q[0]), abs(p[1] - q[1]))


def judge_point(n1, n2, size, members, others):
    """(claimed?, reason, info) of a pooled cluster; members[0] is the representative"""
    s, t = members[0]
    info = {}
    for p in (s, t):
        d = min(p, 1 - p)
        if not (d >= EDGE or abs(d) <= SNAP):
            return False, "near-boundary", info
    sep = min([dist((s, t), o) for o in others] or [Fr(2)])
    if sep < SEP:
        return False, "cluster", info
    best = None
    for (a, b) in members[:6]:
        p1, p2 = X.eval_curve(n1, a), X.eval_curve(n2, b)
        r = max(abs(p1[0] - p2[0]), abs(p1[1] - p2[1]))
        best = r if best is None or r < best else best
        if best <= RES * size:
            break
    info["residual/size"] = float(best / size)
    if best > RES * size:
        return False, "residual", info
    d1 = [X.hodograph_exact(r, s) for r in n1]
    d2 = [X.hodograph_exact(r, t) for r in n2]
    if max(abs(d1[0]), abs(d1[1])) < SPEED * size or max(abs(d2[0]), abs(d2[1])) < SPEED * size:
        return False, "slow-tangent", info
    cr = d1[0] * d2[1] - d1[1] * d2[0]
    sin2 = cr * cr / ((d1[0] ** 2 + d1[1] ** 2) * (d2[0] ** 2 + d2[1] ** 2))
    info["sin2"] = float(sin2)
    if sin2 < SIN2:
        return False, "small-angle", info
    return True, "claimed", info


def cluster(points):
    """greedy 2^-30 clustering of [(name, s, t)]: list of dicts {rep, members(list of distinct (s,t)), by(name->count)}"""
    cl = []
    for name, s, t in points:
        for c in cl:
            if dist(c["rep"], (s, t)) <= TOL:
                if (s, t) not in c["members"]:
                    c["members"].append((s, t))
                c["by"][name] = c["by"].get(name, 0) + 1
                break
        else:
            cl.append({"rep": (s, t), "members": [(s, t)], "by": {name: 1}})
    return cl


# ------------------------------------------------------------------------------------------ curve presentations
def curve_presentations(n1, n2, shift, elev):
    """[(name, [(A, B, back)])]; back maps the returned (col0, col1) to base (s, t), exactly"""
    def ident(a, b):
        return (a, b)

    def tr(n):
        return [[x + shift[0] for x in n[0]], [y + shift[1] for y in n[1]]]

    def sc(n, k):
        f = Fr(2) ** k
        return [[x * f for x in r] for r in n]

    out = [("base", [(n1, n2, ident)]),
           ("swap", [(n2, n1, lambda a, b: (b, a))]),
           ("reverse1", [([r[::-1] for r in n1], n2, lambda a, b: (1 - a, b))]),
           ("reverse2", [(n1, [r[::-1] for r in n2], lambda a, b: (a, 1 - b))])]
    if elev == 1:
        out.append(("elevate1", [([X.elevate_exact(r) for r in n1], n2, ident)]))
    else:
        out.append(("elevate2", [(n1, [X.elevate_exact(r) for r in n2], ident)]))
    halves = [subdivide_exact(r) for r in n1]
    out.append(("split1", [([h[0] for h in halves], n2, lambda a, b: (a / 2, b)),
                           ([h[1] for h in halves], n2, lambda a, b: ((1 + a) / 2, b))]))
    out.append(("translate", [(tr(n1), tr(n2), ident)]))
    out.append(("axes", [([n1[1], n1[0]], [n2[1], n2[0]], ident)]))
    out.append(("mirror", [([[-x for x in n1[0]], n1[1]], [[-x for x in n2[0]], n2[1]], ident)]))
    out.append(("scale-3", [(sc(n1, -3), sc(n2, -3), ident)]))
    out.append(("scale+5", [(sc(n1, 5), sc(n2, 5), ident)]))
    return out


def spec_selfcheck(n1, n2, shift, pres, sigma, tau):
    """exact re-check of the identities proved in Props/C17 at the dyadic parameters (sigma, tau):
    presentation point at the pre-image parameter = transformed base point.  Returns the offending name or None"""
    b1, b2 = X.eval_curve(n1, sigma), X.eval_curve(n2, tau)
    for name, calls in pres:
        for idx, (A, B, back) in enumerate(calls):
            if name == "swap":
                pa, pb, wa, wb = X.eval_curve(A, tau), X.eval_curve(B, sigma), b2, b1
            elif name == "reverse1":
                pa, pb, wa, wb = X.eval_curve(A, 1 - sigma), X.eval_curve(B, tau), b1, b2
            elif name == "reverse2":
                pa, pb, wa, wb = X.eval_curve(A, sigma), X.eval_curve(B, 1 - tau), b1, b2
            elif name == "split1":
                if idx == 0:
                    pa, wa = X.eval_curve(A, sigma), X.eval_curve(n1, sigma / 2)
                else:
                    pa, wa = X.eval_curve(A, sigma), X.eval_curve(n1, (1 + sigma) / 2)
                pb, wb = X.eval_curve(B, tau), b2
            else:
                pa, pb = X.eval_curve(A, sigma), X.eval_curve(B, tau)
                if name == "translate":
                    f = lambda p: [p[0] + shift[0], p[1] + shift[1]]
                elif name == "axes":
                    f = lambda p: [p[1], p[0]]
                elif name == "mirror":
                    f = lambda p: [-p[0], p[1]]
                elif name.startswith("scale"):
                    k = Fr(2) ** int(name[5:])
                    f = lambda p: [k * p[0], k * p[1]]
                else:
                    f = lambda p: p
                wa, wb = f(b1), f(b2)
            if pa != wa or pb != wb:
                return name
    return None


# ------------------------------------------------------------------------------------------ generators
def elev_factor(d1, d2, elev):
    """odd part of (degree + 1) of the curve that will be elevated: when BOTH nets are integer multiples of
    factor * 2^-k the elevated control points are dyadic, and the pair keeps its shape"""
    return odd_part((d1 if elev == 1 else d2) + 1)


def gen_lattice(rnd, elev):
    d1, d2 = rnd.randint(1, 4), rnd.randint(1, 4)
    f = elev_factor(d1, d2, elev)
    n1 = [[Fr(rnd.randint(0, 4) * f) for _ in range(d1 + 1)] for _ in range(2)]
    n2 = [[Fr(rnd.randint(0, 4) * f) for _ in range(d2 + 1)] for _ in range(2)]
    return n1, n2


def gen_dyadic(rnd, elev):
    d1, d2 = rnd.randint(1, 6), rnd.randint(1, 6)
    f = elev_factor(d1, d2, elev)
    bits = rnd.choice([2, 4, 10])
    m = (8 * 2 ** bits) // f

    def net(d):
        return [[Fr(rnd.randint(-m, m) * f, 2 ** bits) for _ in range(d + 1)] for _ in range(2)]
    return net(d1), net(d2)


def gen_joint(rnd, elev):
    """two curved pieces joined end-to-start: the first ends where the second starts, and that point is a corner of both
    control-point boxes (coordinates non-decreasing along both nets), so the boxes are tangent in a corner; the tangent
    directions at the joint differ.  The presentations (swap, reverse1, reverse2) turn the (1,0) joint into all four
    end-point pairings"""
    d1, d2 = rnd.randint(2, 4), rnd.randint(2, 4)
    f = elev_factor(d1, d2, elev)

    def mono(d, x0, y0):
        xs, ys = [x0], [y0]
        for _ in range(d):
            xs.append(xs[-1] + rnd.randint(0, 3) * f)
            ys.append(ys[-1] + rnd.randint(0, 3) * f)
        return [[Fr(v) for v in xs], [Fr(v) for v in ys]]
    for _ in range(100):
        a = mono(d1, 0, 0)
        b = mono(d2, int(a[0][-1]), int(a[1][-1]))
        ta = (a[0][-1] - a[0][-2], a[1][-1] - a[1][-2])
        tb = (b[0][1] - b[0][0], b[1][1] - b[1][0])
        if ta != (0, 0) and tb != (0, 0) and ta[0] * tb[1] - ta[1] * tb[0] != 0 and (b[0][-1], b[1][-1]) != (b[0][0], b[1][0]):
            return a, b
    return gen_lattice(rnd, elev)


def gen_smooth(rnd, elev):
    """regular looking curves sweeping across each other: several transversal crossings; magnitude <= 8,
    10 fractional bits"""
    d1, d2 = rnd.randint(1, 12), rnd.randint(1, 12)
    f = elev_factor(d1, d2, elev)

    def quant(v):
        return Fr(int(v * 1024 / f) * f, 1024)

    def graph(d, amp, flip):
        ts = [Fr(0)]
        for _ in range(d):
            ts.append(ts[-1] + Fr(rnd.randint(512, 1536), 1024))
        xs = [quant(-Fr(15, 2) + 15 * t / ts[-1] + Fr(rnd.randint(-256, 256), 1024)) for t in ts]
        ys = [quant(Fr(rnd.randint(-amp * 1024, amp * 1024), 1024)) for _ in range(d + 1)]
        return [ys, xs] if flip else [xs, ys]

    if rnd.random() < 0.5:
        return graph(d1, 7, False), graph(d2, 7, False)
    return graph(d1, 7, False), graph(d2, 7, True)


def load_zoo():
    def conv(v):
        if isinstance(v, list):
            return [conv(x) for x in v]
        if isinstance(v, int):
            return Fr(v)
        if v.startswith("0x") or v.startswith("-0x"):
            return Fr(float.fromhex(v))
        a, b = v.split("/")
        return Fr(int(a), int(b))
    try:
        with open(os.path.join(ZOO, "curves.json")) as fh:
            curves = {k: conv(v["control_points"]) for k, v in json.load(fh).items()}
        with open(os.path.join(ZOO, "curve_intersections.json")) as fh:
            pairs = [(str(p["curve1"]), str(p["curve2"]), p.get("type", "?"), p.get("id")) for p in json.load(fh)]
    except (OSError, ValueError, KeyError):
        return []
    out = []
    for a, b, typ, pid in pairs:
        if a in curves and b in curves and representable(curves[a]) and representable(curves[b]):
            out.append((curves[a], curves[b], "zoo-%s:%s" % (pid, typ)))
    return out


# ------------------------------------------------------------------------------------------ triangles
def tri_edges(nodes, d):
    """the three edge nets (2 x (d+1)) of a triangle net, in the library's orientation"""
    e1 = [X.tri_index(d, j, 0) for j in range(d + 1)]
    e2 = [X.tri_index(d, d - k, k) for k in range(d + 1)]
    e3 = [X.tri_index(d, 0, d - k) for k in range(d + 1)]
    return [[[r[i] for i in e] for r in nodes] for e in (e1, e2, e3)]


def gen_triangle(rnd, d, unit, lo, hi):
    """perturbed affine lattice of degree d; coordinates multiples of `unit` (3 * 2^-k so that the lattice points
    and the elevated nets are dyadic multiples)"""
    while True:
        p = [(rnd.randint(lo, hi) * 6, rnd.randint(lo, hi) * 6) for _ in range(3)]
        cr = (p[1][0] - p[0][0]) * (p[2][1] - p[0][1]) - (p[1][1] - p[0][1]) * (p[2][0] - p[0][0])
        if cr < 0:
            p[1], p[2] = p[2], p[1]
            cr = -cr
        if cr >= 36 * 24:
            break
    rows = [[], []]
    # (validity of the perturbed net is checked by the caller with Triangle.is_valid)
    for k in range(d + 1):
        for j in range(d + 1 - k):
            i = d - j - k
            for c in (0, 1):
                v = Fr(i * p[0][c] + j * p[1][c] + k * p[2][c], d)
                if d > 1 and max(i, j, k) < d:
                    v += Fr(rnd.randint(-8, 8) * 3, 4)      # small perturbation of the non-corner nodes
                rows[c].append(v * unit)
    return rows


def gen_nested_pair(rnd):
    """a straight outer triangle and a quadratic inner triangle STRICTLY inside it whose bottom edge bulges towards the outer edge y = 0:
    the middle control point of that edge lies outside the outer triangle and outside the bounding box of the outer control net, the edge
    itself (Bernstein coefficients h, -e, h of its height with 0 < e < h: positive on [0, 1]) stays inside.  No edge meets an edge, so the
    answer is decided by the containment probe alone - and must not depend on the order of the arguments (seed C17_g).  Coordinates are
    multiples of 3/4 so that the elevated presentation is exactly representable."""
    L = rnd.choice([16, 24])
    h = Fr(rnd.choice([1, 2]), 2)
    x0 = Fr(rnd.randint(2, 4))
    x1 = x0 + rnd.randint(2, 4)
    e = h * Fr(rnd.choice([1, 2, 3]), 4)
    top = (x0 + (x1 - x0) / 2 + Fr(rnd.randint(-1, 1), 2), h + rnd.randint(2, 3))
    p0, p1 = (x0, h), (x1, h)
    pts = [p0, ((x0 + x1) / 2, -e), p1, ((p0[0] + top[0]) / 2, (p0[1] + top[1]) / 2), ((p1[0] + top[0]) / 2, (p1[1] + top[1]) / 2), top]
    inner = [[3 * q[0] for q in pts], [3 * q[1] for q in pts]]
    outer = [[Fr(0), Fr(3 * L), Fr(0)], [Fr(0), Fr(0), Fr(3 * L)]]
    d_out = 1
    if rnd.random() < 0.5:
        outer = [X.tri_elevate_exact(r, 1) for r in outer]
        d_out = 2
    return inner, 2, outer, d_out


def tri_presentations(t1, d1, t2, d2, shift):
    def tr(n):
        return [[x + shift[0] for x in n[0]], [y + shift[1] for y in n[1]]]

    def sc(n, k):
        f = Fr(2) ** k
        return [[x * f for x in r] for r in n]

    def rot(n):
        return [[-y for y in n[1]], list(n[0])]
    out = [("base", t1, d1, t2, d2, False, Fr(1)),
           ("swap", t2, d2, t1, d1, True, Fr(1)),
           ("translate", tr(t1), d1, tr(t2), d2, False, Fr(1)),
           ("rot90", rot(t1), d1, rot(t2), d2, False, Fr(1)),
           ("scale-3", sc(t1, -3), d1, sc(t2, -3), d2, False, Fr(1, 8)),
           ("scale+5", sc(t1, 5), d1, sc(t2, 5), d2, False, Fr(32)),
           ("elevate1", [X.tri_elevate_exact(r, d1) for r in t1], d1 + 1, t2, d2, False, Fr(1))]
    return out


# ------------------------------------------------------------------------------------------ main
def main():
    bezier = C.import_bezier()
    from bezier import _geometric_intersection as GI
    rnd, seed = C.rng()
    thorough = C.tier() == "thorough"
    search = os.environ.get("VERIF_SEARCH") == "1"
    cfg = C.config_name()
    res = C.Result("C17")
    rep = C.replay_case()
    t_start = time.time()
    budget = 100.0 if not thorough else 1500.0
    stats = {"pairs": 0, "judged_pairs": 0, "claimed_points": 0, "pooled_points": 0, "presentations": 0,
             "calls": 0, "raised": 0, "tri_pairs": 0, "tri_judged": 0, "tri_presentations": 0}

    def call_curves(route, A, B):
        a, b = C.farr(A), C.farr(B)
        stats["calls"] += 1
        if route == "Curve.intersect":
            pts = bezier.Curve(a, a.shape[1] - 1).intersect(bezier.Curve(b, b.shape[1] - 1))
            return np.asarray(pts), None
        pts, flag = GI.all_intersections(a, b)
        return np.asarray(pts), bool(flag)

    # ---------------------------------------------------------------- one curve pair
    def run_curve_pair(case):
        n1 = [[Fr(x) for x in r] for r in case["n1"]]
        n2 = [[Fr(x) for x in r] for r in case["n2"]]
        shift = [Fr(x) for x in case["shift"]]
        elev, route, family = case["elev"], case["route"], case["family"]
        size = extent(n1, n2)
        stats["pairs"] += 1
        if size == 0:
            res.skip("degenerate:zero-extent")
            return
        pres = curve_presentations(n1, n2, shift, elev)
        usable = []
        for name, calls in pres:
            if all(representable(A) and representable(B) for A, B, _ in calls):
                usable.append((name, calls))
            else:
                res.skip("inexact-presentation:" + name.rstrip("12"))
        sigma, tau = Fr(rnd.randint(0, 16), 16), Fr(rnd.randint(0, 16), 16)
        bad = spec_selfcheck(n1, n2, shift, usable, sigma, tau)
        if bad:
            res.mismatch("spec-equivariance:" + bad, {"n1": C.jfr(n1), "n2": C.jfr(n2), "sigma": str(sigma), "tau": str(tau)},
                         "presentation point differs", "transformed base point", "exact identity of Props/C17 fails for the script's transformation")
        outcome = {}
        pooled = []
        # phase 1: every presentation is CALLED first and the returned arrays are kept as they are (no copy); they are read
        # only after all calls of the pair have been made - an array that aliases a buffer reused by a later call (a result
        # kept by the user while the next presentation is intersected) then shows the later call's numbers
        raw, snap = {}, {}
        for name, calls in usable:
            try:
                raw[name] = [call_curves(route, A, B) for (A, B, back) in calls]
                snap[name] = [np.array(c, copy=True) for c, _ in raw[name]]
            except Exception as exc:  # noqa
                raw[name] = exc
        for name in snap:
            for k, (c, _) in enumerate(raw[name]):
                if c.shape != snap[name][k].shape or not np.array_equal(c, snap[name][k], equal_nan=True):
                    d = dict(case)
                    d["presentation"] = name
                    res.failure("presentation-result-overwritten:" + name.rstrip("12"), "the array returned for presentation %s read %s right after the "
                                "call and %s after the other presentations of the same pair had been intersected" %
                                (name, snap[name][k].tolist(), c.tolist()), d)
                    raw[name][k] = (snap[name][k], raw[name][k][1])
        for name, calls in usable:
            stats["presentations"] += 1
            try:
                if isinstance(raw[name], Exception):
                    raise raw[name]
                pts, flag = [], False
                for idx, (A, B, back) in enumerate(calls):
                    cols, fl = raw[name][idx]
                    flag = None if fl is None else (flag or fl)
                    for k in range(cols.shape[1]):
                        s, t = back(Fr(float(cols[0, k])), Fr(float(cols[1, k])))
                        pts.append((s, t, idx))
                if name == "split1":
                    # the junction point B1(1/2) belongs to both halves: a union counts it once
                    keep = []
                    for p in pts:
                        if p[2] == 1 and abs(p[0] - HALF) <= TOL and any(q[2] == 0 and dist(p, q) <= TOL for q in pts):
                            continue
                        keep.append(p)
                    pts = keep
                outcome[name] = ("ok", [(p[0], p[1]) for p in pts], flag)
                pooled += [(name, p[0], p[1]) for p in pts]
            except Exception as exc:  # noqa
                stats["raised"] += 1
                outcome[name] = ("raised", type(exc).__name__, str(exc)[:100])
        returned = [n for n in outcome if outcome[n][0] == "ok"]
        clusters = cluster(pooled)
        stats["pooled_points"] += len(clusters)
        reps = [c["rep"] for c in clusters]
        verdicts = []
        for i, c in enumerate(clusters):
            others = [r for j, r in enumerate(reps) if j != i]
            ok, why, info = judge_point(n1, n2, size, c["members"], others)
            verdicts.append((ok, why, info))
        claimed = [i for i, v in enumerate(verdicts) if v[0]]
        unclaimed = [i for i, v in enumerate(verdicts) if not v[0]]
        reasons = sorted({verdicts[i][1] for i in unclaimed})
        tainted = any(dist(reps[i], reps[j]) < NEAR for i in claimed for j in unclaimed)
        raised = [n for n in outcome if outcome[n][0] == "raised"]
        status = "no-points" if not clusters else ("tainted" if tainted else ("all-claimed" if not unclaimed else
                                                                              ("mixed" if claimed else "none-claimed")))
        res.count((family, str(case["n1"]), str(case["n2"])), nontrivial=bool(clusters), family=family,
                  degrees="%d,%d" % (len(n1[0]) - 1, len(n2[0]) - 1) if family != "smooth" else "smooth",
                  status=status, claimed=min(len(claimed), 9), route=route)
        for i in unclaimed:
            res.count(("unclaimed", family), nontrivial=False, unclaimed_reason=verdicts[i][1])
        if raised:
            res.count(("raised", family), nontrivial=False, raised="%s:%s" % (status, outcome[raised[0]][1]))
        if len(claimed) >= 2 and family != "fixed":
            res.sample({"family": family, "n1": C.jfr(n1), "n2": C.jfr(n2), "presentations": [n for n, _ in usable],
                        "pooled": [(float(r[0]), float(r[1]), verdicts[i][1]) for i, r in enumerate(reps)][:6], "raised": raised}, cap=3)
        if tainted or not returned:
            res.skip("pair-not-judged:" + ("unclaimed-near-claimed" if tainted else "no-presentation-returned"))
            return
        if claimed:
            stats["judged_pairs"] += 1
            stats["claimed_points"] += len(claimed)

        def rc(name):
            d = dict(case)
            d["presentation"] = name
            return d

        def shown(name):
            o = outcome[name]
            return "%s returned %s" % (name, [(float(a), float(b)) for a, b in o[1]])
        calls_of = dict(usable)
        for name in returned:
            pts = outcome[name][1]
            miss, dup = [], []
            for i in claimed:
                cnt = sum(1 for p in pts if dist(p, reps[i]) <= TOL)
                if cnt == 0:
                    miss.append(i)
                elif cnt > 1:
                    dup.append(i)
            if miss:
                i = miss[0]
                found_by = sorted(clusters[i]["by"])
                degenerate = (any(tangent_box_line_degenerate(A, B) for A, B, _ in calls_of[name])
                              or tangent_line_family(n1, n2, reps[i][0], reps[i][1]))
                at_end = any(min(p, 1 - p) <= SNAP for p in reps[i])
                # a common END point of both curves whose control-point boxes only touch: decided by the exact end-point
                # comparison of tangent boxes, no Newton iteration and no tolerance is involved (not the mechanism of the
                # listed finding `end-point-incidence-missed`)
                both_ends = all(min(p, 1 - p) <= SNAP for p in reps[i])
                bx = (max(min(n1[0]), min(n2[0])), min(max(n1[0]), max(n2[0])), max(min(n1[1]), min(n2[1])), min(max(n1[1]), max(n2[1])))
                touching = bx[0] <= bx[1] and bx[2] <= bx[3] and (bx[0] == bx[1] or bx[2] == bx[3])
                key = ("tangent-bbox:curve-on-axis-parallel-line" if degenerate else
                       ("joint-of-tangent-boxes-missed:" + name if (both_ends and touching) else
                        ("end-point-incidence-missed" if at_end else "presentation-misses:" + name)))
                res.failure(key, "%s pair (degrees %d,%d, %s, %s): claimed crossing (s,t)=(%.12g, %.12g) [sin^2=%.3g, residual/size=%.3g], reported by %s, "
                            "is not reported in presentation %s (%d of %d claimed points missing); %s; n1=%s n2=%s" %
                            (family, len(n1[0]) - 1, len(n2[0]) - 1, route, cfg, float(reps[i][0]), float(reps[i][1]), verdicts[i][2].get("sin2", -1),
                             verdicts[i][2].get("residual/size", -1), found_by, name, len(miss), len(claimed), shown(name),
                             C.jfr(n1), C.jfr(n2)), rc(name))
            if dup:
                i = dup[0]
                res.failure("presentation-duplicates:" + name, "%s pair (degrees %d,%d, %s): claimed crossing (s,t)=(%.12g, %.12g) is reported more than once "
                            "in presentation %s; %s; n1=%s n2=%s" % (family, len(n1[0]) - 1, len(n2[0]) - 1, route, float(reps[i][0]), float(reps[i][1]),
                                                                    name, shown(name), C.jfr(n1), C.jfr(n2)), rc(name))
        if claimed and not unclaimed:
            for name in raised:
                degenerate = any(tangent_box_line_degenerate(A, B) for A, B, _ in calls_of[name])
                res.failure("scale-dependent:no-convergence" if (name.startswith("scale") and outcome[name][1] == "ValueError")
                            else "presentation-raises:%s:%s" % (name, outcome[name][1]),
                            "%s pair (degrees %d,%d, %s): all %d pooled points are claimed (transversal, separated), presentations %s return normally, "
                            "but presentation %s raises %s(%s); n1=%s n2=%s" % (family, len(n1[0]) - 1, len(n2[0]) - 1, route, len(claimed), returned[:4],
                                                                             name, outcome[name][1], outcome[name][2], C.jfr(n1), C.jfr(n2)), rc(name))
            flags = {n: outcome[n][2] for n in returned if outcome[n][2] is not None}
            if len(set(flags.values())) > 1:
                common = max(set(flags.values()), key=lambda v: sum(1 for x in flags.values() if x == v))
                for n, f in flags.items():
                    if f != common:
                        res.failure("presentation-flag:" + n, "%s pair: coincident flag %s in presentation %s, %s elsewhere, all pooled points claimed; n1=%s n2=%s" %
                                    (family, f, n, common, C.jfr(n1), C.jfr(n2)), rc(n))
        elif raised and not clusters:
            res.count(("raise-unjudged", family), nontrivial=False, raise_unjudged=outcome[raised[0]][1])

    # ---------------------------------------------------------------- one triangle pair
    def run_triangle_pair(case):
        t1 = [[Fr(x) for x in r] for r in case["t1"]]
        t2 = [[Fr(x) for x in r] for r in case["t2"]]
        d1, d2 = case["d1"], case["d2"]
        shift = [Fr(x) for x in case["shift"]]
        size = extent(t1, t2)
        stats["tri_pairs"] += 1
        pres = [p for p in tri_presentations(t1, d1, t2, d2, shift) if representable(p[1]) and representable(p[3])]
        # conditioning: edge/edge intersections of every presentation, judged exactly on the base edges
        base_e1, base_e2 = tri_edges(t1, d1), tri_edges(t2, d2)
        reason = None
        npts = 0
        nbase = 0
        for name, a, da, b, db, swapped, lin in pres:
            ea, eb = tri_edges(a, da), tri_edges(b, db)
            per_pair = {}
            for i in range(3):
                for j in range(3):
                    try:
                        cols, flag = GI.all_intersections(C.farr(ea[i]), C.farr(eb[j]))
                    except Exception as exc:  # noqa
                        reason = "edge-call-raised"
                        break
                    if flag:
                        reason = "coincident-edges"
                        break
                    for k in range(np.asarray(cols).shape[1]):
                        s, t = Fr(float(cols[0, k])), Fr(float(cols[1, k]))
                        key = (j, i) if swapped else (i, j)
                        per_pair.setdefault(key, []).append((name, t, s) if swapped else (name, s, t))
                if reason:
                    break
            if reason:
                break
            for (i, j), pts in per_pair.items():
                for c in cluster(pts):
                    npts += 1
                    nbase += name == "base"
                    s, t = c["rep"]
                    if not all(EDGE <= p <= 1 - EDGE for p in (s, t)):
                        reason = "corner-incidence-or-near"
                        break
                    others = [o["rep"] for o in cluster(pts) if o["rep"] != c["rep"]]
                    ok, why, _ = judge_point(base_e1[i], base_e2[j], size, c["members"], others)
                    if not ok:
                        reason = "edge-point:" + why
                        break
                if reason:
                    break
            if reason:
                break
        # no edge crossing at all (disjoint or nested triangles): judged by agreement of the presentations only
        res.count(("tri", str(case["t1"]), str(case["t2"])), nontrivial=reason is None, tri_degrees="%d,%d" % (d1, d2),
                  tri_status=reason or ("judged:%d-edge-crossings" % nbase))
        if reason:
            res.skip("triangle-pair-not-judged:" + reason)
            return
        stats["tri_judged"] += 1
        outs = {}
        for name, a, da, b, db, swapped, lin in pres:
            stats["tri_presentations"] += 1
            try:
                ta = bezier.Triangle(C.farr(a), da, copy=False, verify=False)
                tb = bezier.Triangle(C.farr(b), db, copy=False, verify=False)
                regs = ta.intersect(tb)
                summ = []
                for r in regs:
                    sides = 3 if isinstance(r, bezier.Triangle) else r.num_sides
                    summ.append((sides, Fr(float(r.area)) / (lin * lin)))
                outs[name] = ("ok", sorted(summ))
            except Exception as exc:  # noqa
                outs[name] = ("raised", type(exc).__name__, str(exc)[:100])
        res.sample({"family": "triangles", "degrees": [d1, d2], "t1": C.jfr(t1), "t2": C.jfr(t2),
                    "outcomes": {n: (o[0], [(s, float(a)) for s, a in o[1]] if o[0] == "ok" else o[1]) for n, o in outs.items()}})
        oks = {n: o[1] for n, o in outs.items() if o[0] == "ok"}

        def rc(name):
            d = dict(case)
            d["presentation"] = name
            return d
        what0 = "triangle pair (degrees %d,%d), every edge/edge crossing transversal and away from the corners (%d crossings): " % (d1, d2, nbase)
        nets = "; t1=%s t2=%s" % (C.jfr(t1), C.jfr(t2))
        if not oks:
            return
        atol = TOL * size * size

        def same(x, y, strict):
            if len(x) != len(y) or sorted(s for s, _ in x) != sorted(s for s, _ in y):
                return "regions"
            if abs(sum(a for _, a in x) - sum(a for _, a in y)) > atol:
                return "area"
            if strict and any(sx != sy or abs(ax - ay) > atol for (sx, ax), (sy, ay) in zip(x, y)):
                return "area"
            return None
        names = list(oks)
        consensus = max(names, key=lambda n: sum(1 for m in names if same(oks[n], oks[m], False) is None))
        for n, o in outs.items():
            if o[0] == "raised":
                res.failure("tri-presentation-raises:%s:%s" % (n, o[1]), what0 + "presentation %s raises %s(%s) while %s returns %s" %
                            (n, o[1], o[2], consensus, [(s, float(a)) for s, a in oks[consensus]]) + nets, rc(n))
                continue
            d = same(o[1], oks[consensus], n == "swap" and consensus == "base" or n == "base" and consensus == "swap")
            if d:
                res.failure("tri-presentation-%s:%s" % (d, n), what0 + "presentation %s returns regions (edges, area) %s, presentation %s returns %s" %
                            (n, [(s, float(a)) for s, a in o[1]], consensus, [(s, float(a)) for s, a in oks[consensus]]) + nets, rc(n))

    # ---------------------------------------------------------------- cases
    if rep:
        if rep.get("kind") == "triangles":
            run_triangle_pair(rep)
        else:
            run_curve_pair(rep)
        if os.environ.get("VERIF_RESULT"):
            res.emit()
        want = rep.get("presentation")
        hits = [f for f in res.failures if want is None or f["replay"].get("presentation") == want] or res.failures
        print("replay: " + ("property fails on this input: " + hits[0]["what"][:1500] if hits else "property holds on this input"))
        sys.exit(1 if hits else 0)

    def curve_case(n1, n2, family, idx):
        elev = 1 + idx % 2
        shift = [Fr(rnd.randint(-128, 128), 8), Fr(rnd.randint(-128, 128), 8)]
        return {"kind": "curves", "family": family.split("-")[0], "tag": family, "n1": C.jfr(n1), "n2": C.jfr(n2),
                "shift": [str(x) for x in shift], "elev": elev, "route": "Curve.intersect" if idx % 4 == 3 else "all_intersections"}

    mult = (3.0 if cfg == "speedup" else 0.8) * (12 if thorough else 1) * (1.5 if search else 1)
    plan = [("zoo", None, None), ("lattice", gen_lattice, int(520 * mult)), ("dyadic", gen_dyadic, int(420 * mult)),
            ("smooth", gen_smooth, int(260 * mult)), ("joint", gen_joint, int(60 * mult))]
    idx = 0
    # hand-made pairs: transversal crossings at the split junction, at end points, and the known C03 family
    fixed = [([[0, 2, 4], [0, 4, 0]], [[2, 2], [0, 4]], "fixed-junction"),
             ([[0, 4], [0, 4]], [[0, 4], [4, 0]], "fixed-lines"),
             ([[0, 1, 2], [0, 2, 0]], [[0, 2], [Fr(3, 4), Fr(3, 4)]], "fixed-lean-example"),
             ([[0, 2, 4], [0, 4, 0]], [[0, 4, 4], [0, 0, 4]], "fixed-endpoint"),
             ([[0, 0, 0], [0, 3, 1]], [[0, 1, 2], [1, 2, 1]], "fixed-c03-family")]
    for a, b, tag in fixed:
        f = elev_factor(len(a[0]) - 1, len(b[0]) - 1, 1 + idx % 2)
        run_curve_pair(curve_case([[Fr(x) * f for x in r] for r in a], [[Fr(x) * f for x in r] for r in b], tag, idx))
        idx += 1
    for family, g, count in plan:
        if family == "zoo":
            for a, b, tag in load_zoo():
                run_curve_pair(curve_case(a, b, tag, idx))
                idx += 1
            continue
        t_fam = time.time()
        for _ in range(count):
            if time.time() - t_start > budget * 0.8:
                res.notes.append("time cap reached in family %s" % family)
                break
            a, b = g(rnd, 1 + idx % 2)
            run_curve_pair(curve_case(a, b, family, idx))
            idx += 1
        res.notes.append("family %s: %.1fs" % (family, time.time() - t_fam))

    # ---- triangles
    def valid_triangle(d, unit):
        while True:
            t = gen_triangle(rnd, d, unit, -8, 8)
            try:
                if bezier.Triangle(C.farr(t), d, copy=False).is_valid:
                    return t
            except ValueError:          # "Did not reach a conclusion after max subdivisions": not usable as a valid input
                pass
            res.skip("generator:invalid-triangle-rejected")

    n_tri = int((150 if cfg == "speedup" else 40) * (10 if thorough else 1) * (1.5 if search else 1))
    t_tri = time.time()
    for k in range(n_tri):
        if time.time() - t_start > budget:
            res.notes.append("time cap reached in triangles")
            break
        d1, d2 = rnd.randint(1, 3), rnd.randint(1, 3)
        unit = Fr(1, 64)
        t1 = valid_triangle(d1, unit)
        t2 = valid_triangle(d2, unit)
        shift = [Fr(rnd.randint(-64, 64), 8), Fr(rnd.randint(-64, 64), 8)]
        run_triangle_pair({"kind": "triangles", "t1": C.jfr(t1), "t2": C.jfr(t2), "d1": d1, "d2": d2, "shift": [str(x) for x in shift]})
    # nested pairs decided by the containment probe (no edge meets an edge), the inner control net leaving the outer one's box
    for k in range(40 if thorough else 10):
        inner, di, outer, do = gen_nested_pair(rnd)
        try:
            if not bezier.Triangle(C.farr(inner), di, copy=False).is_valid:
                res.skip("generator:invalid-triangle-rejected")
                continue
        except ValueError:
            res.skip("generator:invalid-triangle-rejected")
            continue
        shift = [Fr(rnd.randint(-64, 64), 8), Fr(rnd.randint(-64, 64), 8)]
        t1, d1, t2, d2 = (inner, di, outer, do) if k % 2 else (outer, do, inner, di)
        run_triangle_pair({"kind": "triangles", "family": "nested-protruding", "t1": C.jfr(t1), "t2": C.jfr(t2), "d1": d1, "d2": d2,
                           "shift": [str(x) for x in shift]})
    res.notes.append("triangles: %.1fs" % (time.time() - t_tri))
    res.notes.append("curve pairs %(pairs)d, judged (>=1 claimed point) %(judged_pairs)d, pooled points %(pooled_points)d, claimed points %(claimed_points)d, "
                     "presentations exercised %(presentations)d (%(calls)d library calls, %(raised)d raised); triangle pairs %(tri_pairs)d, judged %(tri_judged)d, "
                     "triangle presentations %(tri_presentations)d" % stats)
    res.emit()


main()
