"""C18 — curve self-intersections are found and are genuine: oracle (real code vs construction).

impl  : Curve.self_intersections(), hazmat.geometric_intersection.self_intersections (pure Python
        recursion on top of all_intersections), hazmat.curve_helpers.discrete_turning_angle
model : driver `turning_below_pi` (algebraic decision of discrete_turning_angle < pi), `self_intersections` when linked
spec  : planted crossings (nets solved in exact rationals so that B(a) = B(b)), exact residuals,
        hodograph-in-a-half-plane certificate for "no self-intersection"; a self-crossing is a PAIR (s1, s2): nets with several
        branches through one point (B(a) = B(b) = B(c) ...) have crossings that share a parameter, every one certified by the
        exact isolator and required exactly once
"""
import math
import os
import sys
import numpy as np
from fractions import Fraction as Fr
import common as C
import exact as X
import gen as G
import pipeline as PL


def basis(n, j, s):
    from math import comb
    return comb(n, j) * (1 - s) ** (n - j) * s ** j


def planted(rnd, n, a, b):
    """degree-n net with B(a) = B(b) EXACTLY and exactly representable control points: with
    P_j = 16^n (b_j(a) - b_j(b)) (integers for a, b in Z/16) take v_j = P_k w_j (j != k) and
    v_k = -sum_{j != k} P_j w_j, then scale by a power of two"""
    k = rnd.randrange(1, n)
    P = [int((basis(n, j, a) - basis(n, j, b)) * 16 ** n) for j in range(n + 1)]
    if P[k] == 0:
        return None
    shift = abs(P[k]).bit_length()
    rows = []
    for _ in range(2):
        w = [rnd.randint(-16, 16) for _ in range(n + 1)]
        v = [Fr(P[k] * w[j], 2 ** shift) for j in range(n + 1)]
        v[k] = Fr(-sum(P[j] * w[j] for j in range(n + 1) if j != k), 2 ** shift)
        rows.append(v)
    if max(abs(x) for r in rows for x in r) > 2 ** 12:
        return None
    return rows


def d1(row, s):
    return X.hodograph_exact(row, s)


def nested_planted(rnd, n, off=Fr(1, 96)):
    """degree-n net (n >= 5) with two nested self-crossings B(a1) = B(b1), B(a2) = B(b2), a1 < a2 < b2 < b1, one pair
    straddling s = 1/2 and the other inside one half: two linear conditions per coordinate solved exactly for two control
    values, then rounded to binary64 (the crossings of the rounded net are certified by the isolator, not assumed)"""
    # off = 0: dyadic parameters (the inner crossing then sits on a break point of the recursive bisection);
    # otherwise all four parameters are moved off the dyadic grid
    a1, b1 = Fr(rnd.randint(1, 3), 16) + off, Fr(rnd.randint(13, 15), 16) - off
    if off == 0:
        # the inner pair inside [1/4, 1/2] or [1/2, 3/4], one of its parameters being the midpoint of that piece
        mid = rnd.choice([Fr(3, 8), Fr(5, 8)])
        a2, b2 = rnd.choice([(mid - Fr(3, 32), mid), (mid, mid + Fr(3, 32))])
    elif rnd.random() < 0.5:
        a2, b2 = Fr(rnd.randint(9, 10), 16) - off, Fr(rnd.randint(13, 14), 16) + Fr(1, 32) + off
    else:
        a2, b2 = Fr(rnd.randint(2, 3), 16) - Fr(1, 32) - off, Fr(rnd.randint(6, 7), 16) + off
    P = [basis(n, j, a1) - basis(n, j, b1) for j in range(n + 1)]
    Q = [basis(n, j, a2) - basis(n, j, b2) for j in range(n + 1)]
    k, l = rnd.sample(range(1, n), 2)
    det = P[k] * Q[l] - P[l] * Q[k]
    if det == 0:
        return None
    rows = []
    for _ in range(2):
        v = [Fr(rnd.randint(-12, 12)) for _ in range(n + 1)]
        r1 = -sum(P[j] * v[j] for j in range(n + 1) if j not in (k, l))
        r2 = -sum(Q[j] * v[j] for j in range(n + 1) if j not in (k, l))
        v[k] = (r1 * Q[l] - P[l] * r2) / det
        v[l] = (P[k] * r2 - r1 * Q[k]) / det
        rows.append([Fr(float(x)) for x in v])
    if max(abs(x) for r in rows for x in r) > 64:
        return None
    return rows


def solve_exact(A, B):
    """exact Gauss-Jordan elimination over the rationals: the solution x of A x = B (B a column), None when A is singular"""
    m = len(A)
    M = [list(A[i]) + [B[i]] for i in range(m)]
    for c in range(m):
        p = next((r for r in range(c, m) if M[r][c] != 0), None)
        if p is None:
            return None
        M[c], M[p] = M[p], M[c]
        inv = 1 / M[c][c]
        M[c] = [x * inv for x in M[c]]
        for r in range(m):
            if r != c and M[r][c] != 0:
                f = M[r][c]
                M[r] = [x - f * y for x, y in zip(M[r], M[c])]
    return [row[m] for row in M]


def concurrent_planted(rnd, n, pairs, bound=64, representable=False):
    """degree-n net with B(p) = B(q) for every (p, q) of `pairs` (rational parameters): one linear condition per pair and
    coordinate, solved exactly for len(pairs) interior control values, the other control values small integers; the net is then
    rounded to binary64 (the crossings of the ROUNDED net are certified by the isolator, nothing is assumed about them).
    pairs [(a, b), (a, c)] gives three branches through one point - the three self-crossings (a, b), (a, c), (b, c) share their
    parameters pairwise; [(a, b), (a, c), (a, d)] four branches (six crossings); [(a, b), (a + delta, c)] three branches that
    miss a common point by about delta (three crossings whose shared parameters differ by about delta).
    representable=True (dyadic parameters): the solved net is multiplied by its common denominator and by a power of two instead
    of being rounded - an exactly representable net on which the planted identities hold EXACTLY, with the crossing parameters
    on break points k/2^m of the bisection (the halves and the pair left x right then report the same crossing, and the merge of
    those repeats meets the crossings that share a parameter)"""
    m = len(pairs)
    if n - 1 < m:
        return None
    P = [[basis(n, j, p) - basis(n, j, q) for j in range(n + 1)] for p, q in pairs]
    idx = sorted(rnd.sample(range(1, n), m))
    A = [[R[j] for j in idx] for R in P]
    rows = []
    for _ in range(2):
        v = [Fr(rnd.randint(-12, 12)) for _ in range(n + 1)]
        sol = solve_exact(A, [-sum(R[j] * v[j] for j in range(n + 1) if j not in idx) for R in P])
        if sol is None:
            return None
        for k, j in enumerate(idx):
            v[j] = sol[k]
        rows.append(v)
    if representable:
        den = math.lcm(*[x.denominator for r in rows for x in r])
        top = max(abs(x) for r in rows for x in r) * den
        if top == 0 or top >= 2 ** 50:
            return None
        scale = Fr(den, 2 ** max(0, int(top).bit_length() - 6))
        rows = [[x * scale for x in r] for r in rows]
        if not all(C.is_exact_float(x) for r in rows for x in r):
            return None
    if max(abs(x) for r in rows for x in r) > bound:
        return None
    # every planted crossing clearly transversal (exact tangents of the exact net): sin^2 of the crossing angle >= 1/64
    pts = sorted(set(x for pq in pairs for x in pq))
    tan = [(d1(rows[0], x), d1(rows[1], x)) for x in pts]
    for i in range(len(pts)):
        for k in range(i + 1, len(pts)):
            if pts[k] - pts[i] < Fr(1, 8):
                continue          # the two parameters of a pair that is ALMOST shared (nearly concurrent branches): same branch
            cr = tan[i][0] * tan[k][1] - tan[i][1] * tan[k][0]
            if cr * cr * 64 < (tan[i][0] ** 2 + tan[i][1] ** 2) * (tan[k][0] ** 2 + tan[k][1] ** 2):
                return None
    return [[Fr(float(x)) for x in r] for r in rows]


def spread_parameters(rnd, m, lo, hi):
    """m parameters k/101 in (lo, hi) (never within 1e-5 of a break point k/2^j, j <= 8, of the bisection), consecutive gaps
    >= 20/101 > 3/16 so that every pair of them is covered by the isolator's seven sub-curve pairs; None when impossible"""
    klo, khi = math.floor(lo * 101) + 1, math.ceil(hi * 101) - 1
    if khi - klo < 20 * (m - 1):
        return None
    for _ in range(200):
        ps = sorted(rnd.randint(klo, khi) for _ in range(m))
        if all(b - a >= 20 for a, b in zip(ps, ps[1:])):
            return [Fr(k, 101) for k in ps]
    return None


def concurrent_cases(rnd, reps, thorough):
    """the family 'several branches of the curve through one point' (and its neighbourhood): list of (nodes, family)"""
    out = []

    def attempt(n, make, family, want, representable=False):
        got = 0
        for _ in range(60 * want):
            pairs = make()
            nodes = concurrent_planted(rnd, n, pairs, representable=representable) if pairs else None
            if nodes is not None:
                out.append((nodes, family))
                got += 1
                if got >= want:
                    break

    def through_one_point(m, lo, hi):
        def make():
            ps = spread_parameters(rnd, m, lo, hi)
            return ps and [(ps[0], q) for q in ps[1:]]
        return make

    def dyadic_through_one_point():
        den = rnd.choice([4, 8, 16])
        ps = [Fr(k, den) for k in sorted(rnd.sample(range(1, den), 3))]
        return [(ps[0], ps[1]), (ps[0], ps[2])] if min(ps[1] - ps[0], ps[2] - ps[1]) >= Fr(3, 16) else None

    def nearly(shared_first):
        # the parameters shared by two of the three crossings differ by +-2^-k, k around the library's merge threshold 2^-36
        def make():
            ps = spread_parameters(rnd, 3, Fr(0), Fr(1))
            if not ps:
                return None
            delta = rnd.choice([-1, 1]) * Fr(1, 2 ** rnd.choice([26, 30, 34, 36, 38, 42, 48]))
            a, b, c = ps
            return [(a, b), (a + delta, c)] if shared_first else [(a, c), (b, c + delta)]
        return make

    per = max(1, reps // 6) if not thorough else reps // 2
    for n in range(5, 9):
        # three branches through one point, anywhere / all three parameters inside one half of the first bisection (the three
        # crossings are then merged at a deeper level of the recursion)
        attempt(n, through_one_point(3, Fr(0), Fr(1)), "concurrent-3", per)
        attempt(n, through_one_point(3, *rnd.choice([(Fr(0), Fr(1, 2)), (Fr(1, 2), Fr(1))])), "concurrent-3-in-one-half", per)
        attempt(n, dyadic_through_one_point, "concurrent-3-dyadic", per, representable=True)
        attempt(n, nearly(n % 2 == 1), "nearly-concurrent-3", per)
        attempt(n, nearly(n % 2 == 0), "nearly-concurrent-3", per if thorough else 0)
    for n in range(7, 9):
        attempt(n, through_one_point(4, Fr(0), Fr(1)), "concurrent-4", per)
    return out


def certified_self_crossings(nodes):
    """self-crossings (s1 < s2) certified by the exact isolator (harness/isolate.py) on pairs of exact sub-curves
    B|[0, m - 1/32] x B|[m + 1/32, 1], m = 1/8 .. 7/8: every crossing with s2 - s1 >= 3/16 lies in one of the seven pairs.
    Returns (list of dicts {s: (lo, hi), t: (lo, hi), sin2}, complete) where complete says that every pair was decided
    (status certified), i.e. the list is the full set of crossings with s1 <= m - 1/32 < m + 1/32 <= s2 for some m"""
    import isolate as ISO
    found, complete = [], True
    d = Fr(1, 32)
    for k in range(1, 8):
        m = Fr(k, 8)
        a1, b2 = m - d, m + d
        left = [X.specialize_exact(r, Fr(0), a1) for r in nodes]
        right = [X.specialize_exact(r, b2, Fr(1)) for r in nodes]
        iso = ISO.isolate(left, right)
        if iso.status != "certified":
            complete = False
            continue
        for r in iso.roots:
            s = (r.s_lo * a1, r.s_hi * a1)
            t = (b2 + r.t_lo * (1 - b2), b2 + r.t_hi * (1 - b2))
            if any(s[0] <= f["s"][1] and f["s"][0] <= s[1] and t[0] <= f["t"][1] and f["t"][0] <= t[1] for f in found):
                continue
            found.append({"s": s, "t": t, "sin2": r.sin2_lo})
    return found, complete


def zero_edge_pi_turn(nodes):
    """class of finding F-G (a property of the INPUT): a zero first or last edge of the control polygon (counted as
    direction (1,0) by arctan2(0,0) = 0) next to an edge pointing exactly in the -x direction: the discrete turning
    angle is pi at every subdivision level of that end"""
    e = [(nodes[0][j + 1] - nodes[0][j], nodes[1][j + 1] - nodes[1][j]) for j in range(len(nodes[0]) - 1)]
    if len(e) < 2:
        return False
    for zero, nxt in ((e[0], e[1:]), (e[-1], e[-2::-1])):
        if zero == (0, 0):
            nb = next((v for v in nxt if v != (0, 0)), None)
            if nb is not None and nb[1] == 0 and nb[0] < 0:
                return True
    return False


def main():
    bezier = C.import_bezier()
    from bezier.hazmat import geometric_intersection as GI
    from bezier.hazmat import curve_helpers as H
    rnd, seed = C.rng()
    thorough = C.tier() == "thorough"
    cfg = C.config_name()
    res = C.Result("C18")
    rep = C.replay_case()
    have_model = os.path.exists(os.path.join(C.LEAN, "Driver", "Ops", "Geometric.lean"))
    cases = []

    def add(kind, **kw):
        cases.append((kind, kw))

    if rep:
        kw = dict(rep["kw"])
        kw["nodes"] = [[Fr(x) for x in r] for r in kw["nodes"]]
        for k in ("a", "b"):
            if kw.get(k) is not None:
                kw[k] = Fr(kw[k])
        add(rep["kind"], **kw)
    else:
        reps = 6 if not thorough else 40
        # cubic loop with closed-form crossing (the library's own example): s = (3 -+ sqrt 5)/6
        add("closed-form", nodes=[[Fr(0), Fr(-1), Fr(1), Fr(-3, 4)], [Fr(2), Fr(0), Fr(1), Fr(13, 8)]])
        for n in range(3, 9):
            for _ in range(reps):
                a = Fr(rnd.randint(1, 6), 16)
                b = Fr(rnd.randint(9, 15), 16)
                nodes = planted(rnd, n, a, b)
                if nodes is not None:
                    add("planted", nodes=nodes, a=a, b=b)
        # crossings that join END POINTS of the two halves of the recursion: closed curves B(0) = B(1), mirror-symmetric about a
        # coordinate axis (the halves' boxes are then tangent along the axis and only the end-point pairing of
        # tangent_bbox_intersection can see the crossing), their rotations by 45 degrees, and "rho" curves - the same loop
        # traversed over [0, 2] (B(0) = B(1/2)) or reversed (B(1/2) = B(1)); integer nets, the identity holds exactly
        for n in range(3, 8):
            for _ in range(max(2, reps // 2)):
                half = [(Fr(-rnd.randint(1, 6)), Fr(rnd.randint(1, 6))) for _ in range((n - 1) // 2)]
                pts = [(Fr(0), Fr(0))] + half
                if n % 2 == 0:
                    pts.append((Fr(0), Fr(rnd.randint(2, 8))))
                pts += [(-x, y) for x, y in reversed(half)] + [(Fr(0), Fr(0))]
                for variant in ("axis", "swap", "rot45"):
                    q = pts if variant == "axis" else [(y, x) for x, y in pts] if variant == "swap" else [(x - y, x + y) for x, y in pts]
                    closed = [[p[0] for p in q], [p[1] for p in q]]
                    add("planted", nodes=closed, a=Fr(0), b=Fr(1), family="closed-" + variant)
                    rho = [X.specialize_exact(r, Fr(0), Fr(2)) for r in closed]
                    add("planted", nodes=rho, a=Fr(0), b=Fr(1, 2), family="rho-" + variant)
                    add("planted", nodes=[list(reversed(r)) for r in rho], a=Fr(1, 2), b=Fr(1), family="rho-reversed-" + variant)
        # random integer nets: all their self-crossings with a parameter gap >= 3/16 are certified by the exact isolator
        for n in range(3, 9):
            for _ in range(2 * reps):
                add("random-net", nodes=[[Fr(rnd.randint(-12, 12)) for _ in range(n + 1)] for _ in range(2)])
        # corpus of "lens" nets (harness/data/c18_lens.json, found offline by rejection sampling of 2.6 million integer nets
        # on the unmodified tree): control-polygon turning below 2 pi, two NESTED self-crossings, the outer pair straddling
        # s = 1/2 and the inner pair inside one half; every crossing is certified again here by the exact isolator
        import json as _json
        with open(os.path.join(os.path.dirname(os.path.abspath(__file__)), "..", "data", "c18_lens.json")) as fh:
            lens = _json.load(fh)
        for ent in (lens if thorough else rnd.sample(lens, min(len(lens), 12))):
            add("random-net", nodes=[[Fr(int(v)) for v in r] for r in ent["nodes"]], family="lens")
        for n in range(5, 9):
            got = 0
            for _ in range(40 * reps):
                off = Fr(0) if got == 0 else Fr(1, 96)
                nodes = nested_planted(rnd, n, off)
                if nodes is not None:
                    add("random-net", nodes=nodes, family="nested" if off else "nested-dyadic")
                    got += 1
                    if got >= reps:
                        break
        for n in range(2, 9):
            for _ in range(reps):
                # convex-ish arc: hodograph control points in an open half-plane (strictly increasing x)
                xs = [Fr(0)]
                for _ in range(n):
                    xs.append(xs[-1] + Fr(rnd.randint(1, 8), 4))
                ys = [Fr(rnd.randint(-16, 16), 4) for _ in range(n + 1)]
                add("half-plane", nodes=[xs, ys])
                add("turning-angle", nodes=G.int_net(rnd, 2, n + 1, 6))
                add("large-turning", nodes=G.int_net(rnd, 2, n + 1, 8))
        add("nonterminating", nodes=[[Fr(0), Fr(0), Fr(-1)], [Fr(0), Fr(0), Fr(0)]])
        # (generated last: the streams of the families above are unchanged)
        # SEVERAL BRANCHES THROUGH ONE POINT: B(a) = B(b) = B(c) (degree 5..8; four branches from degree 7): the self-crossings
        # (a, b), (a, c), (b, c) are three ordinary transversal crossings that share their parameters pairwise - a crossing is a
        # PAIR of parameters, two crossings with one equal coordinate are different crossings and each must be returned once;
        # also three branches that miss a common point by 2^-26 .. 2^-48 in the parameter (around the merge threshold 2^-36).
        # Rounded nets; every crossing is certified on the rounded net by the exact isolator
        for nodes, family in concurrent_cases(rnd, reps, thorough):
            add("random-net", nodes=nodes, family=family)

    drv = C.Driver()
    midx = []
    for kind, kw in cases:
        if have_model and kind in ("turning-angle", "half-plane", "large-turning", "planted"):
            midx.append(drv.ask("turning_below_pi", kw["nodes"]))
        else:
            midx.append(None)
    sidx = []
    for kind, kw in cases:
        # cost: the exact model above degree 6 is slow
        if have_model and kind == "random-net" and len(kw["nodes"][0]) > 7:
            sidx.append(None)
        elif have_model and kind in ("planted", "closed-form", "half-plane", "nonterminating", "large-turning", "random-net"):
            sidx.append(PL.ask_self_intersections(drv, cfg, [[Fr(float(x)) for x in r] for r in kw["nodes"]], fuel=30))
        else:
            sidx.append(None)
    replies = drv.run() if drv.lines else []

    def run_self(arr):
        old = sys.getrecursionlimit()
        sys.setrecursionlimit(400)
        try:
            return "ok", np.asarray(bezier.Curve(arr, arr.shape[1] - 1).self_intersections())
        except RecursionError:
            return "recursion", None
        except NotImplementedError as exc:
            return "refused", str(exc)[:60]
        except Exception as exc:  # noqa
            return "raised", type(exc).__name__ + ": " + str(exc)[:80]
        finally:
            sys.setrecursionlimit(old)

    pending_mismatch = []
    for (kind, kw), mi, si in zip(cases, midx, sidx):
        nodes = kw["nodes"]
        arr = C.farr(nodes)
        exact_nodes = [[Fr(float(x)) for x in r] for r in nodes]
        n = len(nodes[0]) - 1
        jkw = {k: (C.jfr(v) if k == "nodes" else (str(v) if isinstance(v, Fr) else v)) for k, v in kw.items()}
        rc = {"kind": kind, "kw": jkw}
        res.count((kind, str(jkw)), kind=kind, degree=n)
        res.sample({"kind": kind, "degree": n})
        # the turning-angle decision against the algebraic model
        if mi is not None:
            st, model = replies[mi]
            ang = float(H.discrete_turning_angle(arr))
            below = ang < math.pi
            if st == "ok" and bool(model) != below and abs(ang - math.pi) > 1e-9:
                res.mismatch("discrete_turning_angle<pi", rc, below, bool(model), "angle %.17g" % ang)
        if kind == "turning-angle":
            continue
        st, out = run_self(arr)
        if si is not None:
            impl = ("ok", [(float(out[0, k]), float(out[1, k])) for k in range(out.shape[1])], False) if st == "ok" else \
                ("exc", {"recursion": "RecursionError", "refused": "NotImplementedError"}.get(st, str(out).split(":")[0]))
            mst, mval = replies[si]
            model = (mst, (mval, 0)) if mst == "ok" else (mst, mval)
            # the model runs with fuel 30: the library's recursion limit plays the same role for the non-terminating net
            same, why = PL.same_result(impl, model, tol=Fr(1, 2 ** 26))
            if mst == "err" and mval == "recursion" and kind != "nonterminating":
                # the exact model ran out of its fuel (30 levels): inconclusive, the binary64 run may leave the exact
                # recursion after more levels (degenerate nets: zero edges, collinear control points)
                d = res.dist.setdefault("model_fuel_exhausted", {})
                d[st] = d.get(st, 0) + 1
            elif not same and not (kind == "large-turning" and st != "ok"):
                # decided after the property oracle has seen the case: when the implementation fails the PROPERTY on this input
                # (impl != spec) the exact model - which agrees with the spec - necessarily differs from it as well; that is the
                # failing input itself, not a broken correspondence
                # no clear decision margin: every column that only one side reports has BOTH parameters within 2^-40 of break
                # points k/2^m (m <= 8) of the bisection - there the exact model and the binary64 run take the closed box /
                # chord-parameter decisions on different sides of a tie (the mechanism of finding F-W); the property oracle
                # above still judges the case, only the model comparison is inconclusive
                def at_break(v):
                    v = Fr(v)
                    return any(abs(v * 2 ** m - round(v * 2 ** m)) <= Fr(2 ** m, 2 ** 40) for m in range(0, 9))
                inconclusive = False
                if st == "ok" and mst == "ok":
                    ic = [(Fr(a), Fr(b)) for a, b in impl[1]]
                    mc = [(Fr(c[0]), Fr(c[1])) for c in mval]
                    tol_ = Fr(1, 2 ** 26)
                    only_i = [p for p in ic if not any(abs(p[0] - q[0]) <= tol_ and abs(p[1] - q[1]) <= tol_ for q in mc)]
                    only_m = [q for q in mc if not any(abs(p[0] - q[0]) <= tol_ and abs(p[1] - q[1]) <= tol_ for p in ic)]
                    inconclusive = bool(only_i or only_m) and all(at_break(p[0]) and at_break(p[1]) for p in only_i + only_m)
                if inconclusive:
                    d = res.dist.setdefault("model_comparison_inconclusive_at_break_points", {})
                    d["self_intersections"] = d.get("self_intersections", 0) + 1
                else:
                    pending_mismatch.append((rc, str(impl)[:300], str(replies[si])[:300], why))
        if kind == "nonterminating":
            if st == "recursion":
                res.failure("self-intersections:zero-edge-then-pi-turn", "self_intersections of [(0,0),(0,0),(-1,0)] recurses without bound (RecursionError)", rc)
            continue
        if st == "recursion":
            res.failure("self-intersections:zero-edge-then-pi-turn" if zero_edge_pi_turn(exact_nodes) else "self-intersections:recursion",
                        "self_intersections did not terminate (degree %d)" % n, rc)
            continue
        if st == "raised":
            res.failure("self-intersections:raised", "self_intersections raised %s" % out, rc)
            continue
        if st == "refused":
            res.count(("refused", str(jkw)), nontrivial=False, refused=kind)
            continue
        size = max(abs(x) for r in exact_nodes for x in r) or 1
        cols, nonfinite = C.finite_cols(out)
        if nonfinite:
            res.failure("self:param-not-finite", "self_intersections returns a NaN / infinite parameter: %s" % out.tolist(), rc)
        # every returned pair is genuine and ordered with a clear gap; never the trivial meeting point
        for (s1, s2) in cols:
            if not (0 <= s1 < s2 <= 1) or s2 - s1 < Fr(1, 2 ** 20):
                res.failure("self:pair-not-ordered", "returned pair (%s, %s) is not 0 <= s1 < s2 <= 1 with a clear gap" % (float(s1), float(s2)), rc)
                continue
            resid = max(abs(X.bern(r, s1) - X.bern(r, s2)) for r in exact_nodes)
            if resid > Fr(1, 2 ** 26) * size:
                res.failure("self:not-genuine", "returned pair (%s, %s): |B(s1)-B(s2)| = %.3e (size %.3g)" % (float(s1), float(s2), float(resid), float(size)), rc)
        dup_found = False
        for i in range(len(cols)):
            for j in range(i + 1, len(cols)):
                if abs(cols[i][0] - cols[j][0]) <= Fr(1, 2 ** 30) and abs(cols[i][1] - cols[j][1]) <= Fr(1, 2 ** 30) and not dup_found:
                    dup_found = True
                    near_dyadic = any(abs(v * 256 - round(v * 256)) <= Fr(1, 2 ** 32) for v in cols[i])
                    res.failure("self:duplicated-at-dyadic-break-point" if near_dyadic else "self:duplicated",
                                "the self-crossing (%r, %r) is returned twice%s; returned %s" %
                                (float(cols[i][0]), float(cols[i][1]),
                                 " (a parameter lies on a break point k/2^m of the recursive bisection: the halves and the pair "
                                 "left x right both report it, and nothing merges the lists)" if near_dyadic else "",
                                 [(float(x), float(y)) for x, y in cols]), rc)
        if kind == "half-plane":
            if cols:
                res.failure("self:spurious-on-injective-curve", "curve with hodograph in an open half-plane returned %d self-intersection(s)" % len(cols), rc)
        elif kind == "closed-form":
            want = ((3 - math.sqrt(5)) / 6, (3 + math.sqrt(5)) / 6)
            if len(cols) != 1 or abs(float(cols[0][0]) - want[0]) > 2 ** -40 or abs(float(cols[0][1]) - want[1]) > 2 ** -40:
                res.failure("self:closed-form-wrong", "cubic loop: returned %s, expected %s" % ([(float(a), float(b)) for a, b in cols], want), rc)
        elif kind == "random-net":
            crossings, complete = certified_self_crossings(exact_nodes)
            good = [c for c in crossings if c["sin2"] >= Fr(1, 2 ** 10)]
            res.count(("rn", str(jkw)), nontrivial=False, certified_crossings=len(crossings) if len(crossings) < 4 else "4+",
                      isolator_complete=complete)
            infl = Fr(1, 2 ** 30)
            for c in good:
                hits = [x for x in cols if c["s"][0] - infl <= x[0] <= c["s"][1] + infl and c["t"][0] - infl <= x[1] <= c["t"][1] + infl]
                if len(hits) != 1:
                    def near_dyadic(iv):
                        # the enclosure (inflated by 2^-44) contains k / 2^m with m <= 8: a break point of the bisection
                        lo, hi = iv[0] - Fr(1, 2 ** 44), iv[1] + Fr(1, 2 ** 44)
                        return any(math.ceil(lo * 2 ** m) <= math.floor(hi * 2 ** m) for m in range(0, 9))
                    at_break = not hits and near_dyadic(c["s"]) and near_dyadic(c["t"]) and \
                        max(abs(X.bern(r, Fr(round(c["s"][0] * 256), 256)) - X.bern(r, Fr(round(c["t"][0] * 256), 256))) for r in exact_nodes) != 0
                    # a property of the INPUT: another certified crossing has a parameter within 2^-26 of one of this crossing's
                    # parameters (three or more branches of the curve pass through - nearly - one point)
                    def close(u, v):
                        return u[0] - Fr(1, 2 ** 26) <= v[1] and v[0] - Fr(1, 2 ** 26) <= u[1]
                    partners = [o for o in crossings if o is not c and any(close(u, v) for u in (c["s"], c["t"]) for v in (o["s"], o["t"]))]
                    shared = ""
                    if partners and not at_break:
                        shared = ":shares-a-parameter-with-another-crossing"
                    res.failure("self:crossing-within-rounding-of-break-points-missed" if at_break else
                                ("self:certified-crossing-missed" if not hits else "self:certified-crossing-duplicated") + shared,
                                "degree %d %s: the certified transversal self-crossing near (%.9f, %.9f) (sin^2 >= %.3g) is returned "
                                "%d times%s; returned %s" % (n, "net (family %s)" % kw["family"] if kw.get("family") else "integer net",
                                                           float(c["s"][0]), float(c["t"][0]), float(c["sin2"]), len(hits),
                                                           "; it shares a parameter (up to 2^-26) with the certified crossing(s) %s - several "
                                                           "branches through one point, each pair of branches is a crossing of its own" %
                                                           [(float(o["s"][0]), float(o["t"][0])) for o in partners] if shared else "",
                                                           [(float(x), float(y)) for x, y in cols]), rc)
        elif kind == "planted":
            a, b = kw["a"], kw["b"]
            if not all(C.is_exact_float(x) for r in nodes for x in r):
                res.skip("planted net not exactly representable")
                continue          # the planted identity B(a) = B(b) does not survive rounding of the net
            ta = (d1(nodes[0], a), d1(nodes[1], a))
            tb = (d1(nodes[0], b), d1(nodes[1], b))
            cross = ta[0] * tb[1] - ta[1] * tb[0]
            na, nb = math.sqrt(float(ta[0] ** 2 + ta[1] ** 2)), math.sqrt(float(tb[0] ** 2 + tb[1] ** 2))
            if na == 0 or nb == 0 or abs(float(cross)) / (na * nb) < 2 ** -5:
                res.skip("planted crossing not well conditioned")
                continue
            hits = [c for c in cols if abs(c[0] - a) <= Fr(1, 2 ** 30) and abs(c[1] - b) <= Fr(1, 2 ** 30)]
            if len(hits) != 1:
                res.failure("self:planted-crossing-missed" if not hits else "self:planted-crossing-duplicated",
                            "degree %d curve with a transversal self-crossing planted at (%s, %s): returned %s" %
                            (n, a, b, [(float(x), float(y)) for x, y in cols]), rc)
    for rc_, impl_, model_, why_ in pending_mismatch:
        if any(f.get("replay") == rc_ for f in res.failures):
            d = res.dist.setdefault("model_differs_on_failing_input", {})
            d["self_intersections"] = d.get("self_intersections", 0) + 1
        else:
            res.mismatch("self_intersections", rc_, impl_, model_, why_)
    res.emit()
    if rep:
        bad = bool(res.failures)
        print("replay: " + ("property fails on this input: " + res.failures[0]["what"] if bad else "property holds on this input"))
        sys.exit(1 if bad else 0)


main()
