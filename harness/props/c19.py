"""C19 — implicitization and Bernstein-basis root finding are correct: correspondence + oracle.

impl  : bezier.hazmat.algebraic_intersection (pure Python only; `eval_intersection_polynomial`,
        `to_power_basis`, `all_intersections` reach the `_curve_helpers` / `_geometric_intersection`
        shims, so those sections also run in the `speedup` configuration)
model : Lean driver ops `alg_*` (Model/Algebraic.lean, K := Rat); external numerics (eigvals,
        polyroots, sqrt, matrix_rank) are handed over from the implementation's own run
spec  : exact rationals, independent of both: power-basis Sylvester resultant of x(s)-X, y(s)-Y,
        exact composition / interpolation, exact integral of p^2, polynomials with planted roots

sections (replay key "sec"):
  implicit   evaluate, degree 1..3: vanishes on the curve, proportional to the resultant
  ipoly      eval_intersection_polynomial / to_power_basis, all eight pairs + refused pairs
  p2pb       poly_to_power_basis (operator extraction on unit vectors, errors)
  norm       polynomial_norm, normalize_polynomial
  sigma      _get_sigma_coeffs, bernstein_companion, lu_companion
  roots      bezier_roots on polynomials with planted roots, degree 0..12
  unit       roots_in_unit_interval, _strip_leading_zeros, _check_non_simple
  endtoend   all_intersections / locate_point on lattice pairs with known answers, refusals
  scale      the same polynomial presented at another SCALE (coefficients times an exact power of two, chosen
             around the module's absolute thresholds and far away from them): c * p has the roots of p, so the
             oracles of `unit` (roots_in_unit_interval) and `roots` (bezier_roots) apply unchanged
  locate     locate_point on lattice curves of degree 1..3 (also degree-elevated / collinear nets) times an exact
             power of two, at an exact point B(s0), s0 dyadic: a parameter of that point must come back
"""
import math
import os
import sys
from fractions import Fraction as Fr
from math import comb, factorial

import numpy as np

import common as C
import exact as X

U = C.U
UF = 2.0 ** -53
PAIRS = [(1, 1), (1, 2), (1, 3), (1, 4), (2, 2), (2, 3), (2, 4), (3, 3)]
EXACT_PAIRS = {(1, 1): 1, (1, 2): 1, (1, 3): 3, (1, 4): 3, (2, 2): 3}
# tolerance constants (see the registry `rule`)
C_EVAL12 = 8           # evaluate degree 1, 2: <= 8 roundings per term
C_DET = 32             # LU determinant of the 6x6 matrix: gamma_6 with a safety factor (see det3_allowance)
C_POINT = 4            # evaluate_multi of the point, relative to sum |Bernstein terms|
C_ROOT = 32            # normwise backward error allowance of the eigenvalue solver (units of u)


# ------------------------------------------------------------------------------ exact helpers
def det_fr(m):
    """exact determinant (fraction-free elimination on Fractions)"""
    m = [list(map(Fr, r)) for r in m]
    n = len(m)
    d = Fr(1)
    for c in range(n):
        p = next((r for r in range(c, n) if m[r][c] != 0), None)
        if p is None:
            return Fr(0)
        if p != c:
            m[c], m[p] = m[p], m[c]
            d = -d
        d *= m[c][c]
        for r in range(c + 1, n):
            if m[r][c] != 0:
                f = m[r][c] / m[c][c]
                m[r] = [a - f * b for a, b in zip(m[r], m[c])]
    return d


def sylvester_resultant(p, q):
    """resultant of two polynomials of the same FORMAL degree n (ascending coefficient lists of
    length n+1, leading zeros allowed): determinant of the 2n x 2n Sylvester matrix"""
    n = len(p) - 1
    pd, qd = p[::-1], q[::-1]
    rows = []
    for i in range(n):
        rows.append([Fr(0)] * i + pd + [Fr(0)] * (n - 1 - i))
    for i in range(n):
        rows.append([Fr(0)] * i + qd + [Fr(0)] * (n - 1 - i))
    return det_fr(rows)


def implicit_spec(nodes, x, y):
    """the true resultant Res_s(x(s) - X, y(s) - Y) (power basis, formal degree)"""
    px = X.bern_to_power(nodes[0])
    py = X.bern_to_power(nodes[1])
    px[0] -= x
    py[0] -= y
    return sylvester_resultant(px, py)


def lu_growth(a):
    """|L||U| (rows in the original order) of Gaussian elimination with partial pivoting on `a`"""
    n = a.shape[0]
    u = a.astype(float).copy()
    low = np.eye(n)
    perm = list(range(n))
    for k in range(n):
        piv = k + int(np.argmax(np.abs(u[k:, k])))
        if piv != k:
            u[[k, piv], :] = u[[piv, k], :]
            low[[k, piv], :k] = low[[piv, k], :k]
            perm[k], perm[piv] = perm[piv], perm[k]
        if u[k, k] == 0.0:
            continue
        for i in range(k + 1, n):
            low[i, k] = u[i, k] / u[k, k]
            u[i, k:] -= low[i, k] * u[k, k:]
    g = np.abs(low) @ np.abs(np.triu(u))
    out = np.zeros_like(g)
    for i, pi in enumerate(perm):
        out[pi, :] = g[i, :]
    return out


def sylvester3_float(nodes, x, y):
    da = [float(v - x) * w for v, w in zip(nodes[0], (1, 3, 3, 1))]
    db = [float(v - y) * w for v, w in zip(nodes[1], (1, 3, 3, 1))]
    return np.array([da + [0, 0], db + [0, 0], [0] + da + [0], [0] + db + [0], [0, 0] + da, [0, 0] + db])


W3 = np.array([[1, 3, 3, 1, 0, 0], [0, 1, 3, 3, 1, 0], [0, 0, 1, 3, 3, 1]], dtype=float)


def det3_allowance(nodes, x, y, dx=0.0, dy=0.0):
    """first-order forward error bound of the LAPACK determinant of the 6x6 matrix of `_evaluate3`:
    LU with partial pivoting is backward stable, A + dA = LU with |dA| <= gamma_6 |L||U|, and
    det(A + dA) - det(A) = sum_ij cof_ij dA_ij.  Forming the entries costs 2 more roundings
    (|A| term); an uncertainty (dx, dy) of the point moves entry (i, j) by w_ij dx resp. w_ij dy.
    Returns  C_DET u sum|cof| (|L||U| + 2|A|)  +  sum|cof| w delta."""
    a = sylvester3_float(nodes, x, y)
    cof = np.zeros((6, 6))
    for i in range(6):
        rows = [r for r in range(6) if r != i]
        for j in range(6):
            cols = [c for c in range(6) if c != j]
            cof[i, j] = abs(np.linalg.det(a[np.ix_(rows, cols)]))
    g = lu_growth(a) + 2 * np.abs(a)
    delta = np.zeros((6, 6))
    for k in range(3):
        delta[2 * k, :] = W3[k] * dx
        delta[2 * k + 1, :] = W3[k] * dy
    return C_DET * UF * float((cof * g).sum()) + float((cof * delta).sum())


def evaluate_scale(nodes, x, y, dx=0.0, dy=0.0):
    """sum of absolute terms of `evaluate` for degree 1, 2 (floats); dx, dy widen |x_i - x| by
    the uncertainty of the point"""
    a = [abs(float(v - x)) + dx for v in nodes[0]]
    b = [abs(float(v - y)) + dy for v in nodes[1]]
    n = len(a) - 1
    if n == 1:
        return a[0] * b[1] + a[1] * b[0]
    a0, a1, a2 = a[0], 2 * a[1], a[2]
    b0, b1, b2 = b[0], 2 * b[1], b[2]
    sub1 = a1 * b2 + a2 * b1
    sub2 = a0 * b2 + a2 * b0
    return a0 * (b1 * sub1 + b2 * sub2) + b0 * (a1 * sub1 + a2 * sub2)


def evaluate_allowance(nodes, x, y, dx=0.0, dy=0.0):
    """allowed |impl - exact| of `evaluate` at a point known up to (dx, dy)"""
    if len(nodes[0]) == 4:
        return det3_allowance(nodes, x, y, dx, dy)
    base = evaluate_scale(nodes, x, y)
    wide = evaluate_scale(nodes, x, y, dx, dy) if (dx or dy) else base
    return C_EVAL12 * UF * wide + (wide - base)


def interp_exact(ts, vals):
    """ascending coefficients of the polynomial of degree < len(ts) through the points"""
    n = len(ts)
    out = [Fr(0)] * n
    for i in range(n):
        num = [Fr(1)]
        den = Fr(1)
        for j in range(n):
            if j != i:
                num = X.poly_mul(num, [-ts[j], Fr(1)])
                den *= ts[i] - ts[j]
        for k in range(n):
            out[k] += vals[i] * num[k] / den
    return out


def power_to_bern(a, n):
    """Bernstein coefficients (degree n) of the power-basis polynomial a (len <= n+1)"""
    a = list(a) + [Fr(0)] * (n + 1 - len(a))
    return [sum(Fr(comb(j, k), comb(n, k)) * a[k] for k in range(j + 1)) for j in range(n + 1)]


def cmul(z, w):
    return (z[0] * w[0] - z[1] * w[1], z[0] * w[1] + z[1] * w[0])


def bern_complex_exact(b, z):
    """exact value (re, im) of the Bernstein polynomial with rational coefficients b at the
    complex rational z = (re, im): de Casteljau"""
    one_minus = (1 - z[0], -z[1])
    cur = [(c, Fr(0)) for c in b]
    while len(cur) > 1:
        nxt = []
        for i in range(len(cur) - 1):
            p = cmul(one_minus, cur[i])
            r = cmul(z, cur[i + 1])
            nxt.append((p[0] + r[0], p[1] + r[1]))
        cur = nxt
    return cur[0]


def fabs2(z):
    return math.hypot(float(z[0]), float(z[1]))


def scale_ints(vals, limit=2 ** 52):
    """multiply rationals by the lcm of their denominators; None if an entry leaves the exact range"""
    den = 1
    for v in vals:
        den = den * v.denominator // math.gcd(den, v.denominator)
    out = [v * den for v in vals]
    if any(abs(v) > limit for v in out):
        return None
    return out


def rank_fr(m):
    m = [list(map(Fr, r)) for r in m]
    rank = 0
    rows, cols = len(m), len(m[0]) if m else 0
    for c in range(cols):
        p = next((r for r in range(rank, rows) if m[r][c] != 0), None)
        if p is None:
            continue
        m[rank], m[p] = m[p], m[rank]
        for r in range(rank + 1, rows):
            if m[r][c] != 0:
                f = m[r][c] / m[rank][c]
                m[r] = [a - f * b for a, b in zip(m[r], m[rank])]
        rank += 1
    return rank


# ------------------------------------------------------------------------------ the run
class Guard:
    """a non-finite value coming out of the implementation is a failure of the property on that
    input, not a crash of the script"""

    def __init__(self, res, sec, cs):
        self.res, self.sec, self.cs = res, sec, cs

    def __enter__(self):
        return self

    def __exit__(self, et, ev, tb):
        if et is not None and issubclass(et, (OverflowError, ValueError)) and "integer ratio" in str(ev):
            self.res.failure("non-finite:%s" % self.sec, "the implementation produced a non-finite value (%s)" % ev, self.cs)
            return True
        return False


class Run:
    def guard(self, sec, cs):
        return Guard(self.res, sec, cs)

    def __init__(self):
        self.bezier = C.import_bezier()
        from bezier.hazmat import algebraic_intersection as A
        self.A = A
        self.cfg = C.config_name()
        self.pure = self.cfg == "pure"
        self.rnd, self.seed = C.rng()
        self.thorough = C.tier() == "thorough"
        self.search = bool(os.environ.get("VERIF_SEARCH"))
        self.res = C.Result("C19")
        g = C.generated
        self.thr = g("py_curve_vs_threshold" if self.pure else "f90_curve_vs_threshold", 55)
        nm = "py_algebraic_intersection_"
        self.const = {k: g(nm + k) for k in ("L2_THRESHOLD", "COEFFICIENT_THRESHOLD", "NON_SIMPLE_THRESHOLD",
                                             "SIGMA_THRESHOLD", "UNIT_INTERVAL_WIGGLE_START",
                                             "UNIT_INTERVAL_WIGGLE_END", "IMAGINARY_WIGGLE", "ZERO_THRESHOLD")}
        red = g("py_curve_helpers_REDUCE_THRESHOLD")
        for k, v in self.const.items():
            live = Fr(float(getattr(A, "_" + k)))
            if v is None or v != live:
                self.res.notes.append("constant %s: generated %s, live module %s" % (k, v, live))
                self.const[k] = live
        self.cheb = {7: [Fr(float(v)) for v in A._CHEB7], 9: [Fr(float(v)) for v in A._CHEB9],
                     10: [Fr(float(v)) for v in A._CHEB10]}
        c = self.const
        self.par = [self.thr, self.cheb[7], self.cheb[9], self.cheb[10], Fr(red) ** 2, c["L2_THRESHOLD"] ** 2,
                    c["COEFFICIENT_THRESHOLD"], c["NON_SIMPLE_THRESHOLD"], c["SIGMA_THRESHOLD"] ** 2,
                    c["UNIT_INTERVAL_WIGGLE_START"], c["UNIT_INTERVAL_WIGGLE_END"], c["IMAGINARY_WIGGLE"],
                    c["ZERO_THRESHOLD"]]
        self.mult = 16 if self.thorough else (8 if self.search else 4)
        self.ratios = {}

    def ratio(self, what, err, tol):
        """largest observed error / allowance per check (reported in the evidence notes)"""
        r = float(err) / float(tol) if tol else (0.0 if not err else float('inf'))
        if r > self.ratios.get(what, 0.0):
            self.ratios[what] = r
        return err > tol

    # ---------------------------------------------------------------- generators
    def lattice_net(self, n, bound=4):
        r = self.rnd
        kind = r.random()
        if kind < 0.12 and n >= 2:
            # degree-elevated lower-degree net scaled to integers
            low = [[Fr(r.randint(-bound, bound)) for _ in range(n)] for _ in range(2)]
            return [[v * n for v in X.elevate_exact(row)] for row in low]
        if kind < 0.2:
            a, b = r.randint(-2, 2), r.randint(-2, 2)
            base = [Fr(r.randint(-bound, bound)) for _ in range(n + 1)]
            return [base, [a * v + b for v in base]]            # on a line
        return [[Fr(r.randint(-bound, bound)) for _ in range(n + 1)] for _ in range(2)]

    def float_net(self, n, exp=0):
        r = self.rnd
        return [[Fr(r.uniform(-1, 1) * 2.0 ** exp) for _ in range(n + 1)] for _ in range(2)]

    # ---------------------------------------------------------------- section: implicit
    def sec_implicit(self, cases=None):
        res, A, rnd = self.res, self.A, self.rnd
        if cases is None:
            cases = []
            for n in (1, 2, 3):
                for _ in range(24 * self.mult):
                    cases.append({"sec": "implicit", "kind": "lattice", "nodes": C.jfr(self.lattice_net(n))})
                for _ in range(10 * self.mult):
                    cases.append({"sec": "implicit", "kind": "float",
                                  "nodes": C.jfr(self.float_net(n, rnd.choice([-8, 0, 0, 8]))),
                                  "pts": C.jfr([[Fr(rnd.uniform(-2, 2)), Fr(rnd.uniform(-2, 2))] for _ in range(4)])})
            for nn in (1, 5, 6):
                cases.append({"sec": "implicit", "kind": "refuse",
                              "nodes": C.jfr([[Fr(rnd.randint(-3, 3)) for _ in range(nn)] for _ in range(2)])})
        s_vals = [Fr(0), Fr(1, 4), Fr(1, 2), Fr(3, 4), Fr(1), Fr(1, 8), Fr(-1, 2), Fr(3, 2)]
        grid = [(Fr(a), Fr(b)) for a in range(-2, 3) for b in range(-2, 3)]
        drv = C.Driver()
        plan = []
        for cs in cases:
            nodes = [[_fr(v) for v in r] for r in cs["nodes"]]
            n = len(nodes[0]) - 1
            if cs["kind"] == "refuse":
                pts = [(Fr(0), Fr(0))]
            elif cs["kind"] == "lattice":
                on = [(X.bern(nodes[0], s), X.bern(nodes[1], s)) for s in s_vals]
                pts = on + grid
            else:
                on = []
                for s in s_vals[:5]:
                    on.append((Fr(float(X.bern(nodes[0], s))), Fr(float(X.bern(nodes[1], s)))))
                pts = on + [(_fr(p[0]), _fr(p[1])) for p in cs["pts"]]
            idx = [drv.ask("alg_evaluate", nodes, x, y) for x, y in pts]
            plan.append((cs, nodes, n, pts, idx))
        replies = drv.run()
        for cs, nodes, n, pts, idx in plan:
            with self.guard("implicit", cs):
                arr = C.farr(nodes)
                kind = cs["kind"]
                res.count(("implicit", cs["nodes"], kind), nontrivial=(n >= 1), sec="implicit", kind=kind, degree=n)
                if kind == "refuse":
                    st, val = replies[idx[0]]
                    want = "valueError" if n == 0 else "unsupportedDegree"
                    try:
                        A.evaluate(arr, 0.0, 0.0)
                        got = "ok"
                    except ValueError:
                        got = "valueError"
                    except self.bezier.hazmat.helpers.UnsupportedDegree:
                        got = "unsupportedDegree"
                    if st != "err" or val != want:
                        res.mismatch("model-vs-spec:evaluate-refusal", cs, got, "%s %s" % (st, val))
                    if got != want:
                        res.failure("implicit-refusal-missing:deg%d" % n, "evaluate with %d nodes: %s, expected %s" %
                                    (n + 1, got, want), cs)
                    continue
                res.sample({"sec": "implicit", "kind": kind, "degree": n, "points": len(pts)})
                const = None          # model = const * resultant on this net
                spec_all_zero = True
                for k, ((x, y), ri) in enumerate(zip(pts, idx)):
                    st, mval = replies[ri]
                    got = Fr(float(A.evaluate(arr, float(x), float(y))))
                    ctol = evaluate_allowance(nodes, x, y)
                    exact_regime = kind == "lattice" and n <= 2 and k >= len(s_vals)
                    if exact_regime:
                        if got != mval:
                            res.mismatch("evaluate", {"nodes": cs["nodes"], "x": str(x), "y": str(y)}, str(got), str(mval),
                                         "E regime (integer net, integer point): bit-exact")
                    elif self.ratio('evaluate:deg%d' % n, abs(got - mval), ctol):
                        res.mismatch("evaluate", {"nodes": cs["nodes"], "x": str(x), "y": str(y)}, str(got), str(mval),
                                     "T regime: |impl-model| > allowance %.3e" % ctol)
                    if kind != "lattice":
                        continue
                    spec = implicit_spec(nodes, x, y)
                    on_curve = k < len(s_vals)
                    if on_curve:
                        if spec != 0:
                            raise SystemExit("spec broken: resultant does not vanish on the curve")
                        if mval != 0:
                            res.mismatch("model-vs-spec:implicit-vanishes", cs, str(mval), "0")
                        if self.ratio('implicit-vanishes:deg%d' % n, abs(got), ctol):
                            res.failure("implicit-nonzero:deg%d" % n,
                                        "evaluate(degree %d net %s) at its own point s=%s: %.3e, allowed %.3e" %
                                        (n, cs["nodes"], s_vals[k], float(got), ctol),
                                        dict(cs, focus=[str(x), str(y)]))
                        continue
                    if spec != 0:
                        spec_all_zero = False
                        if const is None:
                            const = mval / spec
                            if const == 0:
                                res.mismatch("model-vs-spec:resultant-constant-zero", cs, str(mval), str(spec))
                    want = (const or Fr(0)) * spec
                    if mval != want:
                        res.mismatch("model-vs-spec:resultant", {"nodes": cs["nodes"], "x": str(x), "y": str(y)},
                                     str(mval), str(want), "implicit function is not const * resultant")
                    if self.ratio('implicit-resultant:deg%d' % n, abs(got - want), ctol):
                        res.failure("implicit-not-resultant:deg%d" % n,
                                    "evaluate(degree %d net %s) at (%s,%s) = %.17g, const*resultant = %.17g (const %s)" %
                                    (n, cs["nodes"], x, y, float(got), float(want), const),
                                    dict(cs, focus=[str(x), str(y)]))
                if kind == "lattice":
                    res.count(("implicit-const", n, str(const)), nontrivial=False,
                              resultant_constant="deg%d:%s" % (n, "degenerate" if spec_all_zero else const))

    # ---------------------------------------------------------------- section: ipoly
    def point_scale(self, nodes2, t):
        return [float(X.bern_abs(r, t)) for r in nodes2]

    def sec_ipoly(self, cases=None):
        res, A, rnd = self.res, self.A, self.rnd
        if cases is None:
            cases = []
            for (d1, d2) in PAIRS:
                for _ in range(8 * self.mult):
                    cases.append({"sec": "ipoly", "kind": "lattice", "n1": C.jfr(self.lattice_net(d1, 3)),
                                  "n2": C.jfr(self.lattice_net(d2, 3))})
                for _ in range(4 * self.mult):
                    cases.append({"sec": "ipoly", "kind": "float", "n1": C.jfr(self.float_net(d1)),
                                  "n2": C.jfr(self.float_net(d2))})
            for (a, b) in [(1, 5), (2, 1), (3, 1), (3, 2), (4, 1), (3, 4), (4, 4), (5, 1), (0, 1), (1, 0), (4, 2), (2, 5)]:
                cases.append({"sec": "ipoly", "kind": "refuse", "n1": C.jfr(self.lattice_net(a, 3)),
                              "n2": C.jfr(self.lattice_net(b, 3))})
        drv = C.Driver()
        plan = []
        for cs in cases:
            n1 = [[_fr(v) for v in r] for r in cs["n1"]]
            n2 = [[_fr(v) for v in r] for r in cs["n2"]]
            d1, d2 = len(n1[0]) - 1, len(n2[0]) - 1
            ts = [Fr(0), Fr(1), Fr(1, 2), Fr(rnd.randint(0, 64), 64), Fr(float(rnd.uniform(-0.5, 1.5)))]
            if "ts" in cs:
                ts = [_fr(t) for t in cs["ts"]]
            cs["ts"] = C.jfr(ts)
            i1 = drv.ask("alg_topower", self.par, n1, n2)
            i2 = drv.ask("alg_evalipoly", self.thr, n1, n2, ts) if cs["kind"] != "refuse" else None
            plan.append((cs, n1, n2, d1, d2, ts, i1, i2))
        replies = drv.run()
        for cs, n1, n2, d1, d2, ts, i1, i2 in plan:
            with self.guard("ipoly", cs):
                a1, a2 = C.farr(n1), C.farr(n2)
                pair = "%d-%d" % (d1, d2)
                kind = cs["kind"]
                res.count(("ipoly", cs["n1"], cs["n2"]), sec="ipoly", kind=kind, pair=pair)
                st, model = replies[i1]
                if kind == "refuse":
                    try:
                        A.to_power_basis(a1, a2)
                        got = "ok"
                    except NotImplementedError:
                        got = "notImplemented"
                    if (st, model) != ("err", "notImplemented"):
                        res.mismatch("model-vs-spec:to_power_basis-refusal", cs, got, "%s %s" % (st, model))
                    if got != "notImplemented":
                        res.failure("power-basis-refusal-missing:%s" % pair,
                                    "to_power_basis on the unsupported pair %s did not raise NotImplementedError" % pair, cs)
                    continue
                if st != "ok":
                    res.mismatch("to_power_basis", cs, "?", "%s %s" % (st, model), "model refuses a supported pair")
                    continue
                deg = d1 * d2
                res.sample({"sec": "ipoly", "pair": pair, "kind": kind})
                # --- eval_intersection_polynomial at a few parameters: impl vs model (T), model vs spec
                st2, mvals = replies[i2]
                for t, mv in zip(ts, mvals):
                    got = Fr(float(A.eval_intersection_polynomial(a1, a2, float(t))))
                    ps = self.point_scale(n2, t)
                    x, y = X.bern(n2[0], t), X.bern(n2[1], t)
                    # the point itself carries an error of C_POINT*d2*u*sum|Bernstein terms|
                    ctol = evaluate_allowance(n1, x, y, C_POINT * UF * ps[0] * d2, C_POINT * UF * ps[1] * d2)
                    if self.ratio('eval_ipoly:%s' % pair, abs(got - mv), ctol):
                        res.mismatch("eval_intersection_polynomial", dict(cs, t=str(t)), str(got), str(mv), "T regime")
                    if kind == "lattice":
                        spec = implicit_spec(n1, x, y)
                        if (spec == 0) != (mv == 0):
                            res.mismatch("model-vs-spec:ipoly-zero", dict(cs, t=str(t)), str(mv), str(spec))
                # --- to_power_basis
                try:
                    out = np.asarray(A.to_power_basis(a1, a2))
                except Exception as exc:  # noqa
                    res.failure("power-basis-raises:%s" % pair, "to_power_basis raised %r" % (exc,), cs)
                    continue
                if out.shape != (deg + 1,):
                    res.failure("power-basis-wrong:%s" % pair, "shape %r, expected (%d,)" % (out.shape, deg + 1), cs)
                    continue
                got = [Fr(float(v)) for v in out]
                nodes_t, minv = self.scheme(d1, d2)
                svals = []
                for t in nodes_t:
                    ps = self.point_scale(n2, t)
                    x, y = X.bern(n2[0], t), X.bern(n2[1], t)
                    svals.append(evaluate_allowance(n1, x, y, C_POINT * UF * ps[0] * d2, C_POINT * UF * ps[1] * d2))
                fit_extra = 0.0
                if (d1, d2) not in EXACT_PAIRS:
                    fit_extra = self.fit_allowance(d1, d2, [float(m) for m in model])
                tols = [sum(abs(minv[i][j]) * svals[j] for j in range(deg + 1)) + fit_extra +
                        8 * UF * abs(float(model[i])) for i in range(deg + 1)]
                exact_regime = kind == "lattice" and (d1, d2) in EXACT_PAIRS
                bad_corr = [i for i in range(deg + 1) if (got[i] != model[i] if exact_regime else
                                                          self.ratio('to_power_basis:%s' % pair, abs(got[i] - model[i]), tols[i]))]
                if bad_corr:
                    i = bad_corr[0]
                    res.mismatch("to_power_basis", cs, str(got[i]), str(model[i]),
                                 "%s regime, coefficient %d, allowed %.3e" % ("E" if exact_regime else "T", i, tols[i]))
                if kind == "lattice":
                    # spec: const * (resultant implicit function composed with the second curve)
                    tt = [Fr(k) for k in range(deg + 1)]
                    gs = interp_exact(tt, [implicit_spec(n1, X.bern(n2[0], t), X.bern(n2[1], t)) for t in tt])
                    piv = max(range(deg + 1), key=lambda k: abs(gs[k]))
                    if gs[piv] == 0:
                        if any(m != 0 for m in model):
                            res.mismatch("model-vs-spec:power-basis", cs, C.jfr(model), "0")
                        want = [Fr(0)] * (deg + 1)
                    else:
                        kappa = model[piv] / gs[piv]
                        want = [kappa * g for g in gs]
                        if kappa == 0 or want != model:
                            res.mismatch("model-vs-spec:power-basis", cs, C.jfr(model), C.jfr(want),
                                         "model's polynomial is not a non-zero multiple of f1 o B2")
                    bad = [i for i in range(deg + 1) if self.ratio('power-basis-oracle:%s' % pair, abs(got[i] - want[i]), tols[i])]
                    if bad:
                        i = bad[0]
                        res.failure("power-basis-wrong:%s" % pair,
                                    "to_power_basis pair %s coefficient %d: %.17g, const * (f1 o B2) = %.17g, allowed %.3e" %
                                    (pair, i, float(got[i]), float(want[i]), tols[i]), cs)

    _scheme_cache = {}

    def scheme(self, d1, d2):
        """(sample parameters, c * inverse Vandermonde as floats) of the helper for the pair"""
        key = (d1, d2)
        if key in self._scheme_cache:
            return self._scheme_cache[key]
        deg = d1 * d2
        if key in EXACT_PAIRS:
            nodes = {1: [Fr(0), Fr(1)], 2: [Fr(0), Fr(1, 2), Fr(1)], 3: [Fr(0), Fr(1, 4), Fr(3, 4), Fr(1)],
                     4: [Fr(0), Fr(1, 4), Fr(1, 2), Fr(3, 4), Fr(1)]}[deg]
            c = EXACT_PAIRS[key]
        else:
            nodes = self.cheb[deg + 1]
            c = 1
        st, inv = C.driver_call("alg_invvander", nodes)
        minv = [[c * float(v) for v in r] for r in inv]
        self._scheme_cache[key] = (nodes, minv)
        return nodes, minv

    def fit_allowance(self, d1, d2, model):
        """`polyfit` solves the column-scaled least-squares problem by SVD: backward stable, so
        the coefficient error is at most ~ cond(V_scaled) * u * |coefficients| (normwise)"""
        deg = d1 * d2
        nodes = np.array([float(t) for t in self.cheb[deg + 1]])
        v = np.vander(nodes, deg + 1, increasing=True)
        scl = np.sqrt((v * v).sum(axis=0))
        cond = np.linalg.cond(v / scl)
        return 2 * cond * UF * max(abs(m) for m in model) if model else 0.0

    # ---------------------------------------------------------------- section: p2pb
    def sec_p2pb(self, cases=None):
        res, A, rnd = self.res, self.A, self.rnd
        if cases is None:
            cases = []
            for n in range(0, 4):
                for i in range(n + 1):
                    cases.append({"sec": "p2pb", "coeffs": C.jfr([Fr(int(i == j)) for j in range(n + 1)])})
                for _ in range(6 * self.mult):
                    cases.append({"sec": "p2pb", "coeffs": C.jfr([Fr(rnd.randint(-64, 64)) for _ in range(n + 1)])})
                    cases.append({"sec": "p2pb", "coeffs": C.jfr([Fr(rnd.uniform(-1, 1)) for _ in range(n + 1)])})
            for n in (4, 5, 7):
                cases.append({"sec": "p2pb", "coeffs": C.jfr([Fr(rnd.randint(-4, 4)) for _ in range(n + 1)])})
        drv = C.Driver()
        for cs in cases:
            drv.ask("alg_polytopower", [_fr(v) for v in cs["coeffs"]])
        replies = drv.run()
        for cs, (st, model) in zip(cases, replies):
            with self.guard("p2pb", cs):
                c = [_fr(v) for v in cs["coeffs"]]
                n = len(c) - 1
                res.count(("p2pb", cs["coeffs"]), sec="p2pb", degree=min(n, 5))
                try:
                    out = [Fr(float(v)) for v in A.poly_to_power_basis(np.asfortranarray([float(v) for v in c]))]
                    got = "ok"
                except self.bezier.hazmat.helpers.UnsupportedDegree:
                    got, out = "unsupportedDegree", None
                if n > 3:
                    if (st, model) != ("err", "unsupportedDegree"):
                        res.mismatch("model-vs-spec:p2pb-refusal", cs, got, "%s %s" % (st, model))
                    if got != "unsupportedDegree":
                        res.failure("basis-change-refusal-missing", "poly_to_power_basis degree %d did not raise" % n, cs)
                    continue
                spec = X.bern_to_power(c)
                if st != "ok" or model != spec:
                    res.mismatch("model-vs-spec:p2pb", cs, C.jfr(model), C.jfr(spec))
                ints = all(v.denominator == 1 for v in c)
                for i in range(n + 1):
                    scale = sum(abs(comb(n, j) * comb(n - j, i - j) * c[j]) for j in range(i + 1))
                    tol = 0 if ints else 8 * U * scale
                    if got != "ok" or abs(out[i] - model[i]) > tol:
                        res.mismatch("poly_to_power_basis", cs, C.jfr(out), C.jfr(model), "E" if ints else "T")
                        if got != "ok" or abs(out[i] - spec[i]) > tol:
                            res.failure("basis-change-wrong", "poly_to_power_basis(%s) = %s, exact %s" %
                                        (cs["coeffs"], C.jfr(out), C.jfr(spec)), cs)
                        break

    # ---------------------------------------------------------------- section: norm
    def sec_norm(self, cases=None):
        res, A, rnd = self.res, self.A, self.rnd
        thr = self.const["L2_THRESHOLD"]
        if cases is None:
            cases = []
            for n in range(0, 13):
                for _ in range(3 * self.mult):
                    cases.append({"sec": "norm", "coeffs": C.jfr([Fr(rnd.randint(-16, 16)) for _ in range(n + 1)])})
                    cases.append({"sec": "norm", "coeffs": C.jfr([Fr(rnd.uniform(-1, 1) * 2.0 ** rnd.choice([-30, 0, 30]))
                                                                  for _ in range(n + 1)])})
                # around the normalisation threshold: scaled so that the norm is thr * {1/2, 1-, 1+, 2}
                base = [Fr(rnd.randint(-8, 8)) for _ in range(n + 1)]
                if any(base):
                    nrm = math.sqrt(float(X.poly_int01(X.poly_mul(base, base))))
                    for f in (0.5, 0.999, 1.001, 2.0):
                        cases.append({"sec": "norm", "coeffs": C.jfr([Fr(float(v) * float(thr) * f / nrm) for v in base])})
                cases.append({"sec": "norm", "coeffs": C.jfr([Fr(0)] * (n + 1))})
        drv = C.Driver()
        plan = []
        for cs in cases:
            c = [_fr(v) for v in cs["coeffs"]]
            arr = np.asfortranarray([float(v) for v in c])
            l2 = float(A.polynomial_norm(arr))
            i1 = drv.ask("alg_normsq", c)
            i2 = drv.ask("alg_normalize", thr ** 2, Fr(l2) if (l2 != 0 and math.isfinite(l2)) else Fr(1), c)
            plan.append((cs, c, arr, l2, i1, i2))
        replies = drv.run()
        for cs, c, arr, l2, i1, i2 in plan:
            with self.guard("norm", cs):
                n = len(c) - 1
                res.count(("norm", cs["coeffs"]), nontrivial=any(c), sec="norm", degree=n)
                msq = replies[i1][1]
                spec = X.poly_int01(X.poly_mul(c, c))
                if msq != spec:
                    res.mismatch("model-vs-spec:norm", cs, str(msq), str(spec))
                scale = sum(abs(c[i] * c[j]) / (i + j + 1) for i in range(n + 1) for j in range(n + 1))
                got_sq = Fr(l2) * Fr(l2)
                tol = ((n + 1) * (n + 2) + 8) * U * scale
                if self.ratio('norm', abs(got_sq - msq), tol):
                    res.mismatch("polynomial_norm", cs, str(got_sq), str(msq), "T: squares, ((n+1)(n+2)+8) u sum|terms|")
                    res.failure("norm-wrong", "polynomial_norm(%s)^2 = %.17g, exact integral %.17g, allowed %.3e" %
                                (cs["coeffs"], float(got_sq), float(spec), float(tol)), cs)
                # normalize_polynomial
                out = A.normalize_polynomial(arr.copy())
                outf = [Fr(float(v)) for v in out]
                model = replies[i2][1]
                margin_clear = abs(spec - thr ** 2) > Fr(1, 10 ** 9) * thr ** 2
                impl_zero = (l2 < float(thr))
                if margin_clear and impl_zero != (spec < thr ** 2):
                    res.failure("normalize-wrong", "normalize_polynomial(%s): norm %.17g vs threshold %.17g decided %s" %
                                (cs["coeffs"], l2, float(thr), "zero" if impl_zero else "scale"), cs)
                if impl_zero == (spec < thr ** 2):
                    for a, b in zip(outf, model):
                        if abs(a - b) > 2 * U * abs(b):
                            res.mismatch("normalize_polynomial", cs, C.jfr(outf), C.jfr(model), "T: one division")
                            break
                    if not impl_zero and spec != 0:
                        # the result has unit norm (up to the norm's own accuracy)
                        nsq = X.poly_int01(X.poly_mul(outf, outf))
                        if abs(nsq - 1) > 4 * tol / spec + 16 * (n + 1) * U:
                            res.failure("normalize-wrong", "normalize_polynomial(%s): squared norm of the result %.17g" %
                                        (cs["coeffs"], float(nsq)), cs)
                    if impl_zero and any(v != 0 for v in outf):
                        res.failure("normalize-wrong", "below threshold but result not zero", cs)

    # ---------------------------------------------------------------- section: sigma
    def sec_sigma(self, cases=None):
        res, A, rnd = self.res, self.A, self.rnd
        if cases is None:
            cases = []
            for n in range(0, 13):
                for _ in range(4 * self.mult):
                    c = [Fr(rnd.randint(-9, 9)) for _ in range(n + 1)]
                    z = rnd.choice([0, 0, 1, 2, n + 1])
                    for k in range(min(z, n + 1)):
                        c[n - k] = Fr(0)
                    if rnd.random() < 0.5 and n - z >= 0:
                        c[n - z] = Fr(rnd.choice([1, -1, 2, 4, -8]))      # exact divisions possible
                    cases.append({"sec": "sigma", "coeffs": C.jfr(c)})
                    cases.append({"sec": "sigma", "coeffs": C.jfr([Fr(rnd.uniform(-1, 1)) for _ in range(n + 1)])})
            cases.append({"sec": "sigma", "coeffs": []})
        drv = C.Driver()
        plan = []
        for cs in cases:
            c = [_fr(v) for v in cs["coeffs"]]
            val = _fr(cs["value"]) if "value" in cs else rnd.choice([Fr(1, 2), Fr(-3, 4), Fr(2), Fr(rnd.uniform(-2, 2))])
            cs["value"] = C.jfr(val)
            i1 = drv.ask("alg_sigma", c)
            i2 = drv.ask("alg_companion", c)
            i3 = drv.ask("alg_lucompanion", c, val) if c else None
            plan.append((cs, c, val, i1, i2, i3))
        replies = drv.run()
        for cs, c, val, i1, i2, i3 in plan:
            with self.guard("sigma", cs):
                n = len(c) - 1
                arr = np.asfortranarray([float(v) for v in c])
                res.count(("sigma", cs["coeffs"], cs["value"]), nontrivial=any(c), sec="sigma", degree=max(n, 0))
                has, msc, mdeg, meff = replies[i1][1]
                sc, deg, eff = guarded(res, "_get_sigma_coeffs", A._get_sigma_coeffs, arr, cs)
                # spec: effective degree, ratios of binomials
                e = max([k for k in range(n + 1) if c[k] != 0], default=None)
                if e is None:
                    spec = (None, 0, 0)
                elif e == 0:
                    spec = (None, n, 0)
                else:
                    spec = ([c[k] / c[e] * Fr(comb(n, k), comb(n, e)) for k in range(e)], n, e)
                mtuple = (msc if has == 1 else None, int(mdeg), int(meff))
                if mtuple != spec:
                    res.mismatch("model-vs-spec:sigma", cs, C.jfr(list(mtuple)), C.jfr(list(spec)))
                if (deg, eff) != (spec[1], spec[2]) or (sc is None) != (spec[0] is None):
                    res.mismatch("_get_sigma_coeffs", cs, repr((deg, eff)), repr(spec[1:]))
                    res.failure("sigma-wrong", "_get_sigma_coeffs(%s): degree/effective degree %r, expected %r" %
                                (cs["coeffs"], (deg, eff), spec[1:]), cs)
                    continue
                if sc is not None:
                    for k in range(e):
                        got = Fr(float(sc[k]))
                        q1 = c[k] / c[e]
                        exact_ok = C.is_exact_float(q1) and C.is_exact_float(spec[0][k])
                        tol = 0 if exact_ok else 3 * U * abs(spec[0][k])
                        if abs(got - spec[0][k]) > tol:
                            res.mismatch("_get_sigma_coeffs", cs, str(got), str(spec[0][k]), "E" if exact_ok else "T: 3 roundings")
                            res.failure("sigma-wrong", "_get_sigma_coeffs(%s)[%d] = %.17g, exact %.17g" %
                                        (cs["coeffs"], k, float(got), float(spec[0][k])), cs)
                            break
                # bernstein_companion: structure exactly, first row = -sigma reversed
                comp, d2, e2 = guarded(res, "bernstein_companion", A.bernstein_companion, arr, cs)
                mcomp, mdeg2, meff2 = replies[i2][1]
                comp = np.asarray(comp)
                if (d2, e2) != (int(mdeg2), int(meff2)) or comp.shape != (int(meff2), int(meff2)):
                    res.mismatch("bernstein_companion", cs, repr((d2, e2, comp.shape)), repr((mdeg2, meff2)))
                    res.failure("companion-wrong", "bernstein_companion(%s): shape / degrees" % cs["coeffs"], cs)
                else:
                    for r in range(e2):
                        for col in range(e2):
                            got = Fr(float(comp[r, col]))
                            mv = mcomp[r][col]
                            tol = 3 * U * abs(mv) if r == 0 else 0
                            if r == 0 and sc is not None and got != -Fr(float(sc[e2 - 1 - col])):
                                res.failure("companion-wrong", "first row is not -sigma_coeffs[::-1]", cs)
                            if abs(got - mv) > tol:
                                res.mismatch("bernstein_companion", cs, str(got), str(mv), "entry (%d,%d)" % (r, col))
                                res.failure("companion-wrong", "bernstein_companion(%s)[%d,%d] = %s, model %s" %
                                            (cs["coeffs"], r, col, got, mv), cs)
                # lu_companion(top_row = coeffs, value)
                if i3 is not None:
                    st, m = replies[i3]
                    lu, one_norm = A.lu_companion(arr.copy(), float(val))
                    d = len(c)
                    mmat, mnorm = m
                    ints = all(v.denominator == 1 for v in c) and val.denominator <= 4 and d <= 10
                    # Horner scales for the last row
                    hs = []
                    for k in range(d):
                        hs.append(sum(abs(c[j]) * abs(val) ** (k - j) for j in range(k + 1)) + abs(val) ** (k + 1))
                    bad = False
                    for r in range(d):
                        for col in range(d):
                            got = Fr(float(lu[r, col]))
                            tol = 0 if (ints or r != d - 1) else 2 * (col + 2) * U * hs[col]
                            if abs(got - mmat[r][col]) > tol:
                                bad = True
                    if abs(Fr(float(one_norm)) - mnorm) > (0 if ints else 4 * U * abs(mnorm)):
                        bad = True
                    if bad:
                        res.mismatch("lu_companion", cs, repr(np.asarray(lu).tolist()), C.jfr(mmat), "E" if ints else "T")
                    # spec: last pivot = Horner value of  sum top_k v^(d-1-k) - v^d
                    want = sum(c[k] * val ** (d - 1 - k) for k in range(d)) - val ** d
                    if mmat[d - 1][d - 1] != want:
                        res.mismatch("model-vs-spec:lu-last-pivot", cs, str(mmat[d - 1][d - 1]), str(want))
                    if self.ratio('lu-pivot', abs(Fr(float(lu[d - 1, d - 1])) - want), 2 * (d + 2) * U * hs[d - 1]):
                        res.failure("lu-pivot-wrong", "lu_companion(%s, %s): last pivot %.17g, Horner value %.17g" %
                                    (cs["coeffs"], val, float(lu[d - 1, d - 1]), float(want)), cs)

    # ---------------------------------------------------------------- section: roots
    def planted(self, reps=None):
        """polynomials from prescribed roots: list of dicts {bern, n, roots:[(re, im, mult, class)]}"""
        rnd = self.rnd
        out = []
        inside = [Fr(k, 16) for k in range(1, 16)]
        outside = [Fr(-3, 2), Fr(2), Fr(5, 4), Fr(-1, 4), Fr(3), Fr(-2), Fr(9, 8), Fr(-1, 8)]
        cplx = [(Fr(1, 2), Fr(1, 2)), (Fr(1, 4), Fr(1)), (Fr(-1, 2), Fr(1, 4)), (Fr(3, 2), Fr(2)), (Fr(3, 4), Fr(1, 8)),
                (Fr(0), Fr(1)), (Fr(1), Fr(1, 2))]

        def build(roots, elevate=0, unit=0):
            p = [Fr(rnd.choice([1, -1, 2, 3]))]
            for (re, im, m, cl) in roots:
                for _ in range(m):
                    if im == 0:
                        p = X.poly_mul(p, [-re, Fr(1)])
                    else:
                        p = X.poly_mul(p, [re * re + im * im, -2 * re, Fr(1)])
            for _ in range(unit):
                p = X.poly_mul(p, [Fr(1), Fr(-1)])
            n = len(p) - 1 + elevate
            b = power_to_bern(p, n)
            ints = scale_ints(b)
            exact = ints is not None
            if not exact:
                ints = [Fr(float(v)) for v in b]        # rounded coefficients: roots move by cond * u
            rr = list(roots)
            if unit:
                rr.append((Fr(1), Fr(0), unit, "unit"))
            return {"bern": ints, "n": n, "roots": rr, "elevate": elevate, "exact": exact}

        reps = 3 * self.mult if reps is None else reps
        for n in range(0, 13):
            for _ in range(reps):
                # simple real roots inside / outside
                k = n
                ins = rnd.sample(inside, min(k, rnd.randint(0, k)))
                outs = rnd.sample(outside, min(len(outside), k - len(ins)))
                roots = [(r, Fr(0), 1, "real-in") for r in ins] + [(r, Fr(0), 1, "real-out") for r in outs]
                out.append(build(roots[:n]))
            if n >= 2:
                for _ in range(reps):
                    # complex pairs + reals
                    pairs = rnd.sample(cplx, min(len(cplx), rnd.randint(1, n // 2)))
                    roots = [(a, b, 1, "complex") for a, b in pairs]
                    left = n - 2 * len(roots)
                    roots += [(r, Fr(0), 1, "real-in") for r in rnd.sample(inside, min(left, len(inside)))]
                    out.append(build(roots))
                for _ in range(reps):
                    # repeated real roots
                    m = rnd.choice([2, 2, 3]) if n >= 3 else 2
                    r0 = rnd.choice(inside + outside[:4])
                    roots = [(r0, Fr(0), m, "repeated")]
                    cand = [r for r in inside if r != r0]
                    roots += [(r, Fr(0), 1, "real-in") for r in rnd.sample(cand, min(n - m, 4))]
                    out.append(build(roots))
            if n >= 1:
                for _ in range(reps):
                    # roots at exactly 1 (leading Bernstein coefficients zero: 'infinite' sigma-roots)
                    unit = rnd.randint(1, min(3, n))
                    roots = [(r, Fr(0), 1, "real-in") for r in rnd.sample(inside, min(n - unit, 5))]
                    out.append(build(roots, unit=unit))
                for _ in range(reps):
                    # degree-elevated inputs (roots at s = infinity, sigma = -1)
                    el = rnd.randint(1, min(3, n))
                    roots = [(r, Fr(0), 1, "elevated") for r in rnd.sample(inside, min(n - el, 5))]
                    out.append(build(roots, elevate=el))
            if n >= 2:
                for _ in range(reps):
                    # both at once: roots at exactly 1 AND a degree-elevated presentation (sigma-roots at -1 are dropped
                    # and roots at 1 are appended by two different counts)
                    unit = rnd.randint(1, min(2, n - 1))
                    el = rnd.randint(1, min(2, n - unit))
                    roots = [(r, Fr(0), 1, "real-out" if r in outside else "real-in")
                             for r in rnd.sample(inside + outside[:4], min(n - unit - el, 4))]
                    out.append(build(roots, elevate=el, unit=unit))
        return out

    def sec_roots(self, cases=None, value_check_note=True):
        res, A = self.res, self.A
        if cases is None:
            cases = []
            for p in self.planted():
                cases.append({"sec": "roots", "bern": C.jfr(p["bern"]), "exact": p["exact"], "elevate": p["elevate"],
                              "roots": [[str(a), str(b), m, cl] for a, b, m, cl in p["roots"]]})
        drv = C.Driver()
        plan = []
        for cs in cases:
            b = [_fr(v) * Fr(2) ** int(cs.get("scale", 0)) for v in cs["bern"]]
            if any(Fr(float(v)) != v for v in b):
                raise SystemExit("spec broken: scaled Bernstein coefficients are not representable")
            arr = np.asfortranarray([float(v) for v in b])
            comp, deg, eff = guarded(res, "bernstein_companion", A.bernstein_companion, arr, cs)
            eig = np.linalg.eigvals(comp) if eff else np.empty((0,))
            eigp = [[Fr(float(np.real(z))), Fr(float(np.imag(z)))] for z in eig if np.isfinite(z)]
            idx = drv.ask("alg_bezierroots", self.par, eigp, b)
            plan.append((cs, b, arr, eig, idx))
        replies = drv.run()
        for cs, b, arr, eig, idx in plan:
            with self.guard("roots", cs):
                n = len(b) - 1
                roots = [(Fr(a), Fr(bb), int(m), cl) for a, bb, m, cl in cs["roots"]]
                classes = sorted({cl for _, _, _, cl in roots}) or ["constant"]
                k2 = int(cs.get("scale", 0))
                sfx = ":scaled-coefficients" if k2 else ""
                shown = ("2^%d * %s" % (k2, cs["bern"])) if k2 else cs["bern"]
                if k2:
                    res.count(("roots", cs["bern"], k2), nontrivial=(n >= 1), sec="scale", kind="bezier_roots", degree=n,
                              scale=scale_bucket(k2), largest_coefficient=scale_bucket(mag_exp(b)))
                else:
                    res.count(("roots", cs["bern"]), nontrivial=(n >= 1), sec="roots", degree=n, classes="+".join(classes))
                out = np.atleast_1d(np.asarray(guarded(res, "bezier_roots", A.bezier_roots, arr, cs)))
                got = [(float(np.real(z)), float(np.imag(z))) for z in out]
                res.sample({"sec": "roots", "degree": n, "classes": classes, "returned": len(got)})
                # ---- correspondence of the filter / transformation given the same eigenvalues
                model = replies[idx][1]
                near_gate = any(abs(abs(complex(z) + 1.0) - float(self.const["SIGMA_THRESHOLD"])) < 1e-9 for z in eig)
                if not near_gate:
                    if len(model) != len(got):
                        res.mismatch("bezier_roots", cs, repr(got), C.jfr(model), "number of returned roots")
                    else:
                        for (gr, gi), (mr, mi) in zip(got, model):
                            mag = max(abs(float(mr)) + abs(float(mi)), 1e-300)
                            if abs(gr - float(mr)) + abs(gi - float(mi)) > 16 * UF * mag:
                                res.mismatch("bezier_roots", cs, repr((gr, gi)), C.jfr([mr, mi]), "sigma/(1+sigma)")
                                break
                if n == 0 or not any(b):
                    if got:
                        res.failure("root-spurious" + sfx, "constant polynomial %s has roots %r" % (shown, got), cs)
                    continue
                # ---- oracle
                e = max(k for k in range(n + 1) if b[k] != 0)
                W = max(float(comb(n, k) * abs(b[k])) for k in range(n + 1))
                eps = C_ROOT * (n + 1) * UF
                bf = [float(v) for v in b]

                def T(z):
                    az, a1 = abs(z), abs(1 - z)
                    return sum(az ** k * a1 ** (n - k) for k in range(e + 1))

                def deriv_abs(z, m):
                    # |p^(m)(z)| from the power basis of the exact float polynomial
                    pw = [float(v) for v in X.bern_to_power(b)]
                    for _ in range(m):
                        pw = [i * pw[i] for i in range(1, len(pw))] or [0.0]
                    return abs(sum(cf * z ** i for i, cf in enumerate(pw)))

                # (1) roots at exactly one
                unit_mult = n - e
                ones = sum(1 for (gr, gi) in got if gr == 1.0 and gi == 0.0)
                if ones < unit_mult:
                    res.failure("root-missed:unit" + sfx, "bezier_roots(%s): %d roots at exactly 1 expected, %d returned" %
                                (shown, unit_mult, ones), cs)
                if ones > unit_mult and cs.get("exact", False) and not any(float(re) == 1.0 and im == 0 for (re, im, m, cl) in roots if cl != "unit"):
                    res.failure("root-multiplicity:unit" + sfx, "bezier_roots(%s): the root 1 has multiplicity %d (trailing zero Bernstein "
                                "coefficients) but is returned %d times" % (shown, unit_mult, ones), cs)
                # (2) every planted root is returned, with multiplicity
                expanded = []
                for (re, im, m, cl) in roots:
                    if cl == "unit":
                        continue
                    zs = [complex(float(re), float(im))] + ([complex(float(re), -float(im))] if im != 0 else [])
                    for z in zs:
                        d = deriv_abs(z, m)
                        allow = 4 * (factorial(m) * eps * W * T(z) / d) ** (1.0 / m) if d > 0 else float("inf")
                        allow = max(allow, 64 * UF * max(1.0, abs(z)))
                        for _ in range(m):
                            expanded.append((allow, z, m, cl))
                unused = [complex(gr, gi) for (gr, gi) in got if not (gr == 1.0 and gi == 0.0)]
                unused += [complex(1.0, 0.0)] * max(0, ones - unit_mult)
                for allow, z, m, cl in sorted(expanded, key=lambda t: t[0]):
                    if not unused:
                        res.failure("root-missed:%s" % cl + sfx, "bezier_roots(%s): planted root %r (multiplicity %d) not returned; got %r" %
                                    (shown, z, m, got), cs)
                        continue
                    j = min(range(len(unused)), key=lambda i: abs(unused[i] - z))
                    if not self.ratio('root-match:%s:m%d' % (cl, m), abs(unused[j] - z), allow):
                        unused.pop(j)
                    else:
                        res.failure("root-missed:%s" % cl + sfx,
                                    "bezier_roots(%s): planted root %r (multiplicity %d) not returned within %.3e "
                                    "(= 4 (m! eps W T / |p^(m)|)^(1/m)); nearest %r" % (shown, z, m, allow, unused[j]), cs)
                # (3) every returned root has a small exact residual (normwise backward error)
                for (gr, gi) in got:
                    if gr == 1.0 and gi == 0.0:
                        val = (b[n], Fr(0))
                    else:
                        val = bern_complex_exact(b, (Fr(gr), Fr(gi)))
                    bound = eps * W * T(complex(gr, gi))
                    if self.ratio('root-residual', fabs2(val), bound):
                        res.failure("root-spurious" + sfx, "bezier_roots(%s): returned %r has |p| = %.3e > %.3e = %d(n+1)u max C(n,k)|c_k| "
                                    "sum |s|^k |1-s|^(n-k)" % (shown, (gr, gi), fabs2(val), bound, C_ROOT), cs)
                # (4) count: degree many, minus sigma-roots dropped at sigma = -1 (s = infinity)
                dropped = sum(1 for z in eig if abs(complex(z) + 1.0) <= float(self.const["SIGMA_THRESHOLD"]))
                if len(got) != n - dropped:
                    res.failure("root-count" + sfx, "bezier_roots(%s): %d roots returned, degree %d, %d dropped at infinity" %
                                (shown, len(got), n, dropped), cs)
                if dropped > cs.get("elevate", 0) and cs.get("exact", False):
                    res.failure("root-missed:finite-dropped" + sfx, "bezier_roots(%s): %d sigma-roots dropped at -1 but only %d roots at infinity" %
                                (shown, dropped, cs.get("elevate", 0)), cs)
        if self.pure and value_check_note:
            try:
                import scipy.linalg.lapack  # noqa
                have = True
            except Exception:  # noqa
                have = False
            if not have:
                res.skip("bezier_value_check: SciPy absent")

    # ---------------------------------------------------------------- section: unit
    def sec_unit(self, cases=None, non_simple=True):
        res, A, rnd = self.res, self.A, self.rnd
        w = self.const["IMAGINARY_WIGGLE"]
        lo, hi = self.const["UNIT_INTERVAL_WIGGLE_START"], self.const["UNIT_INTERVAL_WIGGLE_END"]
        if cases is None:
            cases = []
            inside = [Fr(k, 16) for k in range(0, 17)]
            outside = [Fr(-3, 2), Fr(2), Fr(5, 4), Fr(-1, 4), Fr(3), Fr(-1, 8), Fr(9, 8)]
            edge = [lo / 2, hi - w / 2, lo * 2, 1 + 2 * w, Fr(0), Fr(1)]
            cplx = [(Fr(1, 2), Fr(1, 2)), (Fr(1, 4), Fr(1)), (Fr(1, 2), w * 4), (Fr(3, 4), Fr(1, 8)), (Fr(1, 2), w / 4)]
            for n in range(1, 10):
                for _ in range(4 * self.mult):
                    k = rnd.randint(0, n)
                    reals = rnd.sample(inside, min(k, 8)) + rnd.sample(outside + edge, min(n - min(k, 8), 5))
                    reals = reals[:n]
                    pairs = rnd.sample(cplx, min((n - len(reals)) // 2, 3))
                    cases.append({"sec": "unit", "reals": C.jfr(reals), "pairs": C.jfr([list(p) for p in pairs]),
                                  "lead": rnd.choice([1, -2, 3])})
        drv = C.Driver()
        plan = []
        for cs in cases:
            reals = [_fr(v) for v in cs["reals"]]
            pairs = [(_fr(a), _fr(b)) for a, b in cs["pairs"]]
            p = [Fr(cs["lead"])]
            for r in reals:
                p = X.poly_mul(p, [-r, Fr(1)])
            for a, b in pairs:
                p = X.poly_mul(p, [a * a + b * b, -2 * a, Fr(1)])
            ints = scale_ints(p) or [Fr(float(v)) for v in p]
            k2 = int(cs.get("scale", 0))
            if k2:
                # the same polynomial times 2^k2 (exact in binary64: no rounding, same roots)
                ints = [v * Fr(2) ** k2 for v in ints]
                if any(Fr(float(v)) != v for v in ints):
                    raise SystemExit("spec broken: scaled coefficients are not representable")
            arr = np.asfortranarray([float(v) for v in ints])
            from numpy.polynomial import polynomial as P
            allr = P.polyroots(arr)
            rp = [[Fr(float(np.real(z))), Fr(float(np.imag(z)))] for z in np.atleast_1d(allr) if np.isfinite(z)]
            i1 = drv.ask("alg_unitfilter", self.par, rp)
            i2 = drv.ask("alg_strip", self.const["COEFFICIENT_THRESHOLD"], ints + [Fr(0), Fr(1, 2 ** 30)])
            plan.append((cs, reals, pairs, ints, arr, allr, i1, i2))
        replies = drv.run()
        for cs, reals, pairs, ints, arr, allr, i1, i2 in plan:
            with self.guard("unit", cs):
                n = len(ints) - 1
                k2 = int(cs.get("scale", 0))
                sfx = ":scaled-coefficients" if k2 else ""
                if k2:
                    res.count(("unit", cs["reals"], cs["pairs"], cs["lead"], k2), sec="scale", kind="roots_in_unit_interval",
                              degree=n, scale=scale_bucket(k2), largest_coefficient=scale_bucket(mag_exp(ints)))
                else:
                    res.count(("unit", cs["reals"], cs["pairs"], cs["lead"]), sec="unit", degree=n)
                out = [float(v) for v in np.atleast_1d(guarded(res, "roots_in_unit_interval", A.roots_in_unit_interval, arr, cs)
                                                       if k2 else A.roots_in_unit_interval(arr.copy()))]
                model = [float(v) for v in replies[i1][1]]
                margins = [min(abs(float(np.real(z)) - float(lo)), abs(float(np.real(z)) - float(hi)),
                               abs(abs(float(np.imag(z))) - float(w))) for z in np.atleast_1d(allr)]
                if sorted(out) != sorted(model) and (not margins or min(margins) > 1e-12):
                    res.mismatch("roots_in_unit_interval", cs, repr(out), repr(model), "filter on the same polyroots output")
                # oracle: planted simple reals strictly inside the widened interval are returned; roots
                # clearly outside / clearly complex are not
                a = [float(v) for v in ints]
                norm = max(abs(v) for v in a)
                mult = {}
                for r in reals:
                    mult[r] = mult.get(r, 0) + 1
                for r in set(reals):
                    if mult[r] != 1:
                        continue
                    rf = float(r)
                    dp = abs(sum(i * a[i] * rf ** (i - 1) for i in range(1, n + 1)))
                    allow = 4 * C_ROOT * (n + 1) * UF * norm * sum(abs(rf) ** i for i in range(n + 1)) / dp if dp else float("inf")
                    allow = max(allow, 64 * UF)
                    clear_in = float(lo) + allow < rf < float(hi) - allow
                    clear_out = rf < float(lo) - allow or rf > float(hi) + allow
                    hit = any(abs(o - rf) <= allow for o in out)
                    if clear_in and not hit and allow < 1e-5:
                        res.failure("root-missed:unit-interval" + sfx, "roots_in_unit_interval: planted simple root %s of %s%s not returned (got %r, allowed %.3e)" %
                                    (r, "2^%d * " % k2 if k2 else "", C.jfr([v / Fr(2) ** k2 for v in ints]), out, allow), cs)
                    if clear_out and hit:
                        res.failure("root-spurious:unit-interval" + sfx, "roots_in_unit_interval returned %s outside the widened interval" % r, cs)
                for o in out:
                    # every returned value is near a real root or a complex pair with small imaginary part
                    cand = [float(r) for r in reals] + [float(pa) for pa, pb in pairs if pb < 2 * w]
                    val = abs(sum(a[i] * o ** i for i in range(n + 1)))
                    bound = 4 * C_ROOT * (n + 1) * UF * norm * sum(abs(o) ** i for i in range(n + 1))
                    near_pair = any(abs(o - float(pa)) < 1e-6 for pa, pb in pairs if pb < 2 * w)
                    if val > bound and not near_pair:
                        res.failure("root-spurious:unit-interval" + sfx, "roots_in_unit_interval(%s) returned %r with |p| = %.3e > %.3e" %
                                    (C.jfr(ints), o, val, bound), cs)
                if k2:
                    continue        # (the helper below is specified for normalised input only)
                # _strip_leading_zeros (pure data movement): impl == model exactly
                stripped = A._strip_leading_zeros(np.asfortranarray([float(v) for v in ints] + [0.0, 2.0 ** -30]))
                st, m = replies[i2]
                if st != "ok" or [Fr(float(v)) for v in stripped] != m:
                    res.mismatch("_strip_leading_zeros", cs, repr(list(stripped)), C.jfr(m) if st == "ok" else m)
        # _check_non_simple: the matrix p(companion(p')^T) and the decision, given the impl's rank
        if non_simple:
            self.check_non_simple()

    def check_non_simple(self):
        res, A, rnd = self.res, self.A, self.rnd
        from numpy.polynomial import polynomial as P
        polys = []
        for n in range(1, 8):
            for _ in range(3 * self.mult):
                roots = [Fr(rnd.randint(-8, 24), 16) for _ in range(n)]
                if n >= 2 and rnd.random() < 0.5:
                    roots[1] = roots[0]                 # a repeated root
                p = [Fr(1)]
                for r in roots:
                    p = X.poly_mul(p, [-r, Fr(1)])
                polys.append((scale_ints(p) or p, len(set(roots)) < n))
        drv = C.Driver()
        plan = []
        for p, repeated in polys:
            arr = np.asfortranarray([float(v) for v in p])
            nrm = float(A.polynomial_norm(arr))
            arr = arr / nrm
            c = [Fr(float(v)) for v in arr]
            i1 = drv.ask("alg_nonsimple_matrix", self.const["COEFFICIENT_THRESHOLD"], c)
            plan.append((c, arr, repeated, i1))
        replies = drv.run()
        drv = C.Driver()
        second = []
        for (c, arr, repeated, i1) in plan:
            st, mat = replies[i1]
            n = len(c) - 1
            # the external `matrix_rank` is observed on the implementation's own run (run-time patch
            # of the numpy entry point, restored afterwards) together with the matrix it was given
            seen = {}
            orig = np.linalg.matrix_rank

            def spy(m, *a, **k):
                seen["mat"] = np.array(m, copy=True)
                seen["rank"] = int(orig(m, *a, **k))
                return seen["rank"]
            np.linalg.matrix_rank = spy
            try:
                try:
                    A._check_non_simple(arr.copy())
                    got = "ok"
                except NotImplementedError:
                    got = "notImplemented"
            finally:
                np.linalg.matrix_rank = orig
            if "mat" in seen:
                em = seen["mat"]
                size = max(abs(float(v)) for v in c) * max(1.0, max(abs(float(x)) for r in mat for x in r))
                worst = max(abs(float(em[r][k]) - float(mat[r][k])) for r in range(len(mat)) for k in range(len(mat)))
                scale = max(max(abs(float(x)) for r in mat for x in r), 1e-300)
                # Horner in matrices: n products of (n-1)x(n-1) matrices; normwise allowance
                if self.ratio("nonsimple-matrix", worst, 8 * n * UF * max(scale, self._horner_scale(c))):
                    res.mismatch("_check_non_simple", {"coeffs": C.jfr(c)}, repr(em.tolist()), C.jfr(mat), "evaluated matrix (T, normwise)")
            rank = seen.get("rank")
            if rank is None:
                rank = 1 if (n == 2 and abs(mat[0][0]) > self.const["NON_SIMPLE_THRESHOLD"]) else 0
            second.append((drv.ask("alg_checknonsimple", self.par, rank, c), got))
        rep2 = drv.run()
        for (c, arr, repeated, i1), (i2, got) in zip(plan, second):
            n = len(c) - 1
            res.count(("nonsimple", C.jfr(c)), sec="unit", kind="check_non_simple", degree=n)
            st, m = rep2[i2]
            mod = "ok" if st == "ok" else m
            margin_clear = True
            if n == 2:
                stm, mat = replies[i1]
                margin_clear = abs(abs(mat[0][0]) - self.const["NON_SIMPLE_THRESHOLD"]) > Fr(1, 2 ** 50)
            if got != mod and margin_clear:
                res.mismatch("_check_non_simple", {"coeffs": C.jfr(c)}, got, mod, "decision given the observed matrix_rank")
            if n >= 2 and repeated and got == "ok":
                self.accepted_repeated = getattr(self, "accepted_repeated", 0) + 1
        if getattr(self, "accepted_repeated", 0):
            res.notes.append("_check_non_simple accepted %d polynomials built with an exactly repeated root "
                             "(after normalisation in binary64; the rank test is numerical)" % self.accepted_repeated)

    def _horner_scale(self, c):
        """size of the terms of p(C) for the transposed companion of p' (normwise, floats)"""
        n = len(c) - 1
        lead = abs(float(c[n])) or 1.0
        cn = 1.0 + max(abs(float(k * c[k])) / (n * lead) for k in range(1, n)) if n >= 2 else 1.0
        return sum(abs(float(c[k])) * cn ** k for k in range(n + 1))

    # ---------------------------------------------------------------- section: endtoend
    def sec_endtoend(self, cases=None):
        res, A, rnd = self.res, self.A, self.rnd
        if cases is None:
            cases = []
            lines = [[[Fr(0), Fr(4)], [Fr(0), Fr(4)]], [[Fr(0), Fr(4)], [Fr(3), Fr(1)]], [[Fr(-1), Fr(3)], [Fr(2), Fr(2)]],
                     [[Fr(1), Fr(1)], [Fr(-1), Fr(5)]]]
            quads = [[[Fr(0), Fr(2), Fr(4)], [Fr(0), Fr(4), Fr(0)]], [[Fr(0), Fr(2), Fr(4)], [Fr(4), Fr(-2), Fr(4)]],
                     [[Fr(0), Fr(1), Fr(4)], [Fr(1), Fr(3), Fr(2)]]]
            cubics = [[[Fr(0), Fr(1), Fr(3), Fr(4)], [Fr(0), Fr(3), Fr(-1), Fr(2)]],
                      [[Fr(0), Fr(2), Fr(2), Fr(4)], [Fr(2), Fr(-1), Fr(4), Fr(1)]]]
            pool = lines + quads + cubics
            for i, a in enumerate(pool):
                for b in pool[i + 1:]:
                    cases.append({"sec": "endtoend", "n1": C.jfr(a), "n2": C.jfr(b)})
            quart = [[Fr(0), Fr(1), Fr(2), Fr(3), Fr(5)], [Fr(0), Fr(2), Fr(-1), Fr(3), Fr(1)]]
            quint = [[Fr(0), Fr(1), Fr(2), Fr(3), Fr(4), Fr(6)], [Fr(0), Fr(2), Fr(-1), Fr(3), Fr(1), Fr(2)]]
            cases.append({"sec": "endtoend", "n1": C.jfr(cubics[0]), "n2": C.jfr(quart)})
            cases.append({"sec": "endtoend", "n1": C.jfr(lines[0]), "n2": C.jfr(quint)})
            cases.append({"sec": "endtoend", "n1": C.jfr(quads[0]), "n2": C.jfr(quads[0])})       # coincident
            cases.append({"sec": "endtoend", "n1": C.jfr(lines[0]), "n2": C.jfr([[Fr(10), Fr(12)], [Fr(0), Fr(1)]])})  # disjoint boxes
        drv = C.Driver()
        for cs in cases:
            n1 = [[_fr(v) for v in r] for r in cs["n1"]]
            n2 = [[_fr(v) for v in r] for r in cs["n2"]]
            drv.ask("alg_bboxdisjoint", n1, n2)
            drv.ask("alg_pbkind", min(len(n1[0]), len(n2[0])), max(len(n1[0]), len(n2[0])))
        replies = drv.run()
        for k, cs in enumerate(cases):
            with self.guard("endtoend", cs):
                n1 = [[_fr(v) for v in r] for r in cs["n1"]]
                n2 = [[_fr(v) for v in r] for r in cs["n2"]]
                a1, a2 = C.farr(n1), C.farr(n2)
                d1, d2 = len(n1[0]) - 1, len(n2[0]) - 1
                res.count(("endtoend", cs["n1"], cs["n2"]), sec="endtoend", pair="%d-%d" % (min(d1, d2), max(d1, d2)))
                disjoint = replies[2 * k][1] == 1
                supported = replies[2 * k + 1][0] == "ok"
                try:
                    out, coincident = A.all_intersections(a1, a2)
                    got = "ok"
                except NotImplementedError as exc:
                    got, out = "notImplemented", None
                if disjoint:
                    if got != "ok" or out.shape != (2, 0):
                        res.mismatch("all_intersections", cs, got, "empty", "box gate")
                    continue
                if not supported:
                    if got != "notImplemented":
                        res.mismatch("all_intersections", cs, got, "notImplemented", "unsupported pair (no reduction possible)")
                        res.failure("refusal-missing:unsupported-pair", "all_intersections on degrees %d-%d did not raise" % (d1, d2), cs)
                    continue
                if n1 == n2:
                    if got != "notImplemented":
                        res.failure("refusal-missing:coincident", "all_intersections on identical curves did not raise", cs)
                    continue
                if got != "ok":
                    res.skip("endtoend: refused (non-simple / coincident) pair")
                    continue
                # every returned pair of parameters gives the same point on both curves
                for s, t in zip(out[0], out[1]):
                    p1 = [float(X.bern(r, Fr(float(s)))) for r in n1]
                    p2 = [float(X.bern(r, Fr(float(t)))) for r in n2]
                    size = max(abs(float(v)) for r in n1 + n2 for v in r)
                    if max(abs(p1[0] - p2[0]), abs(p1[1] - p2[1])) > 2.0 ** -30 * size:
                        res.failure("intersection-wrong", "all_intersections(%s, %s): s=%r t=%r give points %r, %r" %
                                    (cs["n1"], cs["n2"], s, t, p1, p2), cs)
                    # locate_point finds the parameter of that point on the first curve
                    if 0.0 <= s <= 1.0 and d1 <= 3:
                        loc = A.locate_point(a1, p1[0], p1[1])
                        if loc is None or abs(float(X.bern(n1[0], Fr(float(loc)))) - p1[0]) > 2.0 ** -30 * size:
                            res.notes.append("locate_point did not recover s=%r on %s (returned %r)" % (s, cs["n1"], loc))

    # ---------------------------------------------------------------- section: scale
    def threshold_exponents(self):
        """binary exponents of the absolute constants of the module (whatever they currently are): a polynomial whose
        coefficients sit just below / above one of them is where an absolute test on un-normalised data would bite"""
        out = set()
        for v in self.const.values():
            if v != 0:
                out.add(math.frexp(abs(float(v)))[1] - 1)
            if v not in (0, 1) and abs(v) > 1:
                out.add(math.frexp(abs(float(abs(v) - 1)))[1] - 1)          # 1 + 2^-13 -> -13
        out.add(math.frexp(float(getattr(self.A, "_SINGULAR_EPS", 2.0 ** -52)))[1] - 1)
        return sorted(out)

    def pick_scale(self, mags, lead=None):
        """exponent k of the factor 2^k: either places the largest / smallest non-zero / leading coefficient within a
        factor 8 of one of the module's absolute thresholds, or is far away from all of them (both directions)"""
        rnd = self.rnd
        mags = [float(m) for m in mags if m] or [1.0]
        if rnd.random() < 0.6:
            ref = rnd.choice([max(mags), max(mags), min(mags), float(lead) if lead else max(mags)])
            e = rnd.choice(self.threshold_exponents())
            k = e - (math.frexp(ref)[1] - 1) + rnd.randint(-3, 3)
        else:
            k = rnd.choice([-1, 1]) * rnd.choice([8, 27, 33, 45, 64, 100, 200, 300])
        return k or -1

    def sec_scale(self):
        """roots of c * p = roots of p: the planted-root oracles of `unit` and `roots`, unchanged, on coefficient
        vectors multiplied by an exact power of two"""
        rnd = self.rnd
        inside = [Fr(k, 16) for k in range(0, 17)]
        outside = [Fr(-3, 2), Fr(2), Fr(5, 4), Fr(-1, 4), Fr(3), Fr(-1, 8), Fr(9, 8)]
        cplx = [(Fr(1, 2), Fr(1, 2)), (Fr(1, 4), Fr(1)), (Fr(3, 4), Fr(1, 8)), (Fr(-1, 2), Fr(2))]
        ucases = []
        for n in range(1, 10):
            for _ in range(8 * self.mult):
                k = rnd.randint(1, n)
                reals = (rnd.sample(inside, min(k, 8)) + rnd.sample(outside, min(n - min(k, 8), 5)))[:n]
                pairs = rnd.sample(cplx, min((n - len(reals)) // 2, 3))
                lead = rnd.choice([1, -2, 3])
                p = [Fr(lead)]
                for r in reals:
                    p = X.poly_mul(p, [-r, Fr(1)])
                for a, b in pairs:
                    p = X.poly_mul(p, [a * a + b * b, -2 * a, Fr(1)])
                ints = scale_ints(p) or [Fr(float(v)) for v in p]
                ucases.append({"sec": "unit", "reals": C.jfr(reals), "pairs": C.jfr([list(q) for q in pairs]), "lead": lead,
                               "scale": self.pick_scale([abs(v) for v in ints], abs(ints[-1]))})
        self.sec_unit(ucases, non_simple=False)
        rcases = []
        for pl in self.planted(reps=(6 if self.thorough else 2)):
            if pl["n"] == 0:
                continue
            k = self.pick_scale([abs(v) for v in pl["bern"]], None)
            # keep every coefficient a normal binary64 number
            hi = max(mag_exp([v for v in pl["bern"] if v]), 0)
            lo = min(math.frexp(float(abs(v)))[1] for v in pl["bern"] if v) - 54
            k = max(min(k, 1000 - hi), -1000 - lo)
            rcases.append({"sec": "roots", "bern": C.jfr(pl["bern"]), "exact": pl["exact"], "elevate": pl["elevate"], "scale": k,
                           "roots": [[str(a), str(b), m, cl] for a, b, m, cl in pl["roots"]]})
        self.sec_roots(rcases, value_check_note=False)

    # ---------------------------------------------------------------- section: locate
    def sec_locate(self, cases=None):
        """locate_point(nodes, B(s0)) on a lattice net whose rows are multiplied by exact powers of two (the same for both
        coordinates, or one per coordinate).  SPEC: P = B(s0) is computed exactly and is a binary64 point, s0 in [0, 1]; so
        a parameter exists and the routine has to return an s with B(s) = P (per coordinate up to 2^-30 * size, the
        allowance of `endtoend`).  Demanded only where a backward stable root finder is bound to succeed: s0 is a simple
        root of both coordinate polynomials x(s) - x0, y(s) - y0 and the first-order effect of the root allowance of
        `unit` (4 C_ROOT (n+1) u max|a_i| sum|s0|^i / |p'(s0)|) on the OTHER, L2-normalised, coordinate polynomial stays
        below half the routine's own acceptance threshold.  All of that is invariant under the scaling."""
        res, A, rnd = self.res, self.A, self.rnd
        if cases is None:
            cases = []
            for _ in range((300 if self.pure else 200) * self.mult):
                n = rnd.choice([1, 2, 2, 3, 3, 3])
                nodes = self.lattice_net(n, 8)
                if len(nodes[0]) <= 4 and rnd.random() < 0.2:
                    nodes = [[v * len(row) for v in X.elevate_exact(row)] for row in nodes]      # one more (formal) degree
                if all(len(set(row)) == 1 for row in nodes):
                    continue                                                                  # a point, not a curve
                s0 = rnd.choice([Fr(0), Fr(1), Fr(1, 2)] + [Fr(rnd.randint(0, 32), 32)] * 9)
                kind = rnd.random()
                if kind < 0.1:
                    ks = [0, 0]
                elif kind < 0.7:
                    ks = [self.pick_scale([abs(v) for row in nodes for v in row])] * 2
                else:
                    # one factor per coordinate (an axis-parallel stretch of the plane leaves the parameter alone)
                    ks = [self.pick_scale([abs(v) for v in row]) if rnd.random() < 0.7 else 0 for row in nodes]
                cases.append({"sec": "locate", "nodes": C.jfr(nodes), "scale": ks, "s0": str(s0)})
        zero_thr = float(self.const["ZERO_THRESHOLD"])
        l2_thr = self.const["L2_THRESHOLD"]
        for cs in cases:
            with self.guard("locate", cs):
                ks = [int(v) for v in cs["scale"]]
                fs = [Fr(2) ** k for k in ks]
                base = [[_fr(v) for v in r] for r in cs["nodes"]]
                nodes = [[v * f for v in r] for r, f in zip(base, fs)]
                s0 = _fr(cs["s0"])
                pt = [X.bern(r, s0) for r in nodes]
                if any(Fr(float(v)) != v for r in nodes for v in r) or any(Fr(float(v)) != v for v in pt):
                    res.skip("locate: B(s0) not a binary64 point")
                    continue
                sizes = [max(abs(v) for v in r) for r in nodes]
                # ---- exact classification of the input (on the unscaled net: everything but the L2 cut-off is scale free)
                live = []
                for c, r in enumerate(base):
                    pw = X.bern_to_power(r)
                    pw[0] -= X.bern(r, s0)
                    while pw and pw[-1] == 0:
                        pw.pop()
                    if pw:
                        live.append((c, pw))
                if not live:
                    continue
                if max(len(pw) for _, pw in live) - 1 > 3:
                    res.skip("locate: true degree above 3")
                    continue
                if any(X.poly_eval(pw, s0) != 0 for _, pw in live):
                    raise SystemExit("spec broken: B(s0) is not on the curve")
                derivs = [X.poly_eval(X.poly_deriv(pw), s0) for _, pw in live]
                norms2 = [X.poly_int01(X.poly_mul(pw, pw)) for _, pw in live]
                scaled = any(ks)
                tags = dict(sec="locate", degree=max(len(pw) for _, pw in live) - 1, nodes=len(nodes[0]),
                            scale=(scale_bucket(ks[0]) if ks[0] == ks[1] else "one-factor-per-coordinate"),
                            size=scale_bucket(min([mag_exp([s]) for s in sizes if s] or [0])))
                key = ("locate", cs["nodes"], ks, cs["s0"])
                if any(d == 0 for d in derivs):
                    res.count(key, nontrivial=False, regime="stationary-coordinate(not demanded)", **tags)
                    continue
                # below the routine's L2 cut-off the second coordinate is not examined at all (see the notes): the answer is
                # then only determined when s0 is the ONLY root of each coordinate polynomial near [0, 1]
                tiny = any(n2 * fs[c] ** 2 < (l2_thr * 16) ** 2 for (c, _), n2 in zip(live, norms2))
                if tiny and not all(only_root_near_unit(pw, s0) for _, pw in live):
                    res.count(key, nontrivial=False, regime="below-L2-cutoff+several-roots(not demanded)", **tags)
                    self.tiny_multi = getattr(self, "tiny_multi", 0) + 1
                    continue
                demanded = True
                for i, (_, pa) in enumerate(live):
                    na = len(pa) - 1
                    fa = [float(v) for v in pa]
                    allow = (4 * C_ROOT * (na + 1) * UF * max(abs(v) for v in fa) * sum(float(s0) ** j for j in range(na + 1)) /
                             abs(float(derivs[i])))
                    if allow > 2.0 ** -20:
                        demanded = False
                    for j, (_, pb) in enumerate(live):
                        if j == i:
                            continue
                        nb = math.sqrt(float(norms2[j]))
                        slope = abs(float(derivs[j])) / nb
                        evalerr = 2 * (len(pb) + 1) * UF * sum(abs(float(v)) for v in pb) / nb
                        if slope * allow + evalerr > zero_thr / 2:
                            demanded = False
                if not demanded:
                    res.count(key, nontrivial=False, regime="ill-conditioned(not demanded)", **tags)
                    continue
                res.count(key, regime="demanded" + ("+below-L2-cutoff" if tiny else ""), **tags)
                res.sample({"sec": "locate", "nodes": cs["nodes"], "scale": ks, "s0": cs["s0"]}, cap=9)
                arr = C.farr(nodes)
                pre = "" if not scaled else ("2^%d * " % ks[0] if ks[0] == ks[1] else "diag(2^%d, 2^%d) * " % tuple(ks))
                shown = "%s%s at B(%s) = (%r, %r)" % (pre, cs["nodes"], s0, float(pt[0]), float(pt[1]))
                sfx = ":scaled-net" if scaled else ""
                try:
                    work = arr.copy(order="F")
                    got = A.locate_point(work, float(pt[0]), float(pt[1]))
                except Exception as exc:  # noqa
                    res.failure("locate-raised:%s%s" % (type(exc).__name__, sfx), "locate_point(%s) raised %r" % (shown, exc), cs)
                    continue
                if not np.array_equal(work, arr):
                    res.failure("input-mutated:locate_point", "locate_point changed its nodes argument (%s)" % shown, cs)
                if got is None:
                    res.failure("locate-missed:point-on-curve" + sfx,
                                "locate_point(%s) returned None; the point is exactly B(%s), a simple root of every non-constant coordinate "
                                "polynomial" % (shown, s0), cs)
                    continue
                if not math.isfinite(float(got)):
                    res.failure("non-finite:locate", "locate_point(%s) returned %r" % (shown, got), cs)
                    continue
                g = Fr(float(got))
                resid = max((abs(X.bern(r, g) - v) / sz for r, v, sz in zip(nodes, pt, sizes) if sz), default=Fr(0))
                if self.ratio("locate-residual", resid, 2.0 ** -30) or not (-1e-3 <= float(got) <= 1 + 1e-3):
                    res.failure("locate-wrong:point-on-curve" + sfx,
                                "locate_point(%s) returned %r: |B(s) - P| = %.3e * size (allowed 2^-30), expected a parameter of "
                                "the point such as %s" % (shown, got, float(resid), s0), cs)
        if getattr(self, "tiny_multi", 0):
            res.notes.append("locate: %d generated cases lie below the L2 cut-off of normalize_polynomial with several roots of a "
                             "coordinate polynomial near [0,1]; the routine does not examine the second coordinate there, so "
                             "they are not demanded" % self.tiny_multi)

    # ----------------------------------------------------------------
    SECTIONS = {"implicit": "sec_implicit", "ipoly": "sec_ipoly", "p2pb": "sec_p2pb", "norm": "sec_norm",
                "sigma": "sec_sigma", "roots": "sec_roots", "unit": "sec_unit", "endtoend": "sec_endtoend",
                # (new families last: the random stream of the sections above is unchanged)
                "scale": "sec_scale", "locate": "sec_locate"}
    SHIM_SECTIONS = ("ipoly", "endtoend", "locate")

    def run(self, rep=None):
        if rep:
            getattr(self, self.SECTIONS[rep["sec"]])([rep])
            return
        for name, meth in self.SECTIONS.items():
            if not self.pure and name not in self.SHIM_SECTIONS:
                continue
            getattr(self, meth)()
        self.res.notes.append("largest observed error / allowance: " +
                              ", ".join("%s=%.3g" % kv for kv in sorted(self.ratios.items())))


def _fr(v):
    if isinstance(v, Fr):
        return v
    if isinstance(v, str) and v.startswith(("0x", "-0x")):
        return Fr(float.fromhex(v))
    return Fr(v)


def mag_exp(vals):
    """binary exponent of the largest magnitude (0 for an all-zero list)"""
    m = max((abs(v) for v in vals), default=0)
    return (math.frexp(float(m))[1] - 1) if m else 0


def scale_bucket(k):
    """coarse bucket of a binary exponent for the evidence distribution"""
    if k == 0:
        return "2^0"
    a = abs(k)
    lo = 0 if a < 13 else 13 if a < 26 else 26 if a < 40 else 40 if a < 52 else 52 if a < 100 else 100
    return "2^%s%d.." % ("-" if k < 0 else "+", lo)


def only_root_near_unit(pw, s0):
    """exact: s0 is a root of the polynomial pw (ascending rationals, degree <= 3) and the cofactor pw / (s - s0) has no
    root - real, or complex with |imaginary part| <= 1/8 - whose real part lies in [-1/8, 9/8]"""
    n = len(pw) - 1
    # synthetic division by (s - s0)
    q = [Fr(0)] * n
    carry = Fr(0)
    for i in range(n, 0, -1):
        carry = pw[i] + carry * s0
        q[i - 1] = carry
    if pw[0] + carry * s0 != 0:
        return False
    while q and q[-1] == 0:
        q.pop()
    lo, hi = Fr(-1, 8), Fr(9, 8)
    if len(q) <= 1:
        return True
    if len(q) == 2:
        r = -q[0] / q[1]
        return not (lo <= r <= hi)
    if len(q) > 3:
        return False
    c, b, a = q
    disc = b * b - 4 * a * c
    vertex = -b / (2 * a)
    if disc < 0:
        return not (lo <= vertex <= hi and -disc / (4 * a * a) <= Fr(1, 64))
    val = lambda t: (a * t + b) * t + c  # noqa
    if val(lo) * val(hi) <= 0:
        return False
    if lo <= vertex <= hi and val(vertex) * val(lo) <= 0:
        return False
    return True


def guarded(res, name, fn, arr, rc):
    """call fn on the caller's float64 coefficient array and check that the array still holds the given polynomial afterwards
    (a root finder that rewrites its argument answers a later query - or the caller's own check of the roots - for another
    polynomial)"""
    work = np.array(arr, dtype=np.float64, copy=True)
    out = fn(work)
    if work.shape != np.shape(arr) or not np.array_equal(work, np.asarray(arr, dtype=np.float64), equal_nan=True):
        res.failure("input-mutated:" + name, "%s changed its coefficient argument from %s to %s" % (name, np.asarray(arr).tolist(), work.tolist()), rc)
    return out


def main():
    run = Run()
    rep = C.replay_case()
    run.run(rep)
    run.res.emit()
    if rep:
        bad = bool(run.res.failures)
        print("replay: " + ("property fails on this input: " + run.res.failures[0]["what"] if bad
                            else "property holds on this input"))
        sys.exit(1 if bad else 0)


main()
