"""C20 — overlapping curves are reported as a shared segment, never dropped: oracle (real code vs
closed-form shared arc) + correspondence for the collinear-segment logic.

impl  : _geometric_intersection.all_intersections (shim: pure / compiled), Curve.intersect (both strategies)
spec  : sub-arcs [a,b], [c,d] of one certified injective parent share exactly the parent interval
        [max(a,c), min(b,d)]; collinear lattice segments: exact rational overlap.
"""
import itertools
import sys
import numpy as np
from fractions import Fraction as Fr
import common as C
import exact as X
import gen as G
import pipeline as PL

TOL = Fr(1, 2 ** 30)


def injective_parent(rnd, n):
    """dyadic control points with strictly increasing x (hodograph in an open half-plane): regular + injective"""
    xs = [Fr(0)]
    for _ in range(n):
        xs.append(xs[-1] + Fr(rnd.randint(1, 8), 2))
    ys = [Fr(rnd.randint(-16, 16), 2) for _ in range(n + 1)]
    if n >= 2 and all((ys[i + 1] - ys[i]) * (xs[1] - xs[0]) == (ys[1] - ys[0]) * (xs[i + 1] - xs[i]) for i in range(n)):
        ys[-1] += 3          # not a straight line presented with a higher degree
    return [xs, ys]


def sub_arc(parent, a, b):
    return [X.specialize_exact(r, a, b) for r in parent]


def exactly_representable(nodes):
    return all(C.is_exact_float(x) for r in nodes for x in r)


def expected_overlap(a, b, c, d):
    """parent-parameter interval shared by [a,b] (a<b) and the arc between c and d (either order)"""
    lo2, hi2 = min(c, d), max(c, d)
    lo, hi = max(a, lo2), min(b, hi2)
    return lo, hi


def main():
    bezier = C.import_bezier()
    from bezier import _geometric_intersection as GI
    from bezier.hazmat.intersection_helpers import IntersectionStrategy
    rnd, seed = C.rng()
    thorough = C.tier() == "thorough"
    cfg = C.config_name()
    res = C.Result("C20")
    rep = C.replay_case()
    cases = []

    def add(kind, **kw):
        cases.append((kind, kw))

    if rep:
        kw = dict(rep["kw"])
        for k in ("n1", "n2"):
            kw[k] = [[Fr(x) for x in r] for r in kw[k]]
        for k in ("a", "b", "c", "d"):
            if kw.get(k) is not None:
                kw[k] = Fr(kw[k])
        add(rep["kind"], **kw)
    else:
        # ---- sub-arcs of a common parent
        grid = [Fr(k, 8) for k in range(0, 9)]
        n_par = 12 if not thorough else 80
        for n in (1, 2, 3, 4, 5):
            for _ in range(n_par // 5 + 1):
                parent = injective_parent(rnd, n)
                combos = []
                for _ in range(14 if not thorough else 60):
                    a, b = sorted(rnd.sample(grid, 2))
                    c, d = rnd.sample(grid, 2)
                    combos.append((a, b, c, d))
                # forced relative positions: identical, nested, touching, disjoint, reversed
                combos += [(Fr(0), Fr(1), Fr(0), Fr(1)), (Fr(0), Fr(1), Fr(1), Fr(0)), (Fr(0), Fr(1, 2), Fr(1, 2), Fr(1)),
                           (Fr(0), Fr(1, 2), Fr(1), Fr(1, 2)), (Fr(1, 4), Fr(3, 4), Fr(0), Fr(1)), (Fr(0), Fr(1), Fr(1, 4), Fr(3, 4)),
                           (Fr(0), Fr(1, 4), Fr(1, 2), Fr(1)), (Fr(0), Fr(3, 4), Fr(1, 4), Fr(1)), (Fr(0), Fr(3, 4), Fr(1), Fr(1, 4))]
                for a, b, c, d in combos:
                    n1, n2 = sub_arc(parent, a, b), sub_arc(parent, c, d)
                    el = rnd.random() < 0.3
                    if el:
                        e2 = [X.elevate_exact(r) for r in n2]
                        if exactly_representable(e2):
                            n2 = e2
                        else:
                            el = False
                    if exactly_representable(n1) and exactly_representable(n2):
                        add("sub-arcs", n1=n1, n2=n2, a=a, b=b, c=c, d=d, degree=n, elevated=el)
        # ---- straight parents presented with a NON-LINEAR parametrisation: collinear, unevenly spaced control points of degree
        # 2..4 on a slanted line (regular and injective: x strictly increasing); their sub-arcs are curves with a non-zero
        # linearisation error whose control nets are all collinear - the candidate pairs reach the pruning stage
        # (convex_hull_collide on two segments -> line_line_collide) instead of the closed-form line / line branch
        for n in (2, 3, 4):
            for _ in range(3 if not thorough else 16):
                xs = [Fr(0)]
                for _ in range(n):
                    xs.append(xs[-1] + Fr(rnd.randint(1, 8), 2))
                if all(xs[i + 1] - xs[i] == xs[1] - xs[0] for i in range(n)):
                    xs[-1] += 2
                m, c0 = Fr(rnd.choice([1, -1, 2, -2, 3]), rnd.choice([1, 2, 4])), Fr(rnd.randint(-4, 4), 2)
                parent = [xs, [m * x + c0 for x in xs]]
                for a, b, c, d in [(Fr(0), Fr(3, 4), Fr(1, 4), Fr(1)), (Fr(0), Fr(1), Fr(1, 4), Fr(3, 4)), (Fr(1, 4), Fr(3, 4), Fr(0), Fr(1)),
                                   (Fr(0), Fr(3, 4), Fr(1), Fr(1, 4)), (Fr(0), Fr(1, 2), Fr(1, 2), Fr(1)), (Fr(0), Fr(1, 4), Fr(1, 2), Fr(1)),
                                   (Fr(1, 8), Fr(5, 8), Fr(7, 8), Fr(3, 8))]:
                    n1, n2 = sub_arc(parent, a, b), sub_arc(parent, c, d)
                    if exactly_representable(n1) and exactly_representable(n2):
                        add("sub-arcs", n1=n1, n2=n2, a=a, b=b, c=c, d=d, degree=n, elevated=False, straight=True)
        # ---- collinear lattice segments on the 5x5 grid (exhaustive in thorough, sampled in quick)
        pts = [(x, y) for x in range(5) for y in range(5)]
        segs = [(p, q) for p in pts for q in pts if p != q]
        coll = []
        for (p, q) in segs:
            for (r, s) in segs:
                d1 = (q[0] - p[0], q[1] - p[1])
                if d1[0] * (r[1] - p[1]) - d1[1] * (r[0] - p[0]) == 0 and d1[0] * (s[1] - p[1]) - d1[1] * (s[0] - p[0]) == 0:
                    coll.append((p, q, r, s))
        res.notes.append("collinear ordered segment pairs on the 5x5 lattice: %d" % len(coll))
        if not thorough:
            coll = rnd.sample(coll, 1500 if cfg == "speedup" else 500) + [((0, 0), (1, 0), (1, 0), (2, 0)), ((0, 0), (2, 0), (1, 0), (3, 0)),
                                                                              ((0, 0), (1, 0), (2, 0), (3, 0)), ((0, 0), (2, 2), (2, 2), (4, 4))]
        for p, q, r, s in coll:
            add("collinear", n1=[[Fr(p[0]), Fr(q[0])], [Fr(p[1]), Fr(q[1])]], n2=[[Fr(r[0]), Fr(s[0])], [Fr(r[1]), Fr(s[1])]])
        # ---- algebraic strategy must refuse overlapping input
        for n in (1, 2, 3):
            for _ in range(4):
                parent = injective_parent(rnd, n)
                add("algebraic-overlap", n1=sub_arc(parent, Fr(0), Fr(3, 4)), n2=sub_arc(parent, Fr(1, 4), Fr(1)))

    def call(n1, n2):
        try:
            pts, flag = GI.all_intersections(C.farr(n1), C.farr(n2))
            return "ok", np.asarray(pts), bool(flag)
        except NotImplementedError as exc:
            return "refused", str(exc)[:80], None
        except Exception as exc:  # noqa
            return "raised", type(exc).__name__ + ": " + str(exc)[:80], None

    # the Lean model of the whole pipeline on the same inputs (exact rationals, Newton iterates rounded to 64 bits)
    drv = C.Driver()
    midx = [PL.ask_all_intersections(drv, cfg, kw["n1"], kw["n2"]) if kind in ("sub-arcs", "collinear") else None for kind, kw in cases]
    mreplies = drv.run()

    def tie(kind, rc, st, pts, flag, mi):
        if mi is None:
            return
        impl = ("ok", [(float(pts[0, k]), float(pts[1, k])) for k in range(pts.shape[1])], flag) if st == "ok" else \
            ("exc", "NotImplementedError" if st == "refused" else pts.split(":")[0])
        same, why = PL.same_result(impl, mreplies[mi], tol=Fr(1, 2 ** 26))
        if not same:
            res.mismatch("all_intersections", rc, str(impl)[:300], str(mreplies[mi])[:300], why)

    refusals = 0
    total_overlap_cases = 0
    for (kind, kw), mi_ in zip(cases, midx):
        jkw = {k: (C.jfr(v) if k in ("n1", "n2") else (str(v) if isinstance(v, Fr) else v)) for k, v in kw.items()}
        rc = {"kind": kind, "kw": jkw}
        n1, n2 = kw["n1"], kw["n2"]
        if kind == "sub-arcs":
            a, b, c, d = kw["a"], kw["b"], kw["c"], kw["d"]
            lo, hi = expected_overlap(a, b, c, d)
            rel = "overlap" if lo < hi else ("touch" if lo == hi else "disjoint")
            res.count((kind, str(jkw)), kind=kind, relation=rel, degree=kw["degree"], reversed=(c > d), elevated=kw["elevated"])
            res.sample({"kind": kind, "degree": kw["degree"], "a,b,c,d": [str(a), str(b), str(c), str(d)], "relation": rel})
            st, pts, flag = call(n1, n2)
            tie(kind, rc, st, pts, flag, mi_)
            if rel != "disjoint":
                total_overlap_cases += 1
            if st == "refused":
                refusals += 1
                res.count(("refusal", str(jkw)), nontrivial=False, refusal=rel)
                continue
            if st == "raised":
                res.failure("overlap:raised-other-error", "sub-arcs [%s,%s] / [%s,%s] of a degree-%d parent: %s" % (a, b, c, d, kw["degree"], pts), rc)
                continue
            cols, nonfinite = C.finite_cols(pts)
            if nonfinite:
                res.failure("param-not-finite", "NaN / infinite parameter in %s" % pts.tolist(), rc)
            if rel == "overlap":
                want = [((p - a) / (b - a), (p - c) / (d - c)) for p in (lo, hi)]
                ok = flag and len(cols) == 2 and all(abs(g[0] - w[0]) <= TOL and abs(g[1] - w[1]) <= TOL for g, w in zip(cols, want))
                swapped = flag and len(cols) == 2 and c > d and all(abs(g[0] - w[0]) <= TOL and abs(g[1] - w[1]) <= TOL for g, w in zip(cols, want[::-1]))
                if not ok:
                    res.failure("overlap:opposite-direction:ordered-along-second-curve" if swapped else "overlap:missing-or-unflagged", "sub-arcs [%s,%s] / [%s,%s] (degree %d%s): returned %s flag=%s, expected %s flag=True" %
                                (a, b, c, d, kw["degree"], ", elevated" if kw["elevated"] else "", [(float(x), float(y)) for x, y in cols], flag,
                                 [(float(x), float(y)) for x, y in want]), rc)
            elif rel == "touch":
                want = ((lo - a) / (b - a), (lo - c) / (d - c))
                ok = (not flag) and len(cols) == 1 and abs(cols[0][0] - want[0]) <= TOL and abs(cols[0][1] - want[1]) <= TOL
                if not ok:
                    key = "touch:wrong"
                    if kw["degree"] == 1 and flag and len(cols) == 2 and cols[0] == cols[1]:
                        key = "check-lines:touching-collinear"
                    res.failure(key, "arcs touching at one point [%s,%s] / [%s,%s] (degree %d): returned %s flag=%s, expected one point %s, no flag" %
                                (a, b, c, d, kw["degree"], [(float(x), float(y)) for x, y in cols], flag, (float(want[0]), float(want[1]))), rc)
            else:
                if cols or flag:
                    res.failure("disjoint-arcs:spurious", "disjoint sub-arcs [%s,%s] / [%s,%s] of an injective parent: returned %s flag=%s" %
                                (a, b, c, d, [(float(x), float(y)) for x, y in cols], flag), rc)
        elif kind == "collinear":
            p, q = (n1[0][0], n1[1][0]), (n1[0][1], n1[1][1])
            r, s = (n2[0][0], n2[1][0]), (n2[0][1], n2[1][1])
            dx, dy = q[0] - p[0], q[1] - p[1]
            den = dx * dx + dy * dy
            sr = ((r[0] - p[0]) * dx + (r[1] - p[1]) * dy) / den
            ss = ((s[0] - p[0]) * dx + (s[1] - p[1]) * dy) / den
            lo, hi = max(Fr(0), min(sr, ss)), min(Fr(1), max(sr, ss))
            rel = "overlap" if lo < hi else ("touch" if lo == hi else "disjoint")
            res.count((kind, str(jkw)), kind=kind, relation=rel)
            st, pts, flag = call(n1, n2)
            tie(kind, rc, st, pts, flag, mi_)
            if st != "ok":
                res.failure("collinear:raised", "collinear segments %s-%s / %s-%s: %s %s" % (p, q, r, s, st, pts), rc)
                continue
            cols, nonfinite = C.finite_cols(pts)
            if nonfinite:
                res.failure("param-not-finite", "NaN / infinite parameter in %s" % pts.tolist(), rc)

            def tpar(sv):
                return (sv - sr) / (ss - sr)
            if rel == "overlap":
                want = [(lo, tpar(lo)), (hi, tpar(hi))]
                ok = flag and len(cols) == 2 and all(abs(g[0] - w[0]) <= TOL and abs(g[1] - w[1]) <= TOL for g, w in zip(cols, want))
                swapped = flag and len(cols) == 2 and ss < sr and all(abs(g[0] - w[0]) <= TOL and abs(g[1] - w[1]) <= TOL for g, w in zip(cols, want[::-1]))
                if not ok:
                    res.failure("overlap:opposite-direction:ordered-along-second-curve" if swapped else "collinear:overlap-wrong", "collinear segments %s-%s / %s-%s: returned %s flag=%s, expected %s flag=True" %
                                (p, q, r, s, [(float(x), float(y)) for x, y in cols], flag, [(float(x), float(y)) for x, y in want]), rc)
            elif rel == "touch":
                want = (lo, tpar(lo))
                ok = (not flag) and len(cols) == 1 and cols[0] == want
                if not ok:
                    key = "check-lines:touching-collinear" if (flag and len(cols) == 2 and cols[0] == cols[1] == want) else "collinear:touch-wrong"
                    res.failure(key, "collinear segments touching at one point %s-%s / %s-%s: returned %s flag=%s, expected one point %s and no flag" %
                                (p, q, r, s, [(float(x), float(y)) for x, y in cols], flag, (float(want[0]), float(want[1]))), rc)
            else:
                if cols or flag:
                    res.failure("collinear:disjoint-spurious", "disjoint collinear segments %s-%s / %s-%s: returned %s flag=%s" %
                                (p, q, r, s, [(float(x), float(y)) for x, y in cols], flag), rc)
        elif kind == "algebraic-overlap":
            res.count((kind, str(jkw)), kind=kind)
            c1 = bezier.Curve(C.farr(n1), len(n1[0]) - 1)
            c2 = bezier.Curve(C.farr(n2), len(n2[0]) - 1)
            try:
                out = c1.intersect(c2, strategy=IntersectionStrategy.ALGEBRAIC)
                res.failure("algebraic:overlap-not-refused:degree%d" % (len(n1[0]) - 1), "algebraic strategy returned normally (%d points) on overlapping degree-%d sub-arcs instead of raising NotImplementedError" % (np.asarray(out).shape[1], len(n1[0]) - 1), rc)
            except NotImplementedError:
                pass
            except Exception as exc:  # noqa
                res.failure("algebraic:overlap-wrong-error", "algebraic strategy raised %s on overlapping sub-arcs" % type(exc).__name__, rc)
    res.notes.append("refusals (NotImplementedError) on overlapping / touching sub-arcs: %d of %d" % (refusals, total_overlap_cases))
    res.emit()
    if rep:
        bad = bool(res.failures)
        print("replay: " + ("property fails on this input: " + res.failures[0]["what"] if bad else "property holds on this input"))
        sys.exit(1 if bad else 0)


main()
