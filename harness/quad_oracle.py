"""Oracle loop for the driver ops `agse_length` / `agse_poly` (Lean model of QUADPACK's adaptive `dqagse`,
lean/BezierVerif/Model/QuadratureAdaptive.lean, lean/Driver/Ops/QuadratureAdaptive.lean).

The model runs in exact rationals.  Its external real functions — `sqrt` inside the integrand `||B'(s)||` of
`compute_length`, and the power `x**1.5` of `dqk21`'s error heuristic — are answered by the CALLER: the op replies
`[0, kind, [key, ...]]` (kind 0 = sqrt, 1 = pow15) while oracle values are missing from the tables
`[sqrtTab, powTab]`; this module computes them with integer arithmetic (`math.isqrt` on scaled numerators) as
dyadic rationals within RELATIVE 2^-BITS (BITS = 96 > 90) of the real value, appends `[key, value]` and asks again.
All pending cases of a batch share one driver process per round; a run that bisects n times needs about 2n + 2
rounds (42 integrand keys of the two halves, then their two power keys).

Everything between the oracle calls is exact in the model and rounded in the library: discrete outcomes
(`last`, the interval lists, `ier`) may be compared only when the path is insensitive to perturbations of the
size of the rounding noise.  `perturbed(oracle, salt, bits)` builds an oracle whose values are multiplied by
`1 + d(key)`, `|d| <= 2^-bits`, `d` a deterministic hash of the key (so it is still a function): running the model
with two such oracles next to the exact one and finding the same path is the robustness test used by props/c12a.py.

    import quad_oracle as QO
    setup = QO.setup(epsabs, epsrel, limit)            # constants from Generated/Quadpack*.lean
    outs = QO.run_lengths(QO.tables_b64(), setup, thr, [nodes, ...])     # nodes = rows of Fractions
    # outs[i] = QO.Run(status 'ok', result, abserr, neval, ier, last, alist, blist, rlist, elist, iord, info, rounds, nkeys)
    #         | QO.Run(status 'closed', result, ...) for <= 2 nodes | status 'err'
"""
import hashlib
import os
import sys
from fractions import Fraction as Fr
from math import isqrt

import common as C
from extract_quadpack import read_generated

BITS = 96
if hasattr(sys, "set_int_max_str_digits"):
    sys.set_int_max_str_digits(0)      # an extrapolated result is a rational with thousands of digits
GEN_ADAPTIVE = os.path.join(os.path.dirname(os.path.dirname(os.path.abspath(__file__))), "lean", "BezierVerif",
                            "Generated", "QuadpackAdaptive.lean")

REALS = ["half_bisect", "c50_guard", "floor28", "c100", "one_ksgn", "roff_rel", "roff_shrink", "bad_eps", "bad_uflow",
         "small_factor", "ktmin_factor", "div_lo", "div_hi", "elg_irregular", "elg_floor", "elg_one"]
NATS = ["iroff3_from", "iroff12_max", "iroff3_max", "iroff2_max", "ktmin_max", "neval_mul", "neval_off", "limexp",
        "elg_nmin", "elg_nres"]


def generated():
    g = dict(read_generated())
    g.update(read_generated(GEN_ADAPTIVE))
    return g


def tables_b64(g=None):
    g = g or generated()
    return [g["qp_wg_b64"], g["qp_wgk_b64"], g["qp_xgk_b64"]]


def tables_decimal(g=None):
    g = g or generated()
    return [g["qp_wg"], g["qp_wgk"], g["qp_xgk"]]


def setup(epsabs, epsrel, limit, g=None):
    """the `consts` argument of the ops (see Driver/Ops/QuadratureAdaptive.lean), literals from the generated files"""
    g = g or generated()
    missing = [k for k in REALS + NATS if "qpa_" + k not in g]
    if missing:
        raise KeyError("Generated/QuadpackAdaptive.lean lacks: %s" % missing)
    return [Fr(epsabs), Fr(epsrel), int(limit), g["qpa_epmach"], g["qpa_uflow"], g["qpa_oflow"],
            [g["qpa_" + k] for k in REALS], [g["qpa_" + k] for k in NATS]]


# ------------------------------------------------------------------------------------------------ oracles
def sqrt_dyadic(y, bits=BITS):
    """dyadic rational r with |r - sqrt(y)| <= 2^-bits * sqrt(y)  (y >= 0 rational)"""
    y = Fr(y)
    if y < 0:
        raise ValueError("sqrt of a negative number asked: %s" % y)
    if y == 0:
        return Fr(0)
    bl = y.numerator.bit_length() - y.denominator.bit_length()        # y ~ 2^bl
    k = max(0, (2 * bits + 4 - bl) // 2 + 1)                              # y * 4^k >= 2^(2 bits + 2)
    return Fr(isqrt((y.numerator << (2 * k)) // y.denominator), 1 << k)


def dyadic(v, bits=BITS):
    """v rounded (towards zero) to a dyadic rational with relative error <= 2^-bits: keeps the model's numbers short"""
    v = Fr(v)
    if v == 0 or (v.denominator & (v.denominator - 1)) == 0:
        return v
    bl = abs(v.numerator).bit_length() - v.denominator.bit_length()
    k = max(0, bits + 4 - bl)
    n = (abs(v.numerator) << k) // v.denominator
    return Fr(n if v > 0 else -n, 1 << k)


def exact_oracle(kind, key):
    """kind 0: sqrt(key); kind 1: key**1.5 = key * sqrt(key)   (relative error <= 2^-BITS)"""
    if kind == 0:
        return sqrt_dyadic(key)
    x = Fr(key)
    if x < 0:
        raise ValueError("x**1.5 of a negative number asked: %s" % x)
    s = sqrt_dyadic(x)
    # keep the value short: the product of an arbitrary rational with a dyadic one, rounded to a dyadic number
    v = x * s
    if v == 0:
        return v
    bl = v.numerator.bit_length() - v.denominator.bit_length()
    k = max(0, BITS + 4 - bl)
    return Fr((v.numerator << k) // v.denominator, 1 << k)


def perturbed(salt, bits=47, base=exact_oracle):
    """oracle with values multiplied by 1 + d(key), |d| <= 2^-bits, d = hash(salt, kind, key)"""
    def orc(kind, key):
        v = base(kind, key)
        h = hashlib.blake2b(("%s|%d|%s" % (salt, kind, key)).encode(), digest_size=8).digest()
        d = Fr(int.from_bytes(h, "big") - (1 << 63), 1 << (63 + bits))
        return v * (1 + d)
    return orc


# ------------------------------------------------------------------------------------------------ oracle loop
class Run:
    __slots__ = ("status", "result", "abserr", "neval", "ier", "last", "alist", "blist", "rlist", "elist", "iord",
                 "info", "elgin", "rounds", "nkeys", "err")

    def __init__(self, **kw):
        for k in self.__slots__:
            setattr(self, k, kw.get(k))

    def path(self):
        """the discrete outcome: number of intervals, error code, the interval list in storage order, exit label,
        number of extrapolations, whether the result is the extrapolated one"""
        if self.status != "ok":
            return (self.status,)
        return (self.last, self.ier, tuple(self.alist), tuple(self.blist), tuple(int(x) for x in self.info[:2]),
                int(self.info[7]))


def _loop(requests, oracle, max_rounds):
    """requests: list of (op, args_before_oracles, args_after_oracles); oracle: one callable (kind, key) -> value
    for all requests, or a list with one callable per request"""
    n = len(requests)
    oracles = list(oracle) if isinstance(oracle, (list, tuple)) else [oracle] * n
    tabs = [[[], []] for _ in range(n)]
    out = [None] * n
    rounds = [0] * n
    pending = list(range(n))
    for _ in range(max_rounds):
        if not pending:
            break
        d = C.Driver()
        for i in pending:
            op, pre, post = requests[i]
            d.ask(op, *(list(pre) + [tabs[i]] + list(post)))
        nxt = []
        for i, (st, v) in zip(pending, d.run()):
            rounds[i] += 1
            nk = len(tabs[i][0]) + len(tabs[i][1])
            if st == "err":
                out[i] = Run(status="err", err=v, rounds=rounds[i], nkeys=nk)
            elif int(v[0]) == 1:
                out[i] = Run(status="ok", result=v[1], abserr=v[2], neval=int(v[3]), ier=int(v[4]), last=int(v[5]),
                             alist=v[6], blist=v[7], rlist=v[8], elist=v[9], iord=[int(x) for x in v[10]],
                             info=[int(x) for x in v[11]], elgin=v[12] if len(v) > 12 else [], rounds=rounds[i], nkeys=nk)
            elif int(v[0]) == 2:
                out[i] = Run(status="closed", result=v[1], ier=int(v[2]), rounds=rounds[i], nkeys=nk)
            else:
                kind = int(v[1])
                for key in v[2]:
                    tabs[i][kind].append([key, oracles[i](kind, key)])
                nxt.append(i)
        pending = nxt
    if pending:
        raise SystemExit("quad_oracle: oracle loop did not terminate for %d case(s)" % len(pending))
    return out


def run_lengths(tables, consts, thr, nets, oracle=exact_oracle, max_rounds=260):
    """`Model.Quad.lengthAdaptive` on every control net (rows of Fractions) of `nets`"""
    return _loop([("agse_length", [tables, consts, thr], [net]) for net in nets], oracle, max_rounds)


def run_polys(tables, consts, polys, oracle=exact_oracle, max_rounds=260):
    """`Model.Quad.dqagse` on polynomial integrands: polys = [(coeffs, a, b), ...] (only pow15 is external)"""
    return _loop([("agse_poly", [tables, consts], [cs, a, b]) for cs, a, b in polys], oracle, max_rounds)


def run_polys_multi(tables, items, oracle=exact_oracle, max_rounds=260):
    """items = [(consts, coeffs, a, b), ...]: every case with its own tolerances / limit"""
    return _loop([("agse_poly", [tables, consts], [cs, a, b]) for consts, cs, a, b in items], oracle, max_rounds)


def extern_oracle(fun, base=exact_oracle):
    """oracle for `agse_extern`: kind 0 answers the integrand `fun(x)` (exact rational value, handed over as a dyadic
    rational within relative 2^-BITS so that the model's sums stay dyadic), kind 1 the power"""
    def orc(kind, key):
        return dyadic(fun(Fr(key))) if kind == 0 else base(1, key)
    return orc


def run_extern(tables, items, salt=None, bits=47, max_rounds=260):
    """`Model.Quad.dqagse` on integrands supplied by the caller: items = [(consts, fun, a, b), ...], fun: Fraction ->
    Fraction.  With `salt` every oracle value is perturbed by a relative 2^-bits (see `perturbed`)."""
    orcs = []
    for _, fun, _, _ in items:
        o = extern_oracle(fun)
        orcs.append(perturbed(salt, bits, base=o) if salt else o)
    return _loop([("agse_extern", [tables, consts], [a, b]) for consts, _, a, b in items], orcs, max_rounds)


def elg_fragile(consts_list, runs, samples=6, level=Fr(1, 2 ** 52), seed=0):
    """CONDITIONING of the last extrapolation of each run.  The implementation accumulates `area` in binary64: every
    entry of the epsilon table carries an ABSOLUTE error of about u*|area| that is not correlated with the step size,
    and the epsilon algorithm amplifies it.  That noise cannot be produced through the oracles (integrand noise at a
    fixed abscissa is the same in consecutive areas and cancels in their differences).  So the last `dqelg` call of the
    model run (`elgin`) is repeated `samples` times with the table entries perturbed by +-level*|area| and the
    acceptance test `abserr <= max(epsabs, epsrel*|result|)` is re-evaluated: True = the decision flips or the result
    moves by more than its own error estimate, i.e. the extrapolation step is ill-conditioned at round-off level and the
    discrete path after it must not be compared."""
    import random
    rnd = random.Random(seed)
    d = C.Driver()
    plan = []
    for j, (consts, run) in enumerate(zip(consts_list, runs)):
        if run is None or run.status != "ok" or not run.elgin:
            continue
        n, nres = int(run.elgin[0]), int(run.elgin[3])
        # entries cut to 120 significant bits (dyadic): the question is one of conditioning, and the exact entries
        # (results of earlier extrapolations) are rationals with thousands of digits
        tab, r3 = [dyadic(x, 120) for x in run.elgin[1]], [dyadic(x, 120) for x in run.elgin[2]]
        area = dyadic(abs(tab[n - 1]), 20)
        base = d.ask("dqelg", consts, n, tab, r3, nres)
        idx = []
        for _ in range(samples):
            t2 = [x + level * area * Fr(rnd.randint(-1024, 1024), 1024) if k < n else x for k, x in enumerate(tab)]
            r2 = [x + level * area * Fr(rnd.randint(-1024, 1024), 1024) if k < min(nres, 3) else x for k, x in enumerate(r3)]
            idx.append(d.ask("dqelg", consts, n, t2, r2, nres))
        plan.append((j, base, idx, consts))
    out = [False] * len(runs)
    if not plan:
        return out
    rep = d.run()
    for j, base, idx, consts in plan:
        ea, er = Fr(consts[0]), Fr(consts[1])

        def verdict(v):
            res, err = v[2], v[3]
            return err <= max(ea, er * abs(res)), res, err
        st, v0 = rep[base]
        acc0, res0, err0 = verdict(v0)
        for i in idx:
            acc, res, err = verdict(rep[i][1])
            if acc != acc0 or abs(res - res0) > max(min(err0, err), level * 64 * abs(res0)):
                out[j] = True
    return out
