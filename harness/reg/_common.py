COMMON_ASSUME = [
    "the theorems are about the executable Lean model; the model is tied to /repo by the extractor (kernel-checked data) and by differential execution (algorithms)",
    "IEEE-754 binary64 round-to-nearest without overflow/underflow satisfies class IeeeLaws and the standard rounding model",
]
