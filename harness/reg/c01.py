"""registry entry of C01 (Lean files carrying the obligations, correspondence script, labels)"""
from reg._common import COMMON_ASSUME

ENTRY = {'extractors': ['translate_py.py', 'translate_f90.py'],
    'lean_files': ['Tables/SrcPyKernels.lean', 'Tables/SrcF90Kernels.lean', 'Tables/C01.lean', 'Props/C01.lean', 'Props/C01Rounding.lean', 'Lemmas/RoundingTables.lean'],
 'lemma_files': ['Lemmas/Shift.lean',
                 'Lemmas/Bridge.lean',
                 'Lemmas/VS.lean',
                 'Lemmas/Ieee.lean', 'Lemmas/Rounding.lean',
                 'Model/Basic.lean',
                 'Model/Curve.lean'],
 'script': 'props/c01.py',
 'rule': 'cases = (routine, degree, dimension, control net, parameter vector); E: integer nets x dyadic '
         'parameters with exact binary64 arithmetic (bitwise equality with the model); T: identity net (= '
         'every unit net) and random binary64 nets x parameters in [-1,2] incl. 0, 1 (tolerance 2(3n+3)u * '
         'sum|term|); non-trivial = degree >= 1 and net not all zero; distinct by hash of exact inputs',
 'partial': ['rounding theorem bary_rounding_py/f90: |fl-model - Bernstein| <= ((1+u)^(3n+2)-1) * sum|term| in the '
             'standard model (no overflow/underflow, control values and s exactly representable); the '
             'comparator uses 2(3n+3)u >= that bound; that binary64 satisfies the standard model is trusted'],
 'trusted_base': ['modelled not verified: evaluate_multi_vs / evaluate_multi_de_casteljau / '
                  'evaluate_multi_barycentric / evaluate_multi in curve_helpers.py and curve.f90; '
                  'Curve.evaluate(_multi) glue'],
 'assumptions': ['the theorems are about the executable Lean model; the model is tied to /repo by the '
                 'extractor (kernel-checked data) and by differential execution (algorithms)',
                 'IEEE-754 binary64 round-to-nearest without overflow/underflow satisfies class IeeeLaws and '
                 'the standard rounding model']}
