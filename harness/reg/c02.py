"""registry entry of C02 (Lean files carrying the obligations, oracle script, labels)"""
from reg._common import COMMON_ASSUME

ENTRY = {
    'lean_files': ['Tables/C02.lean', 'Props/C02.lean', 'Props/C02Pipeline.lean', 'Props/C02Concrete.lean', 'Props/C02Newton.lean'],
    'lemma_files': ['Lemmas/NewtonGate.lean', 'Model/Newton.lean', 'Lemmas/Solve2x2.lean', 'Lemmas/Lipschitz.lean', 'Lemmas/EvalBary.lean', 'Lemmas/Bridge.lean',
                    'Lemmas/Shift.lean', 'Lemmas/VS.lean', 'Model/Solve2x2.lean', 'Model/Curve.lean', 'Model/Basic.lean'],
    'script': 'props/c02.py',
    'rule': 'cases = (ordered pair of planar control nets of degree 1..8, strategy GEOMETRIC|ALGEBRAIC, route Curve.intersect | '
            'all_intersections); inputs: 5x5 lattice nets of degree 1..4 (shared end points, touching boxes, repeated nodes, '
            'collinear / axis-parallel nets), random smooth binary64 nets (with power-of-two scales and offsets), planted '
            'crossings at dyadic parameters incl. end points, planted tangencies (tangent line, exact shear, parallel end legs), '
            'overlapping sub-arcs of a common parent, the repository curve zoo (quick: all 53 listed pairs in both orders + 8 '
            'seeded partners per curve, >= 600 ordered pairs; thorough: all 5929); every net exactly representable in binary64. '
            'Per returned column: 0 <= s,t <= 1 and the residual max|B1(s)-B2(t)| evaluated in exact rationals <= 2^-26 * size '
            '(size = max(1, max |coordinate|)); on pairs the exact isolator certifies as all-simple with |sin| >= 2^-7 and for the '
            'geometric strategy additionally <= 3 (L1+L2) NEWTON_ERROR_RATIO + 64 (n1+n2+2) u size with the extracted ratio. '
            'Exceptions are counted by type, not failures. non-trivial = call returned at least one column; distinct by hash of '
            'exact nets, strategy, route',
    'partial': ['Lean: component theorems only: solve2x2 exact in both pivot branches / singular iff det = 0 / unique solution; '
                'Lipschitz constant n*max|dv| from the control polygon (curve_lipschitz, newton_gate_partial, residual_near_root); '
                'second-order Newton gate in real arithmetic (curve_taylor, newton_gate with the defect of the linear solve as an '
                'explicit term, newton_step_residual: after the step returned by Model.solve2x2 for the hodograph Jacobian the '
                'residual is <= ds^2 n1(n1-1)/2 M1 + dt^2 n2(n2-1)/2 M2). Not proved: the floating-point defect of the step, the '
                'exit test in binary64, wiggle_interval, and the pipeline (which candidates reach Newton, the Gauss-Newton '
                'double-root regime, de-duplication) - see Model/Geometric (later) - so the property itself rests on the oracle runs',
                'enforced constant 2^-26 * size instead of "order of 2^-30 * size": the tangential (double-root) Newton exit accepts '
                'closest-approach points with a gap of about 2^-27 * size; the measured distribution of log2(residual/size) is in '
                'the evidence'],
    'trusted_base': ['harness/isolate.py (exact rational subdivision + Krawczyk certificates; validated against sympy resultants '
                     'on 240 pairs and against the 33 standard cases of curve_intersections.json) for the classification of inputs '
                     'and the tight bound',
                     'modelled not verified: helpers.solve2x2 (Python and Fortran) by Model.solve2x2; everything else of the '
                     'intersection pipeline is exercised, not modelled'],
    'assumptions': COMMON_ASSUME,
}
