"""registry entry of C02 (Lean files carrying the obligations, oracle script, labels)"""
from reg._common import COMMON_ASSUME

ENTRY = {
    'extractors': ['translate_py.py', 'translate_f90.py'],
    'lean_files': ['Tables/SrcPyAlgebraic.lean', 'Tables/SrcPyPipeline.lean', 'Tables/SrcPyNewton.lean', 'Tables/SrcF90Pipeline.lean', 'Tables/C02.lean', 'Props/C02.lean', 'Props/C02Pipeline.lean', 'Props/C02Concrete.lean', 'Props/C02Newton.lean', 'Props/C02Rounding.lean'],
    'lemma_files': ['Lemmas/RoundingNewton.lean', 'Lemmas/RoundingDeriv.lean', 'Lemmas/RoundingMore.lean', 'Lemmas/Rounding.lean', 'Lemmas/NewtonGate.lean', 'Model/Newton.lean', 'Lemmas/Solve2x2.lean', 'Lemmas/Lipschitz.lean', 'Lemmas/EvalBary.lean', 'Lemmas/Bridge.lean',
                    'Lemmas/Shift.lean', 'Lemmas/VS.lean', 'Model/Solve2x2.lean', 'Model/Curve.lean', 'Model/Basic.lean'],
    'script': 'props/c02.py',
    'rule': 'cases = (ordered pair of planar control nets of degree 1..8, strategy GEOMETRIC|ALGEBRAIC, route Curve.intersect | '
            'all_intersections); inputs: 5x5 lattice nets of degree 1..4 (shared end points, touching boxes, repeated nodes, '
            'collinear / axis-parallel nets), random smooth binary64 nets (with power-of-two scales and offsets), planted '
            'crossings at dyadic parameters incl. end points, planted tangencies (tangent line, exact shear, parallel end legs), '
            'overlapping sub-arcs of a common parent, the repository curve zoo (quick: all 53 listed pairs in both orders + 8 '
            'seeded partners per curve, >= 600 ordered pairs; thorough: all 5929); every net exactly representable in binary64. '
            'Per returned column: 0 <= s,t <= 1 and the residual max|B1(s)-B2(t)| evaluated in exact rationals <= 2^-26 * size '
            '(size = max(1, max |coordinate|)); on pairs the exact isolator certifies as all-simple with |sin| >= 2^-7 and for the '
            'geometric strategy additionally <= 3 (L1+L2) NEWTON_ERROR_RATIO + 64 (n1+n2+2) u size with the extracted ratio. '
            'Exceptions are counted by type, not failures. non-trivial = call returned at least one column; distinct by hash of '
            'exact nets, strategy, route',
    'partial': [
                'proved (any ordered field, both variants, unbounded): every parameter pair returned by the model of all_intersections - through check_lines, endpoint_check / tangent_bbox_intersection, from_linearized + full Newton, or coincident_parameters - lies in the unit square (C02Pipeline.params_in_unit_square over abstract primitives with contract PrimsOK; C02Concrete.concrete_params_in_unit_square for the concrete primitives of Model/GeometricInst with the library constants); add_intersection only appends',
                'proved, exact arithmetic: solve2x2 exact in both pivot branches / singular iff det = 0 / unique; the Jacobian of newton_simple is the hodograph; newtonIterate_converged_cases (a converged run left through the exact-zero exit or the small-step exit, for any solver / cut / rounding / fuel); simple_exit_residual + simple_converged_residual: on the simple-root route the returned pair has residual <= 2 ratioSq (C1 M1 + C2 M2) (second-order Taylor bound with explicit Lipschitz constants from the control polygon); with a rounding of the iterate an extra eps (n1 D1 + n2 D2)',
                'proved negative: the double-root (Gauss-Newton) exit gives NO residual bound - three kernel-decided counterexamples (C02Newton.double_root_exit_no_bound_counterexample*), one of them the listed finding F-L; so for tangential inputs the property rests on the oracle runs and is known to fail there',
                'rounded arithmetic (Props/C02Rounding, standard model): solve2x2 in both pivot branches (3k+7 / 2k+4 roundings under lower bounds on the pivot and on the eliminated denominator), the six numbers of newton_simple (k = 3 max(n1,n2)+3), one whole Newton step, the exit test ((1-u)^2 |d|^2 < (1+u)^3 ratio^2 |p|^2, factor 1+6u), and a floating-point version of the exit residual bound; NOT proved: the whole newton_iterate loop in rounded arithmetic (only one step and the exit test); tied by the end-to-end correspondence of the Lean pipeline model with both implementations, which the C03, C18 and C20 checks run on every case',
                'enforced constant 2^-26 * size instead of "order of 2^-30 * size": the tangential Newton exit accepts closest-approach points with a gap of about 2^-27 * size; the measured distribution of log2(residual/size) is in the evidence',
    ],
    'trusted_base': [
                'harness/isolate.py (exact rational subdivision + Krawczyk certificates; validated against sympy resultants on 240 pairs and against the 33 standard cases of curve_intersections.json) for the classification of inputs and the tight bound',
                "modelled, tied by correspondence (driver op all_intersections, exact rationals with the rounding of Newton iterates to 53 bits): geometric_intersection.all_intersections with Linearization, intersect_one_round, prune / coincident_parameters, check_lines, intersection_helpers.newton_iterate / full_newton(_nonzero), helpers.solve2x2, wiggle_interval, bbox predicates - Python and Fortran variants (Model/Geometric, GeometricInst, Newton, Helpers); not modelled: the algebraic strategy's eigenvalue solver (oracle only)",
    ],
    'assumptions': COMMON_ASSUME,
}
