"""registry entry of C03 (Lean files carrying the obligations, oracle script, labels)"""
from reg._common import COMMON_ASSUME

ENTRY = {
    'lean_files': ['Tables/C03.lean', 'Props/C03.lean', 'Props/C03Pipeline.lean', 'Props/C03Coverage.lean'],
    'lemma_files': ['Lemmas/Coverage.lean', 'Model/Geometric.lean', 'Model/GeometricInst.lean', 'Model/Helpers.lean', 'Model/Newton.lean', 'Model/Locate.lean', 'Lemmas/Pipeline.lean', 'Lemmas/TangentEnds.lean', 'Lemmas/EvalBary.lean', 'Lemmas/Bridge.lean', 'Lemmas/Shift.lean',
                    'Lemmas/VS.lean', 'Model/Curve.lean', 'Model/Basic.lean'],
    'script': 'props/c03.py',
    'rule': 'cases = (ordered pair of planar control nets, route Curve.intersect | all_intersections), geometric strategy; inputs as '
            'for C02 (degree 1..6 quick, 1..8 thorough; lattice, random, planted crossings incl. end points, tangencies, overlaps, '
            'curve zoo: quick >= 600 ordered pairs, thorough all 5929). Domain decided on the INPUT by the exact isolator '
            '(harness/isolate.py): status certified (the list of root boxes is exactly the solution set of B1(s)=B2(t) in the closed '
            'unit square, every root simple), sin^2(angle) >= 2^-14, pairwise max-norm separation >= 2^-16, every root parameter '
            'exactly 0/1 or within [2^-16, 1-2^-16]. Required: normal return, columns match the certified roots one to one (root box '
            'inflated by 2^-30). Strictly disjoint control-point boxes => shape (2,0) (both strategies). non-trivial = pair inside the '
            'domain; distinct by hash of exact nets and route',
    'partial': ['Lean: component theorems only (disjoint boxes => no common point; a coordinate attains the extreme of its control '
                'values only at end points unless all control values equal it => tangent boxes need end points only; decided '
                'counterexample showing the side condition is necessary); completeness of the subdivision / linearisation / Newton '
                'pipeline is not modelled here - see Model/Geometric (later) - so "no crossing is missed" rests on the oracle runs'],
    'trusted_base': ['harness/isolate.py (exact rational subdivision + Krawczyk certificates; validated against sympy resultants on '
                     '240 pairs and against the 33 standard cases of curve_intersections.json): the specification of the solution set',
                     'modelled not verified: bbox_intersect / tangent_bbox_intersection predicates (stated on Model.evalBary / evalPoint)'],
    'assumptions': COMMON_ASSUME,
}
