"""registry entry of C03 (Lean files carrying the obligations, oracle script, labels)"""
from reg._common import COMMON_ASSUME

ENTRY = {
    'extractors': ['translate_py.py', 'translate_f90.py'],
    'lean_files': ['Tables/SrcPyPipeline.lean', 'Tables/SrcPyNewton.lean', 'Tables/SrcF90Pipeline.lean', 'Tables/SrcPyKernels.lean', 'Tables/SrcPy.lean', 'Tables/C03.lean', 'Props/C03.lean', 'Props/C03Pipeline.lean', 'Props/C03Coverage.lean', 'Props/C03Trace.lean', 'Props/C03Tangent.lean', 'Props/C03BoxLine.lean'],
    'lemma_files': ['Lemmas/CoverageTangent.lean', 'Lemmas/CoverageBoxLine.lean', 'Lemmas/BoxLine.lean', 'Lemmas/SelfCover.lean', 'Lemmas/Overlap.lean', 'Model/GeometricTrace.lean', 'Lemmas/Coverage.lean', 'Model/Geometric.lean', 'Model/GeometricInst.lean', 'Model/Helpers.lean', 'Model/Newton.lean', 'Model/Locate.lean', 'Lemmas/Pipeline.lean', 'Lemmas/TangentEnds.lean', 'Lemmas/EvalBary.lean', 'Lemmas/Bridge.lean', 'Lemmas/Shift.lean',
                    'Lemmas/VS.lean', 'Model/Curve.lean', 'Model/Basic.lean'],
    'script': 'props/c03.py',
    'rule': 'cases = (ordered pair of planar control nets, route Curve.intersect | all_intersections), geometric strategy; inputs as '
            'for C02 (degree 1..6 quick, 1..8 thorough; lattice, random, planted crossings incl. end points, tangencies, overlaps, '
            'curve zoo: quick >= 600 ordered pairs, thorough all 5929). Domain decided on the INPUT by the exact isolator '
            '(harness/isolate.py): status certified (the list of root boxes is exactly the solution set of B1(s)=B2(t) in the closed '
            'unit square, every root simple), sin^2(angle) >= 2^-14, pairwise max-norm separation >= 2^-16, every root parameter '
            'exactly 0/1 or within [2^-16, 1-2^-16]. Required: normal return, columns match the certified roots one to one (root box '
            'inflated by 2^-30). Strictly disjoint control-point boxes => shape (2,0) (both strategies). non-trivial = pair inside the '
            'domain; distinct by hash of exact nets and route',
    'partial': [
                'proved (Props/C03, C03Pipeline, C03Coverage; any ordered field): disjoint control-point boxes => no common point and the pipeline model returns the empty set (all four linearisation cases); tangent boxes need end points only unless a coordinate is constant (decided counterexample for the side condition = finding F-E); budgets: rounds exhausted => ValueError, candidate budget => coincident_parameters decides, pruning only above the budget; de-duplication sound and complete with the extracted tolerance, distinct roots at distance d are never merged; subdivision covers: every true intersection covered by a candidate pair is covered by one of its four children, the children are faithful restrictions (C04 subdivision theorems); box_disjoint_sound: a candidate pair covering a true intersection is never rejected by the bbox test',
                'coverage invariant "every true intersection is covered by a live candidate pair or already accumulated": proved for rounds in which every pair is exact (curve/curve with non-tangent boxes, line/line with disjoint boxes) AND for tangent-box pairs (coverage_invariant_tangent_partial) provided neither input curve has a constant coordinate - the side condition is inherited by every sub-curve and is necessary (decided round on the F-E nets loses the crossing); bbox_line_intersect against the chord: a dropped mixed pair can only lose intersections in the delta-collar of the box of the curve piece, delta = distance of the true piece to its chord (hypothesis; for genuine lines the drop is sound), with a decided loss example in exact arithmetic (finding F-N family); NOT proved: from_linearized (Newton from the chord intersection), so "no crossing is missed" rests on the oracle runs there',
                'exactly-once: proved for the model that a root further than the tolerance from all accumulated ones is appended and one within it is dropped; that Newton started from two different candidate pairs converges to the same root within that tolerance is checked by the oracle only',
    ],
    'trusted_base': [
                'harness/isolate.py (exact rational subdivision + Krawczyk certificates; validated against sympy resultants on 240 pairs and against the 33 standard cases of curve_intersections.json): the specification of the solution set',
                'modelled, tied by end-to-end correspondence (455/455 quick cases per configuration agree): the whole geometric pipeline, see C02; additionally a step-level tie in the pure configuration: intersect_one_round of the running implementation is wrapped and the candidate list (kind, start, stop of both members, in order) entering every round and the accumulated intersections after it are compared with Model.allIntersectionsTrace (C03.trace_result: its result component is allIntersections); the Fortran pipeline has no such hook and is tied end to end only',
    ],
    'assumptions': COMMON_ASSUME,
}
