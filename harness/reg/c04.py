"""registry entry of C04 (Lean files carrying the obligations, correspondence script, labels)"""
from reg._common import COMMON_ASSUME

ENTRY = {'extractors': ['translate_f90.py', 'translate_py.py'],
    'lean_files': ['Tables/SrcPyCurve.lean', 'Tables/SrcF90Triangle.lean', 'Tables/SrcF90Kernels.lean', 'Tables/C04.lean', 'Props/C04.lean', 'Props/C04Rounding.lean'],
 'lemma_files': ['Lemmas/Rounding.lean', 'Lemmas/RoundingMore.lean', 'Lemmas/Shift.lean',
                 'Lemmas/Bridge.lean',
                 'Lemmas/Subdivide.lean',
                 'Model/Basic.lean',
                 'Model/Curve.lean'],
 'script': 'props/c04.py',
 'rule': 'cases = (routine, degree 1..32, dimension, net, [a,b]); operator extraction on the identity net (= '
         'every unit net); E: integer nets with dyadic a,b within the exactness budget (bitwise equality '
         "with the model's exact control points); T: binary64 nets / parameters (tolerance 4(3n+3)u * "
         'abs-blossom); junction: left[:, -1] == right[:, 0] bitwise on random binary64 nets; non-trivial = '
         'net not all zero; distinct by hash of exact inputs',
 'partial': [
                'rounding theorems (Props/C04Rounding, standard model): specialisation exponent 3n (generic, both variants), 3 / 6 for the Fortran closed forms with 2 / 3 nodes (the middle coefficient b + a - 2ab cancels: scale (1+M)^2 sum|v|, constant 13 for every M, 8 for M <= 1), subdivision exponent n+2; side condition DyadicExact (dyadic weights exact, true in binary64 for n <= 52) discharged in Lean for the computed matrices; the script comparators 4(3n+3)u and 13u sum|v|(1+M)^n exceed the proven bounds; that binary64 satisfies the standard model is trusted',
    ],
 'trusted_base': ['modelled not verified: subdivide_nodes / make_subdivision_matrices / specialize_curve in '
                  'curve_helpers.py and curve.f90; Curve.subdivide / Curve.specialize glue; BLAS computes '
                  'equal dot products identically (junction on the Python path)'],
 'assumptions': ['the theorems are about the executable Lean model; the model is tied to /repo by the '
                 'extractor (kernel-checked data) and by differential execution (algorithms)',
                 'IEEE-754 binary64 round-to-nearest without overflow/underflow satisfies class IeeeLaws and '
                 'the standard rounding model']}
