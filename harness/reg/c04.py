"""registry entry of C04 (Lean files carrying the obligations, correspondence script, labels)"""
from reg._common import COMMON_ASSUME

ENTRY = {'lean_files': ['Tables/C04.lean', 'Props/C04.lean'],
 'lemma_files': ['Lemmas/Shift.lean',
                 'Lemmas/Bridge.lean',
                 'Lemmas/Subdivide.lean',
                 'Model/Basic.lean',
                 'Model/Curve.lean'],
 'script': 'props/c04.py',
 'rule': 'cases = (routine, degree 1..32, dimension, net, [a,b]); operator extraction on the identity net (= '
         'every unit net); E: integer nets with dyadic a,b within the exactness budget (bitwise equality '
         "with the model's exact control points); T: binary64 nets / parameters (tolerance 4(3n+3)u * "
         'abs-blossom); junction: left[:, -1] == right[:, 0] bitwise on random binary64 nets; non-trivial = '
         'net not all zero; distinct by hash of exact inputs',
 'partial': [],
 'trusted_base': ['modelled not verified: subdivide_nodes / make_subdivision_matrices / specialize_curve in '
                  'curve_helpers.py and curve.f90; Curve.subdivide / Curve.specialize glue; BLAS computes '
                  'equal dot products identically (junction on the Python path)'],
 'assumptions': ['the theorems are about the executable Lean model; the model is tied to /repo by the '
                 'extractor (kernel-checked data) and by differential execution (algorithms)',
                 'IEEE-754 binary64 round-to-nearest without overflow/underflow satisfies class IeeeLaws and '
                 'the standard rounding model']}
