"""registry entry of C05 (Lean files carrying the obligations, correspondence script, labels)"""
from reg._common import COMMON_ASSUME

ENTRY = {
    'extractors': ['translate_py.py', 'translate_f90.py'],
    'lean_files': ['Tables/SrcPyTriangle.lean', 'Tables/SrcF90Kernels.lean', 'Tables/C05.lean', 'Props/C05.lean', 'Props/C05Rounding.lean', 'Lemmas/TriRoundingTables.lean', 'Props/C05RoundingF90.lean'],
    'lemma_files': ['Lemmas/RoundingMore.lean', 'Lemmas/Shift.lean', 'Lemmas/Shift2.lean', 'Lemmas/Bridge.lean', 'Lemmas/VS.lean',
                    'Lemmas/Ieee.lean', 'Lemmas/Subdivide.lean', 'Lemmas/Triangle.lean', 'Lemmas/Rounding.lean',
                    'Lemmas/RoundingTables.lean', 'Lemmas/TriRounding.lean',
                    'Model/Basic.lean', 'Model/Curve.lean', 'Model/Triangle.lean'],
    'script': 'props/c05.py',
    'rule': 'cases = (routine, degree, dimension, control net, weight triples / Cartesian pairs, verify flag); '
            'E: integer nets x dyadic weights within the exactness budget (bitwise equality with the model); '
            'T: identity net (= every unit net; sampled unit nets + all-ones net above degree 12) and random binary64 '
            'nets in dimensions 1..4 x corners, edge points, centroid, dyadic interior, points outside the triangle, '
            'random weights (tolerance 4(3d+6)u * sum|term|), degrees 1..12 and 28..32 (thorough 1..40); corners bitwise; '
            'compute_edge_nodes = boundary rows (exact); Triangle.edges curves = surface on the sides; verification of '
            'the class methods on boundary values; non-trivial = net not all zero; distinct by hash of exact inputs',
    'partial': [
                'rounding theorems (standard model |fl x - x| <= u|x|, data exactly representable): Python loop eval_rounding(_py) and Fortran loop eval_rounding_f90 (real binomial; the shipped int32 loop equals it for d <= 29: f90_int32_eq_real): |fl-model - Bernstein sum| <= ((1+u)^(2d+4)-1) * sum|term|; Cartesian entry points: 2d+4 against the computed weight fl(fl(1-s)-t), 4d+4 against the exact 1-s-t with |1-s|+|t| in the scale; the comparator constant 4(3d+6) u exceeds 1.01 (4d+4) u (eval_comparator, cartesian_comparator); that binary64 satisfies the standard model is trusted',
                'corners (1,0,0), (0,1,0) exact: proved under IeeeNatLaws (small integers exact) for degree <= 51 (Python) / <= 29 (Fortran int32); corner (0,0,1) for every degree',
    ],
    'trusted_base': ['modelled not verified: evaluate_barycentric / evaluate_barycentric_multi / evaluate_cartesian_multi / '
                     'compute_edge_nodes in triangle_helpers.py and triangle.f90; Triangle.evaluate_* / Triangle.edges glue; '
                     'gfortran wraps signed 32-bit overflow (the model of integer(c_int) arithmetic), checked by '
                     'differential execution at degrees 30..32'],
    'assumptions': COMMON_ASSUME + ['class IeeeNatLaws: products of integers below 2^53 and their exact quotients are '
                                    'exact in binary64'],
}
