"""registry entry of C06"""
from reg._common import COMMON_ASSUME

ENTRY = {
    'extractors': ['translate_py.py', 'translate_f90.py'],
    'lean_files': ['Tables/SrcF90Classify.lean', 'Tables/SrcPyClassify.lean', 'Tables/C06.lean', 'Props/C06.lean', 'Props/C06WalkBook.lean', 'Props/C06Walk.lean'],
    'lemma_files': ['Lemmas/ClassifyF90.lean', 'Model/Walk.lean', 'Lemmas/Walk.lean', 'Lemmas/WalkBook.lean', 'Model/Triangle.lean', 'Model/Geometric.lean', 'Model/GeometricInst.lean', 'Model/Helpers.lean', 'Lemmas/Classify.lean', 'Lemmas/Bridge.lean', 'Model/Basic.lean', 'Model/Curve.lean', 'Model/Classify.lean'],
    'script': 'props/c06.py',
    'scripts': ['props/c06.py', 'props/c06w.py'],
    'rule': '(a) every ordered pair of positively oriented lattice triangles on the 3x3 grid (76 triangles, 5 776 pairs, degree 1, '
            'both configurations, exhaustive in every tier) and on the 4x4 grid (516 triangles, 266 256 pairs: seeded sample in quick, '
            'exhaustive in thorough), the 3x3 pairs also presented exactly degree-elevated to 2 and 3 (coordinates scaled by the degree) '
            'and through Triangle.intersect with both strategies; judged by exact rational Sutherland-Hodgman clipping: total area '
            '(2^-40 relative), 0 <= start < end <= 1, edge index range, consecutive segments on different edges and chained within '
            '2^-40, positive orientation, vertex cycle / membership of lattice-refined sample points, [] for empty, the inner triangle '
            'for containment, argument order; (b) random certified-valid (positive Bernstein coefficients of det J) curved triangles of '
            'degree 1..4 (dyadic nets: affine lattice images + perturbations, incl. nested and box-disjoint pairs), function level, '
            'Triangle.intersect GEOMETRIC and ALGEBRAIC (NotImplementedError = refusal): certified area enclosure (adaptive exact '
            'chord-polygon clipping + exact Green slivers), winding-number membership of dyadic sample points, structural clauses, '
            '_make_intersection edges = exact sub-curves; (b2) pairs in which no edge meets an edge and the control nets mislead '
            '(harness/c06nest.py: a curved triangle of degree 2..4 strictly inside a triangle of degree 1..4 whose near side passes between '
            'a bulging edge and its control points - control points outside / on / inside the other control-net bounding box, every side of '
            'the box, straight, tilted, right-angled, concave and convex near edges; small triangles under a bulging edge or in the notch of a '
            'concave edge: disjoint with nested boxes), run first on a CPU-time budget, function level, Triangle.intersect GEOMETRIC and '
            'ALGEBRAIC, both argument orders, judged by the exact common area (point enclosure): the inner triangle itself / the empty list; '
            '(c) in the pure configuration every call of handle_ends / '
            'classify_intersection / classify_coincident / should_use / to_front / ends_to_curve / verify_edge_segments / bbox_intersect '
            'made during the degree-1 lattice runs is recorded and replayed through the Lean model (discrete results identical), plus '
            'an exhaustive tie lattice of corner configurations for classify_intersection; non-trivial = bounding boxes overlap; '
            'distinct by hash of exact inputs',
    'partial': ['the boundary walk is inside the model (Model/Walk.lean, Python and Fortran variants) and proved structurally (Props/C06Walk, '
                'C06WalkBook; any ordered field, intersection lists of any length): get_next_* returns the nearest acceptable node further '
                'along the same edge or the edge end; basic_interior_combine terminates inside max_edges or raises RuntimeError, every region '
                'is a closed chain of (node, get_next node) pairs linked by to_front, every kept intersection is met by some region; dispatch '
                'of tangent_only / combine_intersections by the set of classes incl. the error branches; add_intersection / check_unused / '
                'verify_duplicates bookkeeping (a corner seen from two edge pairs is stored once; counts 0, 1, 3 accepted, 2 or >= 4 raise - '
                'the known defect F-H is a decided instance); with verify=True every returned segment has 0 <= start < end <= 1 and '
                'consecutive segments lie on different edges; Python and Fortran walks agree on complete walkable lists (f90_walk_regions_eq)',
                'NOT proved: that the union of the returned regions IS the common region of the two triangles (area, membership) - this needs '
                'the completeness of the edge-edge intersections (C03, partial) and a Jordan-curve style argument for curved regions; it is '
                'established by the exhaustive / sampled comparison with exact clipping (straight) and certified area enclosures (curved)',
                'classification theorems (Props/C06.lean): transversal and near-tangent intersections incl. corner handling and the error '
                'branch, handle_ends, classify_coincident, should_use, to_front, ends_to_curve, verify_edge_segments, the bounding-box gate',
                'the known failures of the unchanged tree (touching collinear edges) are enumerated in known/C06-*.txt'],
    'trusted_base': ['modelled, tied by correspondence: the decision functions of triangle_helpers.py / triangle_intersection.py and the whole '
                     'boundary walk + bookkeeping (props/c06w.py: every lattice pair of the 3x3 grid, samples of the 4x4 and 5x5 grids and '
                     'dyadic triangles run through the complete generic_intersect model with the pipeline model as edge-edge primitive, '
                     'bit-exact in R64 mode; in the pure configuration additionally every recorded triangle_intersections / '
                     'combine_intersections / basic_interior_combine / verify_duplicates call); the compiled interior_combine is not exported '
                     'and is tied end to end only',
                     'trusted, not modelled: locate_point for curved containment (C10), harness/clip.py (exact rational oracle)'],
    'assumptions': COMMON_ASSUME,
}
