"""registry entry of C06"""
from reg._common import COMMON_ASSUME

ENTRY = {
    'lean_files': ['Tables/C06.lean', 'Props/C06.lean'],
    'lemma_files': ['Lemmas/Classify.lean', 'Lemmas/Bridge.lean', 'Model/Basic.lean', 'Model/Curve.lean', 'Model/Classify.lean'],
    'script': 'props/c06.py',
    'rule': '(a) every ordered pair of positively oriented lattice triangles on the 3x3 grid (76 triangles, 5 776 pairs, degree 1, '
            'both configurations, exhaustive in every tier) and on the 4x4 grid (516 triangles, 266 256 pairs: seeded sample in quick, '
            'exhaustive in thorough), the 3x3 pairs also presented exactly degree-elevated to 2 and 3 (coordinates scaled by the degree) '
            'and through Triangle.intersect with both strategies; judged by exact rational Sutherland-Hodgman clipping: total area '
            '(2^-40 relative), 0 <= start < end <= 1, edge index range, consecutive segments on different edges and chained within '
            '2^-40, positive orientation, vertex cycle / membership of lattice-refined sample points, [] for empty, the inner triangle '
            'for containment, argument order; (b) random certified-valid (positive Bernstein coefficients of det J) curved triangles of '
            'degree 1..4 (dyadic nets: affine lattice images + perturbations, incl. nested and box-disjoint pairs), function level, '
            'Triangle.intersect GEOMETRIC and ALGEBRAIC (NotImplementedError = refusal): certified area enclosure (adaptive exact '
            'chord-polygon clipping + exact Green slivers), winding-number membership of dyadic sample points, structural clauses, '
            '_make_intersection edges = exact sub-curves; (c) in the pure configuration every call of handle_ends / '
            'classify_intersection / classify_coincident / should_use / to_front / ends_to_curve / verify_edge_segments / bbox_intersect '
            'made during the degree-1 lattice runs is recorded and replayed through the Lean model (discrete results identical), plus '
            'an exhaustive tie lattice of corner configurations for classify_intersection; non-trivial = bounding boxes overlap; '
            'distinct by hash of exact inputs',
    'partial': ['the boundary walk (get_next*, basic_interior_combine, add_intersection bookkeeping, verify_duplicates, '
                'no_intersections / locate_point, tangent_only_intersections) is NOT proved: correctness of the returned regions is '
                'established by the exhaustive / sampled comparison with exact clipping only; proved (Props/C06.lean, any ordered '
                'field): classification of transversal and near-tangent intersections incl. corner handling and the error branch, '
                'handle_ends (closed form, preserves the point, normal form), classify_coincident, should_use, to_front, '
                'ends_to_curve (segments, index < 6, error branch), verify_edge_segments => well-formed segments, the bounding-box '
                'gate and its soundness on disjoint boxes; the known failures of the unchanged tree (touching collinear edges) are '
                'enumerated in known/C06-*.txt'],
    'trusted_base': ['modelled not verified: the decision functions of triangle_helpers.py / triangle_intersection.py listed above '
                     '(Fortran twins in triangle_intersection.f90 are compared through the results of the compiled configuration only); '
                     'trusted, not modelled: the boundary walk, curve-curve intersection (C02/C03), locate_point (C10), '
                     'harness/clip.py (exact rational oracle)'],
    'assumptions': COMMON_ASSUME,
}
