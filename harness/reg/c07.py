"""registry entry of C07"""
from reg._common import COMMON_ASSUME

ENTRY = {
    'lean_files': ['Tables/C07.lean', 'Tables/C04.lean', 'Tables/C08.lean', 'Tables/C12.lean', 'Props/C07.lean'],
    'lemma_files': ['Lemmas/Subdivide.lean', 'Lemmas/Elevate.lean', 'Model/Basic.lean', 'Model/Curve.lean', 'Model/Area.lean'],
    'script': 'props/c07.py',
    'configs': ['speedup'],
    'rule': 'the 36 (name -> pure / compiled) bindings of the six shim modules are enumerated from the AST on every run; each has a typed '
            'generator: dyadic-lattice inputs (exact arithmetic) => outputs, discrete outcomes and exception types must be identical; '
            'binary64 inputs => outputs within 256 u of the data scale (1e-9 for the iterative / conditioned ones); exhaustive '
            '3-point sequences on the 3x3 lattice + sampled longer ones for the hull; distinct by hash of exact inputs',
    'partial': ['equivalence theorems exist for the routines whose two implementations are different algorithms (curve subdivision, '
                'specialisation, elevation, reduction tables, shoelace tables, shared constants); the pipelines (curve / triangle '
                'intersection, locate) are compared by differential execution only'],
    'trusted_base': ['both implementations of every shim pair are modelled by one definition unless listed as Py./F90. variants; '
                     'Cython glue (_speedup.c is compiled as found; _speedup.pyx edits without regenerated C are invisible)'],
    'assumptions': COMMON_ASSUME,
}
