"""registry entry of C07"""
from reg._common import COMMON_ASSUME

ENTRY = {
    'extractors': ['translate_py.py', 'translate_f90.py'],
    'lean_files': ['Tables/SrcPyCurve.lean', 'Tables/SrcF90Classify.lean', 'Tables/SrcPyPipeline.lean', 'Tables/SrcF90Triangle.lean', 'Tables/SrcPyNewton.lean', 'Tables/SrcF90Pipeline.lean', 'Tables/SrcPyKernels.lean', 'Tables/SrcF90Kernels.lean', 'Tables/SrcPy.lean', 'Tables/SrcF90.lean', 'Tables/C07.lean', 'Tables/C04.lean', 'Tables/C08.lean', 'Tables/C12.lean', 'Props/C07.lean', 'Props/C07Variants.lean'],
    'lemma_files': ['Lemmas/ClassifyF90.lean', 'Lemmas/Variants.lean', 'Model/Geometric.lean', 'Model/GeometricInst.lean', 'Model/Newton.lean', 'Model/Helpers.lean', 'Model/Self.lean', 'Lemmas/Subdivide.lean', 'Lemmas/Elevate.lean', 'Model/Basic.lean', 'Model/Curve.lean', 'Model/Area.lean'],
    'script': 'props/c07.py',
    'configs': ['speedup'],
    'rule': 'the 36 (name -> pure / compiled) bindings of the six shim modules are enumerated from the AST on every run; each has a typed '
            'generator: dyadic-lattice inputs (exact arithmetic) => outputs, discrete outcomes and exception types must be identical; '
            'binary64 inputs => outputs within 256 u of the data scale (1e-9 for the iterative / conditioned ones); exhaustive '
            '3-point sequences on the 3x3 lattice + sampled longer ones for the hull; distinct by hash of exact inputs; shared arcs / shared curved '
            'triangle edges presented with different degrees (gap 0..4, either order, exact nets) must give the same discrete outcome',
    'partial': ['Props/C07Variants is a complete inventory of the model: every routine is either one definition for both implementations, or '
                'two variants proved equal (on every input: elevate, contains_nd, convex hull, cut rule and fullNewton since the repair '
                'ab67aa1, triangle evaluation with the real binomial, triangle locate; on a stated domain: subdivide / specialize on '
                'non-empty rows, in_sorted on sorted lists, triangle specialize for degree >= 1, the boundary walk on complete walkable '
                'lists), or two variants with the exact set of inputs on which they differ and a kernel-decided witness for each '
                '(is_separating on a zero direction, polygon_collide / convex_hull_collide on single-point hulls, the exception class of an '
                'invalid locate_point, tangent_only error class, the historical 32-bit binomial and the historical Newton cut rule)',
                'pipeline_variants_relation: for planar nets with two distinct control points the Python and the compiled all_intersections '
                'models return the same result, or Python raises ValueError exactly where the compiled code raises NotImplementedError (inside '
                'coincident_parameters); the _UNHANDLED_LINES exit of from_linearized is unreachable in exact arithmetic in both (unhandled_lines_unreachable); '
                'the same for self_intersections',
                'all of this is exact arithmetic; in binary64 the two implementations round differently (different operation orders) and are '
                'compared by differential execution with the tolerances of the rounding theorems; the triangle-intersection front end '
                '(add_intersection / add_st_val, edge-pair loop) has no equality theorem (finding F-H sits there)'],
    'trusted_base': ['both implementations of every shim pair are modelled by one definition unless listed as Py./F90. variants; '
                     'Cython glue (_speedup.c is compiled as found; _speedup.pyx edits without regenerated C are invisible)'],
    'assumptions': COMMON_ASSUME,
}
