"""registry entry of C08"""
from reg._common import COMMON_ASSUME

ENTRY = {
    'extractors': ['translate_f90.py', 'translate_py.py'],
    'lean_files': ['Tables/SrcPyCurve.lean', 'Tables/SrcF90Triangle.lean', 'Tables/SrcF90Kernels.lean', 'Tables/C08.lean', 'Props/C08.lean', 'Props/C08More.lean', 'Props/C08Triangle.lean', 'Props/C08Rounding.lean', 'Props/C08TriangleRounding.lean'],
    'lemma_files': ['Lemmas/RoundingTriElev.lean', 'Lemmas/RoundingTriPy.lean', 'Lemmas/Rounding.lean', 'Lemmas/RoundingMore.lean', 'Lemmas/TriDeriv.lean', 'Lemmas/Triangle.lean', 'Model/Triangle.lean', 'Lemmas/Shift.lean', 'Lemmas/Bridge.lean', 'Lemmas/VS.lean', 'Lemmas/Elevate.lean', 'Model/Basic.lean', 'Model/Curve.lean'],
    'script': 'props/c08.py',
    'rule': 'cases = (routine, number of nodes, dimension, net); elevation: scaled identity nets (all unit nets, outputs integral => '
            'bit-exact vs model), degrees 1..40, binary64 nets, end points bitwise, same-map test at dyadic parameters; reduction: '
            'all unit nets x420 (integral outputs, bit-exact) for 2..5 nodes against the exact Moore-Penrose inverse computed '
            'independently, 6..13 nodes must raise UnsupportedDegree; full reduction: k-fold elevations (k=0..3) of genuine nets at '
            'relative distance 0 / 2^-40 / 2^-20 from the elevated subspace; Triangle.elevate degrees 1..12 (exact formula, corners '
            'bitwise); non-trivial = net not all zero; distinct by hash of exact inputs',
    'partial': [
                'full reduction (Props/C08More, any ordered field, any dimension): can_reduce_elevate_nodes (an elevated net has projection error exactly 0), full_reduce_elevate_nodes, full_reduce_elevate_iter (k-fold elevation within the supported 5 nodes is stripped completely), full_reduce_strips_exactly (a net declined by maybe_reduce at the threshold comes back unchanged from any of its elevations: exactly the spurious elevations are removed); what is NOT proved is a data-independent criterion for maybe_reduce to decline (it depends on the threshold and the net: the script plants nets at graded distances from the elevated subspace)',
                'rounding theorems (Props/C08Rounding): elevation exponent 4 (Python) / 3 (Fortran) with scale |v_{j-1}|+|v_j|, reduction tables exponent N+3 <= 8; comparators 8u, 16u; triangle elevation (Props/C08TriangleRounding): exponent 5 (4 if fl is idempotent) under fl(d+1) = d+1, corners exact, comparator 16 u max|v|',
                'Triangle.elevate: proved for every degree (Props/C08Triangle): length, the three corners are copied exactly (raw, notation classes only - the statement behind the repaired defect F-I), the closed formula of every entry, and tri_elevate_same_map: the elevated net defines the same map (l1+l2+l3) * B(l) for all barycentric weights; tied to the code by the triangle elevation op of the driver',
    ],
    'trusted_base': ['modelled not verified: elevate_nodes / reduce_pseudo_inverse / projection_error / maybe_reduce / full_reduce in '
                     'curve_helpers.py and curve.f90; Curve.elevate / Curve.reduce_ / Triangle.elevate glue'],
    'assumptions': COMMON_ASSUME,
}
