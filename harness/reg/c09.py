"""registry entry of C09 (Lean files carrying the obligations, correspondence script, labels)"""
from reg._common import COMMON_ASSUME

ENTRY = {
    'lean_files': ['Tables/C09a.lean', 'Tables/C09b.lean', 'Props/C09.lean', 'Props/C09Rounding.lean'],
    'lemma_files': ['Lemmas/Rounding.lean', 'Lemmas/RoundingMore.lean', 'Lemmas/RoundingTriPy.lean', 'Lemmas/TriRounding.lean', 'Lemmas/Shift.lean', 'Lemmas/Shift2.lean', 'Lemmas/Bridge.lean', 'Lemmas/VS.lean',
                    'Lemmas/Ieee.lean', 'Lemmas/Subdivide.lean', 'Lemmas/Triangle.lean', 'Lemmas/TriSpecialize.lean', 'Lemmas/TriSpecializePy.lean',
                    'Model/Basic.lean', 'Model/Curve.lean', 'Model/Triangle.lean'],
    'script': 'props/c09.py',
    'rule': 'cases = (routine, degree 1..10 (thorough 1..14), dimension, control net, weight triples); operator '
            'extraction on the identity net (= every unit net) compared exactly with the integer blossom '
            'specification and with the model-derived matrices; E: integer / dyadic nets in dimensions 1..3 '
            '(bitwise equality with the model and the exact blossoms; shared boundary nodes of neighbouring pieces '
            'and the kept corners bitwise); T: binary64 nets / weights (tolerance 4(3d+6)u * abs-blossom); tables vs '
            'generic: specialize_triangle called directly with the six weights for every degree incl. 1..4; '
            'de_casteljau_one_round against one exact round; non-trivial = net not all zero; distinct by hash of '
            'exact inputs',
    'partial': [
                'rounding theorems (Props/C09Rounding): generic specialisation / subdivision, both variants: exponent 3d with the absolute blossom as scale (Python path under fl idempotent and weights representable); table path degree 1..4: exponent N+1; the comparator 4(3d+6)u exceeds all of them; NOT covered: the Fortran closed forms of subdivide_nodes for degree 1..4 are modelled as matrix products, so for the compiled configuration at d <= 4 the comparator constant remains an engineering bound on the operation order',
    ],
    'trusted_base': ['modelled not verified: subdivide_nodes / specialize_triangle / make_transform / reduced_to_matrix / '
                     'de_casteljau_one_round in triangle_helpers.py and triangle.f90; Triangle.subdivide glue; the six '
                     'weight literals inside the Fortran generic branch are read by the differential runs, not by the '
                     'extractor'],
    'assumptions': COMMON_ASSUME,
}
