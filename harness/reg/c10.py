"""registry entry of C10"""
from reg._common import COMMON_ASSUME

ENTRY = {
    'extractors': ['translate_py.py', 'translate_f90.py'],
    'lean_files': ['Tables/SrcF90Triangle.lean', 'Tables/SrcPyTriangleSub.lean', 'Tables/SrcPyTriangle.lean', 'Tables/C10.lean', 'Props/C10.lean', 'Tables/C10Triangle.lean', 'Props/C10Triangle.lean', 'Props/C10Rounding.lean'],
    'lemma_files': ['Lemmas/RoundingDeriv.lean', 'Lemmas/RoundingMore.lean', 'Lemmas/Rounding.lean', 'Lemmas/LocateTri.lean', 'Model/LocateTri.lean', 'Model/Triangle.lean', 'Model/TriDeriv.lean', 'Model/Helpers.lean', 'Lemmas/Locate.lean', 'Lemmas/Subdivide.lean', 'Lemmas/Bridge.lean', 'Model/Basic.lean', 'Model/Curve.lean', 'Model/Locate.lean'],
    'script': 'props/c10.py',
    'scripts': ['props/c10.py', 'props/c10t.py'],
    'rule': 'curves degree 1..8 in 2-D/3-D with strictly increasing x control values (hodograph in an open half-space: regular, injective), '
            'dyadic and binary64 nets; parameters: end points, dyadic break points k/2^m of the bisection, random interior; round trip '
            'locate(evaluate(s)) against s with the tolerance of one Newton step from the 2^-21 bisection resolution, result in [0,1], '
            'agreement with the exact Lean model (bisection + Newton); off-shape points at graded distances (outside the box / beyond the '
            'resolution => None); wrong point shape => ValueError; triangles degree 1..4 (perturbed affine lattices): corners, edges, dyadic '
            "and random interior points, outside-box points; families FAR and BOX-OFF (props/c10_far.py): the same nets translated by +-m 2^k "
            "(k up to 26, max|coordinate| / |B'| <= 2^26) with exactly representable on-shape points (end points / corners, dyadic break points "
            "within the binary64 bit budget), off-curve points at multiples of the final search resolution, and points strictly outside the "
            "control-point box from one ulp to 2^-16 of the coordinate size and 2^-30 .. 2^-12 of the extent, out of a face or a corner, from "
            "end nodes / corners / flat edges / shape points moved onto a face => None (curves and triangles, both entry points); "
            "distinct by hash of exact inputs",
    'partial': ['curves: round trip accuracy after the Newton step is validated numerically (proved: the filter never loses an on-curve point in '
                'exact arithmetic - filter_complete -, the pre-Newton estimate is within the spread cap, the Newton step fixes the true '
                'parameter, results lie in [0,1], off-box => None); binary64 rounding inside the filter is outside the model (finding F-F); Props/C10Rounding: one curve Newton step in rounded arithmetic is within ((1+u)^(6n+8+dim)-1)(|s| + (numAbs + |num| denAbs/|den|)/m) of the exact step under an explicit margin m on the denominator |dB|^2 - the allowance of the script 2^-44/reg + 2^-46 follows from it when the hodograph does not cancel',
                'triangles (Props/C10Triangle, model Model/LocateTri with Python and Fortran variants): the convex-hull property of triangle '
                'evaluation, the filter never loses a point of the surface (tri_filter_complete, via the C09 subdivision theorems), on-surface '
                '=> never None and off-box => None in exact arithmetic, the candidate bookkeeping (centroid, signed width) encodes exactly the '
                'sub-triangle and its nodes are the restriction of the surface (induction over the 21 rounds), the estimate lies in the open '
                'reference triangle, the result is one or two Newton steps from it (no clamp: a decided example returns t < 0 by 4e-14), exact '
                'pre-image = fixed point, Fortran early-return loop = Python loop, variants agree; NOT proved: the quantitative round trip '
                '(distance of the estimate to the pre-image, quadratic Newton bound) - validated numerically by props/c10t.py'],
    'trusted_base': ['modelled, tied by correspondence: locate_point / newton_refine of curve_helpers.py and curve.f90 (props/c10.py); locate_point / '
                     'update_locate_candidates / mean_centroid / newton_refine of triangle_intersection.py and .f90 (props/c10t.py: None-ness and '
                     '(s,t) bit for bit on exact data, candidate lists round by round in the pure configuration); Curve.locate / Triangle.locate glue '
                     'exercised'],
    'assumptions': COMMON_ASSUME,
}
