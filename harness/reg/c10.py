"""registry entry of C10"""
from reg._common import COMMON_ASSUME

ENTRY = {
    'lean_files': ['Tables/C10.lean', 'Props/C10.lean'],
    'lemma_files': ['Lemmas/Locate.lean', 'Lemmas/Subdivide.lean', 'Lemmas/Bridge.lean', 'Model/Basic.lean', 'Model/Curve.lean', 'Model/Locate.lean'],
    'script': 'props/c10.py',
    'rule': 'curves degree 1..8 in 2-D/3-D with strictly increasing x control values (hodograph in an open half-space: regular, injective), '
            'dyadic and binary64 nets; parameters: end points, dyadic break points k/2^m of the bisection, random interior; round trip '
            'locate(evaluate(s)) against s with the tolerance of one Newton step from the 2^-21 bisection resolution, result in [0,1], '
            'agreement with the exact Lean model (bisection + Newton); off-shape points at graded distances (outside the box / beyond the '
            'resolution => None); wrong point shape => ValueError; triangles degree 1..4 (perturbed affine lattices): corners, edges, dyadic '
            'and random interior points, outside-box points; distinct by hash of exact inputs',
    'partial': ['round trip accuracy after the Newton step is validated numerically (proved: the filter never loses an on-curve point in exact '
                'arithmetic - filter_complete -, the pre-Newton estimate is within the spread cap, the Newton step fixes the true parameter, '
                'results lie in [0,1], off-box => None); binary64 rounding inside the filter is outside the model (this is finding F-F); '
                'triangle locate is checked against the specification only until its model is linked'],
    'trusted_base': ['modelled not verified: locate_point / newton_refine in curve_helpers.py and curve.f90, Curve.locate glue; '
                     'spec-checked only: locate_point of triangle_intersection.py / .f90, Triangle.locate'],
    'assumptions': COMMON_ASSUME,
}
