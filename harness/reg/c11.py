"""registry entry of C11"""
from reg._common import COMMON_ASSUME

ENTRY = {
    'extractors': ['translate_py.py', 'translate_f90.py'],
    'lean_files': ['Tables/SrcPyCurve.lean', 'Tables/SrcPyPipeline.lean', 'Tables/SrcF90Triangle.lean', 'Tables/SrcPyTriangle.lean', 'Tables/SrcPyNewton.lean', 'Tables/SrcF90Pipeline.lean', 'Tables/SrcPyKernels.lean', 'Tables/SrcF90Kernels.lean', 'Props/C11.lean', 'Props/C11Triangle.lean', 'Props/C11Rounding.lean'],
    'lemma_files': ['Lemmas/RoundingDeriv.lean', 'Lemmas/RoundingMore.lean', 'Lemmas/Rounding.lean', 'Lemmas/TriRounding.lean', 'Lemmas/TriDeriv.lean', 'Model/TriDeriv.lean', 'Model/Triangle.lean', 'Lemmas/Deriv.lean', 'Lemmas/Shift.lean', 'Lemmas/Bridge.lean', 'Lemmas/VS.lean', 'Lemmas/Elevate.lean',
                    'Lemmas/Subdivide.lean', 'Model/Basic.lean', 'Model/Curve.lean'],
    'script': 'props/c11.py',
    'rule': 'curves degree 1..30: hodograph by operator extraction on the identity net (regime E at dyadic s, T at binary64 s), '
            'dims 1..4; curvature against (B\' x B\'\')/|B\'|^3 from exact power-basis derivatives; Newton steps (curve, curve-curve, '
            'triangle) against the exact solution of the linearised system, singular Jacobian must raise, exact hit is a no-op; '
            'triangles degree 1..10: Jacobian nets on all unit nets, Jacobian determinant by polarisation on pairs of unit nets at '
            'dyadic points (exact) and binary64 nets; distinct by hash of exact inputs; history independence: the ordinary Newton steps '
            '(curve, curve-curve, triangle) and curvatures are judged again right after unjudged calls at degenerate-but-valid inputs '
            '(B\'(s) = 0 exactly - cusps of degree 2..6(10), repeated end points, unit nets, point curves, underflow -, also reached through '
            'locate_point / Curve.locate; singular Jacobians; exact hits; zero tangent), the replay case carries the earlier calls; '
            'Newton steps near a critical point (s* +- 2^-k)',
    'partial': [
                'proved for every degree (Props/C11Triangle): the running indices of jacobian_s / jacobian_t, jacobian nets = formal partial derivatives (pderiv in MvPolynomial (Fin 2) K) of the surface polynomial, jacobian_det = x_s y_t - x_t y_s of those derivatives, the triangle Newton step solves the linearised 2x2 system uniquely when det != 0 (both code branches) and is a no-op on a zero residual; curves: hodograph = derivative for every degree, curvature formula, Newton steps (Props/C11)',
                'rounding theorems (Props/C11Rounding, standard model): hodograph exponent 3n+1 (3n+2 for lines), curvature numerator 3n+3 and <T,T> 3, Jacobian nets 2 per entry, jacobian_det 8d+6 (6 for d = 1) with scale X_s Y_t + Y_s X_t; the script comparators 2(3n+6), 4(3n+12), 4, 8(3d+6) exceed them where the scales coincide; NOT implied: the curvature tolerance uses exact second differences as scale (rigorous scale |D_{j+1}|+|D_j|), sqrt and the division by |T|^3 are not modelled, and the Cartesian scale uses |1-s|+|t| for lambda_1; the singular-Jacobian ValueError is compared on exact data only',
    ],
    'trusted_base': ['modelled not verified: evaluate_hodograph / get_curvature / newton_refine in curve_helpers.py and curve.f90; '
                     'spec-checked only: jacobian_both, jacobian_det (triangle_helpers.py, triangle.f90), newton_refine of '
                     'intersection_helpers.py / curve_intersection.f90 and triangle_intersection.py / .f90; libm sqrt in the curvature denominator'],
    'assumptions': COMMON_ASSUME,
}
