"""registry entry of C12"""
from reg._common import COMMON_ASSUME

ENTRY = {
    'lean_files': ['Tables/C12.lean', 'Props/C12.lean', 'Props/C12More.lean'],
    'lemma_files': ['Lemmas/TriDeriv.lean', 'Model/TriDeriv.lean', 'Lemmas/Green.lean', 'Model/Basic.lean', 'Model/Curve.lean', 'Model/Area.lean'],
    'script': 'props/c12.py',
    # the pure-Python compute_length needs SciPy, which only the tooling interpreter has
    'python': {'pure': '/usr/local/bin/python3-vt'},
    'rule': 'area: complete quadratic-form table of one edge on pairs of unit nets (x = scale*e_i, y = e_j; exact) for edge degrees '
            '1..4, integer and binary64 nets, degrees >= 5 must raise, closed chains of mixed degree incl. invariance under '
            'subdivision / elevation of the edges, Triangle.area against the exact double integral of det J (degrees 1..4) and '
            'CurvedPolygon.area; length: degrees 1..12 in 2-D/3-D from smooth / straight / nearly-cusped families against a '
            'composite Gauss-Legendre reference with self-estimated error (tolerance 2^-24 relative), chord/polygon bounds, '
            'additivity over subdivision; non-trivial = net not all zero; distinct by hash of exact inputs',
    'partial': ['length: the accuracy of the adaptive quadrature (QUADPACK dqagse / scipy.integrate.quad) is external and only '
                'cross-checked numerically; proved: the shoelace tables are the Green integral for every net (degrees 1..4), the '
                'error branches; the integrand identity vec_size^2 = |B\'(s)|^2 is C11.hodograph_is_derivative'],
    'trusted_base': ['modelled not verified: shoelace_for_area / compute_area in triangle_helpers.py and triangle.f90, Triangle.area, '
                     'CurvedPolygon.area glue; compute_length closed-form branches and integrand; trusted, not modelled: QUADPACK '
                     '(quadpack.f90) and scipy.integrate.quad'],
    'assumptions': COMMON_ASSUME,
}
