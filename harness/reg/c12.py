"""registry entry of C12"""
from reg._common import COMMON_ASSUME

ENTRY = {
    'lean_files': ['Tables/C12.lean', 'Props/C12.lean', 'Props/C12More.lean', 'Tables/C12Quad.lean', 'Props/C12Quad.lean', 'Tables/C12QuadAdaptive.lean', 'Props/C12QuadAdaptive.lean'],
    'lemma_files': ['Model/QuadratureAdaptive.lean', 'Lemmas/QuadratureAdaptive.lean', 'Model/Quadrature.lean', 'Lemmas/Quadrature.lean', 'Lemmas/QuadratureReal.lean', 'Lemmas/Deriv.lean', 'Lemmas/TriDeriv.lean', 'Model/TriDeriv.lean', 'Lemmas/Green.lean', 'Model/Basic.lean', 'Model/Curve.lean', 'Model/Area.lean'],
    'script': 'props/c12.py',
    'scripts': ['props/c12.py', 'props/c12q.py', 'props/c12a.py'],
    'extractors': ['extract_quadpack.py', 'extract_quadpack_adaptive.py'],
    # the pure-Python compute_length needs SciPy, which only the tooling interpreter has
    'python': {'pure': '/usr/local/bin/python3-vt'},
    'rule': 'area: complete quadratic-form table of one edge on pairs of unit nets (x = scale*e_i, y = e_j; exact) for edge degrees '
            '1..4, integer and binary64 nets, degrees >= 5 must raise, closed chains of mixed degree incl. invariance under '
            'subdivision / elevation of the edges, Triangle.area against the exact double integral of det J (degrees 1..4) and '
            'CurvedPolygon.area; length: degrees 1..12 in 2-D/3-D from smooth / straight / nearly-cusped families against a '
            'composite Gauss-Legendre reference with self-estimated error (tolerance 2^-24 relative), chord/polygon bounds, '
            'additivity over subdivision; non-trivial = net not all zero; distinct by hash of exact inputs',
    'partial': [
                "length: the non-adaptive core of the quadrature is inside the model (Model/Quadrature.lean: dqk21 with its running variables, the first-step exit test of dqagse, the integrand |B'(s)| with sqrt as a parameter) and tied to the source: the Gauss-Kronrod tables, loop bodies, call shapes and tolerances are extracted from quadpack.f90 / curve.f90 on every run (harness/extract_quadpack.py) and Tables/C12Quad proves by kernel evaluation that the extracted 21-point rule reproduces the moments up to 10^-33 for degree <= 31 (embedded Gauss rule: 2*10^-33 for degree <= 19), weights positive, nodes ordered; Props/C12Quad: the rule is linear and affine-invariant, exact on polynomials of degree <= 31 up to that residual, the raw error estimate vanishes on degree <= 19, the transcribed dqagse accepts after the first step there, first_step_polynomial_speed: for curves whose speed is a polynomial the first step returns the exact length up to eps/2 * sum|q_k| (also stated against Mathlib's interval integral over the reals); props/c12q.py ties Curve.length to the model on lines and Pythagorean-hodograph curves (degree <= 11) in both configurations",
                "the ADAPTIVE part is inside the model as well (Model/QuadratureAdaptive.lean: dqagse main loop with bisection, roundoff counters, ier codes and extrapolation control, dqelg epsilon table, dqpsrt ordering - statement by statement; harness/extract_quadpack_adaptive.py matches every executable statement of the three routines token for token against the modelled templates and extracts their literals, Tables/C12QuadAdaptive ties them to the model's constants); the model runs in exact arithmetic with sqrt and x^1.5 supplied through an oracle protocol (harness/quad_oracle.py, 2^-96 accuracy, also perturbed by 2^-47 / 2^-52 to recognise fragile discrete paths) and props/c12a.py compares Curve.length AND the routine itself (compiled dqagse through ctypes, scipy quad with full_output in the pure configuration): value, last, ier, neval, the interval / result / error lists and iord are identical on every robust case; proved (Props/C12QuadAdaptive): dqpsrt_spec (descending order of the listed errors, maxerr / ermax), agse_partition (the intervals always partition [a,b], area = sum rlist, errsum = sum elist exactly), the returned result is the first-step value, the sum of rlist or an extrapolated reseps, neval = 42 last - 21, consistency with the first-step model and exactness on polynomials of degree <= 19, totality (never out of fuel for limit >= 2); NOT proved: any accuracy statement for non-polynomial integrands (what the bisection / epsilon algorithm converge to) - checked numerically only; external: sqrt, x^1.5; SciPy's QUADPACK is trusted to be the same algorithm (every compared path was identical)",
                'area: proved for every net - the shoelace tables are the Green integral (edge degrees 1..4), the error branches; Props/C12More: the area of a triangle of degree 1..4 computed from its three edges equals the formal double integral of the Jacobian determinant, invariance under elevation of an edge (2..4 nodes), additivity under subdivision of an edge (2..5 nodes); a degree-independent formal Green theorem is not given (edges of degree >= 5 raise in the code anyway)',
    ],
    'trusted_base': ['modelled not verified: shoelace_for_area / compute_area in triangle_helpers.py and triangle.f90, Triangle.area, '
                     'CurvedPolygon.area glue; compute_length closed-form branches and integrand; trusted, not modelled: QUADPACK '
                     '(quadpack.f90) and scipy.integrate.quad'],
    'assumptions': COMMON_ASSUME,
}
