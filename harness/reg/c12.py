"""registry entry of C12"""
from reg._common import COMMON_ASSUME

ENTRY = {
    'lean_files': ['Tables/C12.lean', 'Props/C12.lean', 'Props/C12More.lean'],
    'lemma_files': ['Lemmas/TriDeriv.lean', 'Model/TriDeriv.lean', 'Lemmas/Green.lean', 'Model/Basic.lean', 'Model/Curve.lean', 'Model/Area.lean'],
    'script': 'props/c12.py',
    # the pure-Python compute_length needs SciPy, which only the tooling interpreter has
    'python': {'pure': '/usr/local/bin/python3-vt'},
    'rule': 'area: complete quadratic-form table of one edge on pairs of unit nets (x = scale*e_i, y = e_j; exact) for edge degrees '
            '1..4, integer and binary64 nets, degrees >= 5 must raise, closed chains of mixed degree incl. invariance under '
            'subdivision / elevation of the edges, Triangle.area against the exact double integral of det J (degrees 1..4) and '
            'CurvedPolygon.area; length: degrees 1..12 in 2-D/3-D from smooth / straight / nearly-cusped families against a '
            'composite Gauss-Legendre reference with self-estimated error (tolerance 2^-24 relative), chord/polygon bounds, '
            'additivity over subdivision; non-trivial = net not all zero; distinct by hash of exact inputs',
    'partial': [
                "length: the accuracy of the adaptive quadrature (QUADPACK dqagse / scipy.integrate.quad) is external and only cross-checked numerically (additivity under subdivision, invariance under elevation, closed forms for lines / parabolas); proved: the integrand identity vec_size^2 = |B'(s)|^2 (C11.hodograph_is_derivative)",
                'area: proved for every net - the shoelace tables are the Green integral (edge degrees 1..4), the error branches; Props/C12More: the area of a triangle of degree 1..4 computed from its three edges equals the formal double integral of the Jacobian determinant (triangle_area_is_det_integral_1..4), invariance under elevation of an edge (2..4 nodes), additivity under subdivision of an edge (2..5 nodes); a degree-independent formal Green theorem is not given (edges of degree >= 5 raise in the code anyway)',
    ],
    'trusted_base': ['modelled not verified: shoelace_for_area / compute_area in triangle_helpers.py and triangle.f90, Triangle.area, '
                     'CurvedPolygon.area glue; compute_length closed-form branches and integrand; trusted, not modelled: QUADPACK '
                     '(quadpack.f90) and scipy.integrate.quad'],
    'assumptions': COMMON_ASSUME,
}
