"""registry entry of C13"""
from reg._common import COMMON_ASSUME

ENTRY = {
    'extractors': ['translate_py.py', 'translate_f90.py'],
    'lean_files': ['Tables/SrcF90Triangle.lean', 'Tables/SrcPyTriangleCubic.lean', 'Tables/SrcPyTriangleSub.lean', 'Tables/C13.lean', 'Props/C13.lean'],
    'lemma_files': ['Lemmas/Valid.lean', 'Lemmas/Shift2.lean', 'Lemmas/Triangle.lean', 'Lemmas/TriSpecialize.lean', 'Model/Basic.lean',
                    'Model/Curve.lean', 'Model/Triangle.lean', 'Model/TriDeriv.lean', 'Model/Valid.lean'],
    'script': 'props/c13.py',
    'rule': 'triangles of degree 1..3 from perturbation families of graded amplitude (valid, marginal, folded, inverted orientation, collinear) '
            'on dyadic lattices (exact arithmetic: verdict must equal the model\'s) and with binary64 perturbations; verdict compared with an '
            'exact-rational Bernstein-subdivision certificate of det J (positive on the closed triangle / witness with det <= 0; undecidable margins make '
            'no claim); Bernstein coefficients of the Jacobian polynomial against the exact ones (integer nets: bit-exact); degree 4 and '
            'dimension 3 must raise; distinct by hash of exact inputs',
    'partial': [],
    'trusted_base': ['modelled not verified: quadratic/cubic_jacobian_polynomial, polynomial_sign (triangle_helpers.py), Triangle._compute_valid; '
                     'numpy.linalg.det for degree 1 is modelled by the 2x2 formula'],
    'assumptions': COMMON_ASSUME,
}
