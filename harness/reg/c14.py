"""registry entry of C14 (Lean files carrying the obligations, correspondence script, labels)"""
from reg._common import COMMON_ASSUME

ENTRY = {'lean_files': ['Tables/C14.lean', 'Props/C14.lean'],
 'lemma_files': ['Lemmas/Protocol.lean', 'Model/Protocol.lean', 'Model/Basic.lean'],
 'script': 'props/c14.py',
 'rule': 'cases = calls inside random histories (one seeded PRNG) of length 50..2000 mixing Curve.intersect of degree '
         '1..8 pairs with 0..15 results (Chebyshev graphs against transposed ones, lines, coincident / tangent / '
         'too-many-candidates pairs), Triangle.intersect of degree 1..3 (disjoint, contained, 1..4 polygons with up '
         'to 13 segments: both triangle workspaces grow), calls that raise (TypeError / ValueError / '
         'NotImplementedError / RuntimeError), locate / evaluate* / subdivide / elevate / reduce_ / specialize, cached '
         'Triangle.edges and area, CurvedPolygon.area, 33 shim helpers, and in the compiled configuration free_* / '
         'reset_* of the workspaces. Oracle: (i) every call is re-executed ALONE in a process forked from a template '
         'that imported bezier and never called it; results (dtype, shape, order flags, bytes; exception type) must be '
         'identical; (ii) compiled: curves_workspace_size() / triangle_workspace_sizes() after every call equal the '
         'state of the Lean machine driven with the observed counts (proto_run); (iii) content hashes (bytes, dtype, '
         'shape, strides, writeable) of every array passed in, returned earlier, held by a shape or cached as an edge '
         'are compared around every call; (iv) the same control points as nested lists, int32/int64 (C and Fortran '
         'order), float32, C-ordered, Fortran-ordered, non-contiguous and reversed-stride views, copy=False and '
         'from_nodes give identical values. A failing history is delta-debugged before it is reported. Thorough '
         'repeats (i)-(iii) under a -fcheck=all build. non-trivial = any call other than a constructor; distinct by '
         'hash of the resolved call (function, argument values, layouts)',
 'partial': [],
 'trusted_base': ['modelled not verified: module globals CURVES_WORKSPACE / SEGMENT_ENDS_WORKSPACE / SEGMENTS_WORKSPACE, '
                  'curve_intersections, triangle_intersections, _triangle_intersections_resize / _success, reset_* / free_* '
                  'and the size accessors of _speedup.pyx; all_intersections_abi / add_intersection / '
                  'free_curve_intersections_workspace of curve_intersection.f90; triangles_intersect_abi / '
                  'free_triangle_intersections_workspace of triangle_intersection.f90',
                  'trusted (parameters of the model): the numerical work itself as pure functions fc / ft (that the '
                  'subdivision process reads CANDIDATES_ODD/EVEN, POLYGON1/2 and the buffers of interior_combine only '
                  'after writing them is NOT proved; it is what the pristine-process comparison and the -fcheck=all '
                  'build test); np.empty / allocate return arbitrary contents (Junk); the capacity of the Fortran '
                  'allocatables is not observable (check_lines may over-allocate to 2 columns: only stale cells differ)',
                  'standalone extractor in harness/props/c14.py (regex on _speedup.pyx, _status.pxd, status.h, the '
                  '`# <<<<` source echoes of _speedup.c, the *_abi-only assignment of Status_INSUFFICIENT_SPACE) for '
                  'literals harness/extract.py does not produce',
                  'os.fork gives the child the exact memory image of the never-used template process'],
 'assumptions': [COMMON_ASSUME[0],
                 'World.Sound: all_intersections / triangles_intersect never set Status_INSUFFICIENT_SPACE themselves '
                 '(checked textually on every run: only *_abi routines assign it)',
                 'layout independence is claimed for the public shapes (their constructors normalise the input); the '
                 'compiled helper functions accept only Fortran-ordered float64 arrays by their type signature',
                 'pure-Python Curve.length / compute_length need SciPy (absent in /venv) and are exercised in the '
                 'compiled configuration only']}
