"""registry entry of C15 (Lean files carrying the obligations, oracle script, labels)"""
from reg._common import COMMON_ASSUME

ENTRY = {
    'lean_files': ['Tables/SrcPyAlgebraic.lean', 'Tables/C19.lean', 'Props/C15.lean', 'Props/C15Algebraic.lean'],
    'lemma_files': ['Lemmas/AlgebraicSound.lean', 'Lemmas/Resultant.lean', 'Model/AlgebraicAssembly.lean', 'Lemmas/Algebraic.lean', 'Model/Algebraic.lean', 'Model/Curve.lean', 'Model/Basic.lean'],
    'extractors': ['extract_algebraic.py', 'translate_py.py'],
    'script': 'props/c15.py',
    'rule': 'cases = (ordered pair of planar control nets, presentation (each curve exactly degree-elevated 0..2 times, both '
            'nets scaled by a common odd integer so that every presented coordinate is a binary64 number), route '
            'Curve.intersect | all_intersections) for all presented degree pairs (1..4)x(1..4): 5x5 lattice nets (shared end '
            'points, touching boxes, repeated nodes, axis-parallel / diagonal nets), random smooth nets with 24 fractional '
            'bits (power-of-two scales, offsets), planted crossings at dyadic parameters incl. end points, slightly perturbed '
            'elevated curves, the repository curve zoo (quick: 53 listed pairs in both orders + 6 seeded partners per curve; '
            'thorough: all 5929), curves of exact degree 5..6, supported pairs presented at degree 5..6. Reduced degrees = exact '
            'degrees (forward differences) of the un-elevated nets; pairs on which the library reduction (relative threshold) '
            'goes below the exact degree are outside. Domain decided on the un-elevated exact nets by harness/isolate.py: '
            'certified, every root sin^2 >= 2^-14, pairwise separation >= 2^-16, root parameters exactly 0/1 or in '
            '[2^-16, 1-2^-16]. In domain, reduced degree product <= 4: both strategies return normally and both column sets '
            'equal the certified root set (root boxes inflated by 2^-20). Products 6, 8, 9: every algebraic column has a geometric '
            'column within 2^-20 (inclusion); silent misses / refusals of the algebraic strategy there are pinned probes (tags, '
            'notes), not failures. Refusals: unsupported reduced pairs (3-4, 4-4, exact degree >= 5) => NotImplementedError; '
            'overlapping sub-arcs of a common parent (degree 1..4) => NotImplementedError; planted tangencies with reduced degree '
            'product <= 4 => NotImplementedError; strictly disjoint control-point boxes => both return shape (2,0). Triangle pairs '
            'of degree 1..2 (valid, dyadic perturbations of affine lattices, partially overlapping): Triangle.intersect gives the '
            'same number of regions and the same total area within 2^-30*size^2 under both strategies (NotImplementedError of the '
            'algebraic strategy is counted); on a deviation the nine edge pairs are examined with the isolator to name the cause. '
            'non-trivial = in-domain pair / refusal case with meeting boxes / triangle pair with a non-empty intersection; distinct '
            'by hash of the exact presented nets and route',
    'partial': [
                'the final assembly of the algebraic all_intersections (root loop, locate_point for the other parameter, Newton polish, wiggle_interval, swap back) is inside the model (Model/AlgebraicAssembly.lean) and tied to the code by an oracle protocol: the driver runs the exact model and asks the caller for every external numeric (np.sqrt, matrix_rank, polyroots, polyfit), which the script answers with numpy (props/c15.py: on the pairs where the implementation returns exactly the certified set, model and implementation agree on every pair)',
                'proved in exact arithmetic (Props/C15Algebraic): intersection_polynomial_root_iff (t is a root <=> the implicit function vanishes at B2(t) <=> a common point exists over every algebraically closed extension, for the hand-inverted pairs 1-1 .. 2-2); algebraic_sound (exact polyroots, exact locate, no nearly-real complex root in the window: every returned pair is the wiggle-snapped image of an exact solution, inside [0,1]^2); algebraic_complete (additionally square-free polynomial, injective located curve: every solution with parameters in [w, 1-w] is returned exactly once; solutions within the window outside are snapped); algebraic_total (every input returns or raises exactly one of the listed refusals, never RuntimeError); strategies_agree_spec (both strategies against the exact solution set: the geometric half only has the unit-square statement, its coverage is C03 partial)',
                'hypotheses that remain: exactness of the external polynomial root finder, ExactLocate at the queried points (false in general for the thresholded locate_point: decided example), square-freeness is assumed rather than derived from _check_non_simple, statements are about the reduced nets; the polyfit pairs 2-3, 2-4, 3-3 are covered by soundness and totality only',
                'equality is not claimed for degree products 6..9 (least-squares fit): silent misses there are measured and kept visible as pinned probes',
    ],
    'trusted_base': ['harness/isolate.py (exact rational subdivision + Krawczyk certificates): the specification of the solution '
                     'set and of the domain', 'exact resultant (Sylvester determinant over Q, interpolation) in props/c15.py: used '
                     'only to CLASSIFY refusals (square-free / repeated root / zero intersection polynomial), never to accept a '
                     'result'],
    'assumptions': COMMON_ASSUME,
}
