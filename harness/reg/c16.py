"""registry entry of C16 (Lean files carrying the obligations, correspondence script, labels)"""
from reg._common import COMMON_ASSUME

ENTRY = {'extractors': ['translate_py.py', 'translate_f90.py'],
 'lean_files': ['Tables/SrcPyKernels.lean', 'Tables/C16.lean', 'Tables/SrcPy.lean', 'Tables/SrcPyReal.lean', 'Tables/SrcF90.lean', 'Props/C16.lean', 'Props/C16Hull.lean', 'Props/C16More.lean'],
 'lemma_files': ['Lemmas/HullCorrect.lean', 'Lemmas/HullConvex.lean', 'Lemmas/BoxLine.lean', 'Lemmas/ClipRange.lean', 'Lemmas/NormReal.lean', 'Lemmas/Predicates.lean',
                 'Lemmas/PredicatesHull.lean',
                 'Lemmas/Bridge.lean',
                 'Lemmas/Shift.lean',
                 'Lemmas/VS.lean',
                 'Lemmas/Ieee.lean',
                 'Props/C01.lean',
                 'Model/Basic.lean',
                 'Model/Curve.lean',
                 'Model/Helpers.lean'],
 'script': 'props/c16.py',
 'rule': 'cases = (routine, exact inputs). Exhaustive: every point sequence of length <= 4 on the 4x4 lattice and <= 5 '
         'on the 3x3 lattice (quick; + seeded sample of length 5 resp. 6, 7) / length <= 5 resp. <= 7 (thorough) for '
         'simple_convex_hull; pairs of strictly convex lattice polygons with 1..4 vertices on the 4x4 lattice '
         '(thorough: all pairs; quick: all point/segment pairs, 3x3 pairs, seeded sample per size combination) for '
         'polygon_collide; ordered pairs of non-degenerate lattice segments (3x3: all; 5x5: all in thorough, seeded '
         'sample + forced parallel/collinear pairs in quick) for segment_intersection / parallel_lines_parameters / '
         'line_line_collide; lattice and float-tie boxes for bbox / bbox_intersect / contains_nd / in_interval; '
         'thresholds +- 1 ulp for wiggle_interval and vector_close; lattice + dyadic nets for clip_range / '
         'compute_fat_line / _update_parameters / bbox_line_intersect / convex_hull_collide / solve2x2 / '
         'is_separating / in_sorted / cross products / matrix_product; random binary64 polygons with gap or penetration '
         '2^-8 .. 2^-52; random curves of degree 1..8 for linearization_error and contains_nd of curve points. '
         'E: decisions equal to the model and to the exact rational reference, every quotient the correctly rounded '
         'exact quotient; T (two or more roundings, irrational norms): tolerance 8-64 u, decisions compared only for a '
         'clear margin. non-trivial = non-empty input; distinct by hash of exact inputs',
 'partial': ['np.unique (NumPy sort) is modelled by its result (lexicographically sorted distinct columns; sort_unique_spec)',
             'IEEE special values: where the code divides 0/0 on finite input the model returns Err.badInput '
             '(parallel_lines_parameters with a degenerate first segment) or transcribes the documented outcome of the NaN '
             'comparisons (is_separating with a zero edge direction: Python True, Fortran False)',
             'polygon_collide is exact unless all vertices of both polygons are collinear: there the separating-axis test over '
             'edge normals answers "collide" (safe side, counted in the evidence notes); the library routes segment pairs to '
             'line_line_collide; sat_safe_py needs the hypothesis "no zero edge direction" (sat_py_zero_edge_unsound)',
             'proved in full (Props/C16More, any ordered field, every input): the monotone-chain result IS the convex hull - '
             'hull_convex_polygon (>= 3 vertices, no repeats, strict left turns, every input point on or left of every edge), '
             'hull_is_convex_hull (Mathlib convexHull of the vertices = convexHull of the input), the collinear and < 3 point '
             'cases, convex_hull_collide_safe_f90 / _py (answer False => the hulls of the control nets are disjoint; Python needs '
             '>= 2 distinct points per net: finding py-polygon-collide:single-point-polygon:missed-hit); bbox_line_intersect exact on '
             'boxes with interior, general characterisation on degenerate boxes (finding bbox-line-intersect:degenerate-box:missed-hit); '
             'clip_range_contains_curve / clip_range_intersection (no intersection parameter is clipped away) with the exact error '
             'branches; vector_close / linearization_error: the squared model = the norm formulation over the reals with Real.sqrt '
             '(eps >= 0)',
             'binary64 rounding inside the predicates ("on general data they err only on the safe side") is NOT proved; it is '
             'checked by the graded-penetration families of the script (margins 2^-1 .. 2^-40)'],
 'trusted_base': ['modelled not verified: the routines of hazmat/helpers.py, hazmat/geometric_intersection.py (predicates), '
                  'hazmat/clipping.py, helpers.f90 and curve_intersection.f90 (predicates) named in Model/Helpers.lean; '
                  'the compiled convex_hull_collide is not exported and is exercised through its three exported pieces '
                  '(simple_convex_hull, polygon_collide, line_line_collide)',
                  'the exact rational reference geometry in harness/props/c16.py'],
 'assumptions': COMMON_ASSUME}
