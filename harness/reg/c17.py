"""registry entry of C17"""
from reg._common import COMMON_ASSUME

ENTRY = {
    'lean_files': ['Props/C17.lean', 'Props/C17Pipeline.lean', 'Props/C17Pipeline2.lean'],
    'lemma_files': ['Lemmas/Equivariance.lean', 'Lemmas/Shift.lean', 'Lemmas/Bridge.lean', 'Lemmas/VS.lean', 'Lemmas/Elevate.lean',
                    'Lemmas/Subdivide.lean', 'Props/C04.lean', 'Props/C08.lean', 'Model/Basic.lean', 'Model/Curve.lean',
                    'Lemmas/PipelineEquivariance.lean', 'Lemmas/PipelineTranslate.lean', 'Lemmas/PipelineLinear.lean', 'Lemmas/PipelineScale.lean', 'Lemmas/PipelineMirror.lean', 'Lemmas/BoxLine.lean', 'Lemmas/Solve2x2.lean', 'Lemmas/PipelineInst.lean', 'Lemmas/Pipeline.lean',
                    'Lemmas/Predicates.lean', 'Lemmas/PredicatesHull.lean', 'Model/Geometric.lean', 'Model/GeometricInst.lean',
                    'Model/Helpers.lean', 'Model/Newton.lean', 'Model/Locate.lean', 'Model/Solve2x2.lean'],
    'script': 'props/c17.py',
    'rule': 'curve pairs of degree 1..12 (5x5 lattice nets of degree 1..4, random dyadic nets with 2/4/10 fractional bits, smooth '
            'dyadic nets sweeping across each other, the dyadic pairs of the repository\'s curve zoo, hand-made junction / end-point / '
            'C03-family pairs) x 11 exact presentations (swap, reverse1, reverse2, elevate1|2, split1 (two calls), translate, axes, '
            'mirror, scale 2^-3, scale 2^5) + base, each accepted only when every transformed coordinate is a binary64 number; all '
            'reported parameter pairs are mapped back and pooled; a pooled point is claimed when its exact residual is <= 2^-40 size, '
            'sin^2 of the exact tangents >= 2^-14, both tangents >= 2^-6 size, every other pooled point is the same (2^-30) or >= 2^-16 '
            'away, and each parameter is >= 2^-16 from {0,1} or within 2^-45; every claimed point must occur exactly once in every '
            'presentation that returns; raises / flags judged when all pooled points are claimed; triangle pairs of degree 1..3 '
            '(perturbed affine lattices) x 6 presentations + base, judged when all edge/edge crossings are claimed and away from corners; '
            'distinct by hash of the exact nets',
    'partial': ['pipeline level (Props/C17Pipeline, Lemmas/PipelineEquivariance, Lemmas/PipelineTranslate): allIntersections_invariant - for ANY '
                'primitives and any transformation T of node arrays under which every primitive answers alike and subdivide / specialize / '
                'elevate commute (PrimsInvariant), the executable pipeline model returns the same result on the transformed pair, every '
                'fuel, every constants; for TRANSLATION in an ordered field every concrete primitive of both variants (boxes, box-segment '
                'test, linearisation error, segment / parallel-segment intersection, convex hull and separating axis, Newton with both '
                'cut rules, locate_point, subdivision, specialisation, elevation) is proved invariant EXCEPT vector_close, whose tolerance '
                'is relative to the norms of the position vectors: pipeline_translate_partial (its invariance as hypothesis), '
                'pipeline_translate_exact_close (eps = 0); the unrestricted statement is false - pipeline_translate_fails is a kernel-decided '
                'pair, reproduced on both builds of the real code, whose translate loses a reported column; that column is a tolerance-level '
                'near-intersection of two end points 2^-41 apart, not a common point of the curves, so it limits the theorem and is not a '
                'violation of the property; mirror and axis swap at pipeline level are not proved (blocked by the traversal order of '
                'simple_convex_hull; superseded by Props/C17Pipeline2)',
                'pipeline level, continued (Props/C17Pipeline2, Lemmas/PipelineLinear, PipelineScale, PipelineMirror): the generic theorem is generalised to two primitive records (allIntersections_related: P\' on transformed data answers like P on the original, the linearisation error transformed by a map E and compared with a rescaled threshold); SCALING k > 0: pipeline_scale_partial - invariant when the squared linearisation threshold is rescaled by k^2 (scale_threshold_matters is the decided witness that this absolute constant is the one behind the scale-dependence finding F-O), hypotheses vector_close (zero-vector branch compares with the absolute eps: decided refutation) and the double-root Newton iteration (mixes F ~ k with B1\' x B2\' ~ k^2: decided refutation); every other primitive of both variants proved scale invariant; MIRROR / AXIS SWAP: pipeline_mirror_partial, pipeline_swap_axes_partial - every primitive proved invariant (bbox_line_intersect on every box incl. degenerate ones, solve2x2 independent of the pivot rule by uniqueness, the double-root system literally equal) except convex_hull_collide, whose invariance is the single hypothesis (completeness of the separating-axis answer is not available); REVERSAL s -> 1-s is NOT an equivariance of the executable pipeline even up to relabelling: add_intersection and the Newton stopping rule are relative to the norm of (s,t) (reversal_not_equivariant, decided witnesses) - the real code is only required to agree on well-conditioned crossings, which the metamorphic oracle checks',
                'the other presentations (reverse, elevate, split, scale, argument swap) are specification level: the theorems state how the exact intersection set {(s,t) | B1(s) = B2(t)} of the list model '
                'is relabelled by each presentation (and that the bounding-box decision is invariant under the presentations that keep '
                'the control points); that the subdivision / Newton pipeline all_intersections and the triangle pipeline return this '
                'set is checked on the real code by the metamorphic oracle only',
                'scaling: the library\'s absolute thresholds make the subdivision depth scale dependent; only the claimed points are '
                'required to be invariant'],
    'trusted_base': ['spec-checked only: all_intersections / curve_intersections (geometric_intersection.py, curve_intersection.f90), '
                     'full_newton / newton_refine (intersection_helpers.py), Triangle.intersect (triangle_intersection.py / .f90), '
                     'CurvedPolygon.area; harness/exact.py for the exact residuals, tangents and transformed nets'],
    'assumptions': COMMON_ASSUME,
}
