"""registry entry of C18"""
from reg._common import COMMON_ASSUME

ENTRY = {
    'lean_files': ['Props/C18.lean', 'Props/C18Merge.lean', 'Props/C18Cover.lean', 'Props/C02Pipeline.lean'],
    'lemma_files': ['Lemmas/SelfCover.lean', 'Lemmas/Coverage.lean', 'Lemmas/PipelineInst.lean', 'Model/GeometricInst.lean', 'Model/Helpers.lean', 'Model/Newton.lean', 'Model/Locate.lean', 'Lemmas/Pipeline.lean', 'Lemmas/Lipschitz.lean', 'Lemmas/Subdivide.lean', 'Model/Basic.lean', 'Model/Curve.lean',
                    'Model/Geometric.lean', 'Model/Self.lean', 'Model/Solve2x2.lean'],
    'script': 'props/c18.py',
    'rule': 'curves of degree 2..8: the cubic loop with closed-form crossing, planted transversal self-crossings (nets built in exact '
            'integers so that B(a) = B(b) for dyadic a < b, exactly representable), curves whose hodograph lies in an open half-plane '
            '(must return empty), random nets with large turning angle (every returned pair must be genuine: exact residual, 0 <= s1 < s2 <= 1 '
            'with a gap), several branches through one point (B(a) = B(b) = B(c), four branches from degree 7; parameters anywhere, all in one half, '
            'on dyadic break points with an exactly representable net, or missing a common point by 2^-26 .. 2^-48: the crossings (a,b), (a,c), (b,c) '
            'share their parameters pairwise and each must be returned exactly once), the non-terminating net of finding F-G; the turning-angle decision against the algebraic model; distinct by hash of '
            'exact inputs',
    'partial': ['proved (Props/C18, C18Merge, C18Cover; any ordered field, any fuel): every returned pair has 0 <= s1 < s2 <= 1 and is never the split '
                'point; no pair is returned twice (self_intersections_nodup, after the repair 42a8a75); SOUNDNESS OF THE PRUNING TEST: the algebraic form of '
                'discrete_turning_angle < pi implies that all non-zero edges of the control polygon lie in an open half-plane and hence that a non-constant '
                'curve is injective (turning_below_pi_injective; the constant curve is the decided counter-example), so the pruned branch returns the '
                'complete, empty answer; coverage structure: every self-crossing is a self-crossing of a half or a true intersection of (left, right), '
                'seen twice exactly when a parameter equals 1/2; conditional completeness and soundness of the whole recursion '
                '(self_intersections_complete_cond / _sound_cond): if all_intersections is complete / sound on the pairs it is called on (the C03 property, '
                'taken as hypothesis) then every self-crossing is returned up to 2 eps and every returned pair is genuine',
                'not proved: completeness of all_intersections itself (C03, partial), the equivalence of the algebraic angle test with the floating atan2 sum '
                '(validated by correspondence), termination: the recursion has no bound (finding F-G, proved non-terminating on the model for every fuel); '
                'on the real code completeness is checked on planted crossings, certified crossings of random integer nets, nested planted crossings and the '
                'lens corpus'],
    'trusted_base': ['modelled not verified: self_intersections (geometric_intersection.py), discrete_turning_angle (curve_helpers.py), '
                     'Curve.self_intersections glue; libm atan2'],
    'assumptions': COMMON_ASSUME,
}
