"""registry entry of C18"""
from reg._common import COMMON_ASSUME

ENTRY = {
    'lean_files': ['Props/C18.lean', 'Props/C18Merge.lean', 'Props/C02Pipeline.lean'],
    'lemma_files': ['Model/GeometricInst.lean', 'Model/Helpers.lean', 'Model/Newton.lean', 'Model/Locate.lean', 'Lemmas/Pipeline.lean', 'Lemmas/Lipschitz.lean', 'Lemmas/Subdivide.lean', 'Model/Basic.lean', 'Model/Curve.lean',
                    'Model/Geometric.lean', 'Model/Self.lean', 'Model/Solve2x2.lean'],
    'script': 'props/c18.py',
    'rule': 'curves of degree 2..8: the cubic loop with closed-form crossing, planted transversal self-crossings (nets built in exact '
            'integers so that B(a) = B(b) for dyadic a < b, exactly representable), curves whose hodograph lies in an open half-plane '
            '(must return empty), random nets with large turning angle (every returned pair must be genuine: exact residual, 0 <= s1 < s2 <= 1 '
            'with a gap), the non-terminating net of finding F-G; the turning-angle decision against the algebraic model; distinct by hash of '
            'exact inputs',
    'partial': ['completeness ("every well-conditioned self-crossing is returned exactly once") is checked on planted crossings only; proved: '
                'every returned pair has 0 <= s1 < s2 <= 1 and is never on the diagonal (pairs_structure, split_removed), half-plane hodograph => '
                'injective, the algebraic turning-angle test characterisation (anglesBelowPi_spec), non-termination of the F-G net for every '
                'fuel; the equivalence of the algebraic angle test with the floating atan2 sum is validated by correspondence only'],
    'trusted_base': ['modelled not verified: self_intersections (geometric_intersection.py), discrete_turning_angle (curve_helpers.py), '
                     'Curve.self_intersections glue; libm atan2'],
    'assumptions': COMMON_ASSUME,
}
