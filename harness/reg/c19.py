"""registry entry of C19 (Lean files carrying the obligations, correspondence script, labels)"""
from reg._common import COMMON_ASSUME

ENTRY = {'lean_files': ['Tables/SrcPyAlgebraic.lean', 'Tables/C19.lean', 'Props/C19.lean', 'Props/C19More.lean'],
 'lemma_files': ['Lemmas/Resultant.lean', 'Lemmas/Subdivide.lean', 'Lemmas/Deriv.lean', 'Lemmas/Shift.lean',
                 'Lemmas/Bridge.lean',
                 'Lemmas/VS.lean',
                 'Lemmas/Elevate.lean',
                 'Lemmas/Algebraic.lean',
                 'Lemmas/AlgebraicIntegral.lean',
                 'Model/Basic.lean',
                 'Model/Curve.lean',
                 'Model/Algebraic.lean'],
 'script': 'props/c19.py',
 'configs': ['pure', 'speedup'],
 'extractors': ['extract_algebraic.py', 'translate_py.py'],
 'rule': 'cases = (section, exact inputs); pure configuration: all sections; speedup configuration: the sections whose '
         'functions reach a shim (eval_intersection_polynomial / to_power_basis via evaluate_multi; all_intersections via '
         'bbox_intersect, full_reduce, newton_refine). implicit: lattice nets (|entries| <= 4, incl. degree-elevated and '
         'collinear) and binary64 nets of degree 1..3; E: degree 1, 2 at integer points bit-exact with the model; T: '
         '8 u sum|terms| (degree 1, 2); degree 3 (6x6 LAPACK determinant): first-order bound of backward stable LU, '
         '32 u sum_ij |cof_ij| (|L||U| + 2|A|)_ij; oracle: |f| <= that allowance at '
         'the exact points B(s), s dyadic, and f = const * Sylvester resultant of x(s)-X, y(s)-Y (exact rationals) on the '
         '5x5 lattice. ipoly: all eight pairs; E on lattice nets for the hand-inverted pairs 1-1, 1-2, 1-3, 1-4, 2-2; T: '
         'sum_j |c V^-1|_ij (eval allowance + first-order effect of the 4 d2 u error of the point) + 8u|coef|, for the '
         'polyfit pairs 2-3, 2-4, 3-3 additionally 2 cond(V_scaled) u max|coef|; oracle: coefficients = const * exact '
         'interpolation of the resultant composed with the second curve; refused pairs raise NotImplementedError. '
         'norm: squares compared, ((n+1)(n+2)+8) u sum|c_i c_j|/(i+j+1). sigma/companion/lu: E where every quotient is '
         'representable, else 3u per entry; lu_companion E on integer rows with dyadic value. roots: polynomials of degree '
         '0..12 from planted roots (real in/out of [0,1], complex pairs, multiplicity 2-3, roots at exactly 1 = zero leading '
         'Bernstein coefficients, degree-elevated inputs = roots at infinity), exact integer Bernstein coefficients where '
         'they fit in 2^52; a planted root r of multiplicity m must be matched (injectively) within '
         '4 (m! eps W T(r) / |p^(m)(r)|)^(1/m), eps = 32 (n+1) u, W = max_k C(n,k)|c_k|, T(s) = sum_k |s|^k |1-s|^(n-k) '
         '(normwise backward error of the eigenvalue solver on the companion matrix); every returned root must have exact '
         'residual |p(rho)| <= eps W T(rho); n - e roots must be exactly 1; count = degree - sigma-roots dropped at -1. '
         'unit: roots_in_unit_interval filter equals the model on the same polyroots output; planted simple roots clearly '
         'inside are returned, clearly outside are not. scale: the polynomials of unit (roots_in_unit_interval, degree 1..9) and of '
         'roots (bezier_roots, degree 1..12) with every coefficient multiplied by an exact power of two 2^k - k places the largest / '
         'smallest / leading coefficient within a factor 8 of one of the absolute constants of the module (2^-13 ... 2^-52, read '
         'from the live module), or |k| in {8 ... 300} - and the SAME oracles (c p has the roots of p; failure keys end in '
         ':scaled-coefficients). locate (both configurations): locate_point on lattice nets of degree 1..3 (also elevated once or '
         'twice, collinear) times 2^k, one k for the net or one per coordinate, at the exact binary64 point B(s0), s0 = j/32: a '
         'parameter s with |B(s) - P| <= 2^-30 size per coordinate must be returned - demanded when s0 is a simple root of every '
         'non-constant coordinate polynomial and slope of the other L2-normalised coordinate polynomial x root allowance of unit '
         '(4 C_ROOT (n+1) u max|a| sum s0^i / |p\'(s0)|) + evaluation error <= half of _ZERO_THRESHOLD; below 16 x _L2_THRESHOLD '
         '(where the routine cannot examine the second coordinate) only when s0 is the single root near [0,1] of each coordinate '
         'polynomial. non-trivial = non-constant input; distinct by hash of exact inputs',
 'partial': ['implicit function = c x the Sylvester resultant (Mathlib Polynomial.resultant) of X(s)-x and Y(s)-y for degree 1, 2, 3, every net, '
             'any field, with c = -1, 1, 1 (C19.implicit_is_resultant); zero set: evaluate = 0 <-> common root in every algebraically '
             'closed extension, provided the s^d coefficient of X or Y is non-zero; identically zero <-> the net is degree elevated '
             '(implicit_identically_zero_iff); no statement relates an elevated net to the implicit function of its reduced curve (the '
             'code reduces first; checked by the script)',
             'f1 o B2 is a polynomial of degree <= d1 d2 for d1 in 1..3 and every d2 (composition_degree), hence power_basis_exact: '
             'the hand-inverted pairs return exactly c x the coefficients of f1 o B2 for every net; polyfit pairs (2-3, 2-4, 3-3) under '
             'the hypotheses fit = interpolation and V^-1 V = I (the latter decided in Tables/C19 for the extracted Chebyshev nodes) - '
             'numpy polyfit is external',
             'companion_charpoly: characteristic polynomial of the companion matrix = q for EVERY size (induction, Laplace expansion)',
             'bezier_roots_complete (exact arithmetic over any field, all degrees): s is a root of the Bernstein polynomial <-> s = 1 with '
             'degree drop, or s = sigma/(1+sigma) for an eigenvalue sigma of the companion; multiplicity of the root 1 = degree drop; '
             'the eigenvalue solver (LAPACK) is external and the transfer to complex eigenvalue pairs is not stated; the script checks '
             'planted roots with the stated allowance',
             'bezier_value_check (needs SciPy) is skipped in /venv'],
 'trusted_base': ['modelled not verified: every function of hazmat/algebraic_intersection.py (Model/Algebraic.lean); '
                  'numpy.linalg.det / eigvals / matrix_rank, numpy.polynomial polyfit / polyroots, np.sqrt are external '
                  '(parameters of the model, outputs handed over by the script)',
                  'harness/extract_algebraic.py (AST translator for literals inside function bodies)'],
 'assumptions': COMMON_ASSUME}
