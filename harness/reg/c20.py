"""registry entry of C20"""
from reg._common import COMMON_ASSUME

ENTRY = {
    'lean_files': ['Props/C20.lean', 'Props/C02Concrete.lean'],
    'lemma_files': ['Lemmas/PipelineInst.lean', 'Lemmas/Pipeline.lean', 'Lemmas/Predicates.lean', 'Model/Basic.lean', 'Model/Curve.lean',
                    'Model/Helpers.lean', 'Model/Newton.lean', 'Model/Locate.lean', 'Model/Geometric.lean', 'Model/GeometricInst.lean'],
    'script': 'props/c20.py',
    'rule': 'parent curves of degree 1..5 with dyadic control points and strictly increasing x (regular, injective); pairs of sub-arcs with '
            'dyadic end points in every relative position (disjoint, touching, overlapping, nested, identical; same or reversed direction), '
            'optionally degree-elevated when exactly representable: the expected shared arc is known in closed form; collinear segments on the '
            '5x5 lattice (sampled in quick, exhaustive in thorough) against exact rational overlap; the algebraic strategy on overlapping '
            'sub-arcs must refuse; every case is also run through the Lean model of the whole pipeline (exact rationals) and must agree '
            '(points within 2^-26, flag, refusal); the refusal rate is reported; distinct by hash of exact inputs',
    'partial': ['for curved overlaps the theorems cover the fallback logic (flag only through check_lines or coincident_parameters after the '
                'candidate budget; never a normal unflagged return there) and the collinear case exactly; that locate_point finds the end '
                'points of the shared arc to the 2^-40 accuracy vector_close needs is validated by the correspondence (refusals counted)'],
    'trusted_base': ['modelled not verified: all_intersections, check_lines, parallel_lines_parameters, coincident_parameters, '
                     'make_same_degree (geometric_intersection.py, curve_intersection.f90), locate_point, specialize_curve'],
    'assumptions': COMMON_ASSUME,
}
