"""registry entry of C20"""
from reg._common import COMMON_ASSUME

ENTRY = {
    'extractors': ['translate_py.py'],
    'lean_files': ['Tables/SrcPyPipeline.lean', 'Props/C20.lean', 'Props/C02Concrete.lean', 'Props/C20Overlap.lean'],
    'lemma_files': ['Lemmas/Overlap.lean', 'Lemmas/Coverage.lean', 'Lemmas/PipelineInst.lean', 'Lemmas/Pipeline.lean', 'Lemmas/Predicates.lean', 'Model/Basic.lean', 'Model/Curve.lean',
                    'Model/Helpers.lean', 'Model/Newton.lean', 'Model/Locate.lean', 'Model/Geometric.lean', 'Model/GeometricInst.lean'],
    'script': 'props/c20.py',
    'rule': 'parent curves of degree 1..5 with dyadic control points and strictly increasing x (regular, injective); pairs of sub-arcs with '
            'dyadic end points in every relative position (disjoint, touching, overlapping, nested, identical; same or reversed direction), '
            'optionally degree-elevated when exactly representable: the expected shared arc is known in closed form; collinear segments on the '
            '5x5 lattice (sampled in quick, exhaustive in thorough) against exact rational overlap; the algebraic strategy on overlapping '
            'sub-arcs must refuse; every case is also run through the Lean model of the whole pipeline (exact rationals) and must agree '
            '(points within 2^-26, flag, refusal); the refusal rate is reported; distinct by hash of exact inputs',
    'partial': [
                'proved exactly for the coincident_parameters stage (Props/C20Overlap; any ordered field): for sub-arcs [a,b] and c->d of an injective parent, presented at any degrees (make_same_degree keeps the curves), under EXACT primitives (locate finds the unique pre-image and misses otherwise, specialize is the restriction, vector_close is reflexive - the concrete specialize / vector_close satisfy this, the concrete locate only up to its Newton accuracy): all four branches return exactly the local parameters of the two ends of the shared arc, ordered along the first curve; none for disjoint arcs; touching arcs form the degenerate candidate and the width test gives none; short partial overlaps (both local widths below MIN_INTERVAL_WIDTH) give none; opposite direction: ordered along the SECOND curve exactly when the second arc lies inside the first (finding F-J, stated as a theorem)',
                'pipeline level: overlap_flagged_is_shared_arc (a flagged result is the check_lines answer or exactly the two shared-arc end points) holds unconditionally; overlap_never_unflagged_exact (never a normal unflagged return; the result is the flagged pair or NotImplementedError) holds under the hypothesis bundle RunSound on the round loop (enough tracked common points, no piece linearised before the candidate budget is exceeded, covering pairs have intersecting boxes and colliding hulls) which is reduced but not discharged for the concrete primitives; without it the model also allows an unflagged return for short overlaps once pieces are linearised - on the real code this is what the correspondence runs explore (refusals counted)',
                'collinear segments: exact (Props/C20: check_lines / parallel_lines_parameters in all relative positions, with the findings F-D touching and F-J ordering as decided counter-examples)',
    ],
    'trusted_base': ['modelled not verified: all_intersections, check_lines, parallel_lines_parameters, coincident_parameters, '
                     'make_same_degree (geometric_intersection.py, curve_intersection.f90), locate_point, specialize_curve'],
    'assumptions': COMMON_ASSUME,
}
