"""Property registry: Lean files that carry the obligations, the correspondence script, labels."""

COMMON_ASSUME = [
    "the theorems are about the executable Lean model; the model is tied to /repo by the extractor (kernel-checked data) and by differential execution (algorithms)",
    "IEEE-754 binary64 round-to-nearest without overflow/underflow satisfies class IeeeLaws and the standard rounding model",
]

PROPS = {
    "C01": {
        "lean_files": ["Tables/C01.lean", "Props/C01.lean"],
        "lemma_files": ["Lemmas/Shift.lean", "Lemmas/Bridge.lean", "Lemmas/VS.lean", "Lemmas/Ieee.lean",
                        "Model/Basic.lean", "Model/Curve.lean"],
        "script": "props/c01.py",
        "rule": "cases = (routine, degree, dimension, control net, parameter vector); E: integer nets x dyadic parameters with exact binary64 arithmetic (bitwise equality with the model); T: identity net (= every unit net) and random binary64 nets x parameters in [-1,2] incl. 0, 1 (tolerance 2(3n+3)u * sum|term|); non-trivial = degree >= 1 and net not all zero; distinct by hash of exact inputs",
        "partial": ["rounding bound of the assembled VS/de Casteljau evaluation: loop bounds proved (Lemmas/Rounding*), final assembly documented constant 2(3n+3)u"],
        "trusted_base": ["modelled not verified: evaluate_multi_vs / evaluate_multi_de_casteljau / evaluate_multi_barycentric / evaluate_multi in curve_helpers.py and curve.f90; Curve.evaluate(_multi) glue"],
        "assumptions": COMMON_ASSUME,
    },
}
