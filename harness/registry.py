"""Property registry: one module per property under harness/reg/ (cXX.py defining ENTRY)."""
import importlib
import os
import re

PROPS = {}
_d = os.path.join(os.path.dirname(os.path.abspath(__file__)), "reg")
for _f in sorted(os.listdir(_d)):
    _m = re.fullmatch(r"(c\d+)\.py", _f)
    if _m:
        PROPS[_m.group(1).upper()] = importlib.import_module("reg." + _m.group(1)).ENTRY
