#!/bin/bash
# run every claimed check (quick by default) and print one status line each; usage: harness/runall.sh [quick|thorough] [IDs...]
cd "$(dirname "$0")/.."
tier=${1:-quick}; shift 2>/dev/null
ids="$@"
[ -z "$ids" ] && ids=$(/venv/bin/python -c "import sys; sys.path.insert(0,'harness'); import registry; print(' '.join(sorted(registry.PROPS)))")
mkdir -p /tmp/verif-runall
for id in $ids; do
  ( start=$(date +%s); ./check $id $tier > /tmp/verif-runall/$id.log 2>&1; rc=$?; end=$(date +%s); echo "$id rc=$rc $((end-start))s $(grep -c '^VIOLATION' /tmp/verif-runall/$id.log) violation(s) $(grep -c '^KNOWN-FINDING' /tmp/verif-runall/$id.log) known" ) &
  # at most 4 at a time
  while [ $(jobs -r | wc -l) -ge 4 ]; do sleep 1; done
done
wait
