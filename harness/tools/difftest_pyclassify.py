#!/venv/bin/python
"""Differential test of the TRUSTED part of phase 4 (pyclassify) of translate_py.py: the generated Lean definitions
(lean/BezierVerif/Generated/SrcPy.lean, evaluated by the Lean interpreter over `Rat`) against the real Python functions of
/repo (`hazmat/triangle_helpers.py`, `hazmat/triangle_intersection.py`) on random small inputs with dyadic parameters.

What it exercises that no theorem can: the MEANING the translator gives to the new kinds - object identity (`OL` / `REF` /
the list `unused` as positions), maybe-None slots, `np.sign`, `%`, enum members, `set.pop()`.
Outputs are compared as strings; an object is printed as `<position in intersections or N>#<its five slots>`.

usage: difftest_pyclassify.py [N_CASES] [SEED]      exit status 0 iff all outputs agree (needs Generated/SrcPy.lean built)
"""
import os
import random
import subprocess
import sys
import tempfile
from fractions import Fraction as Fr

HERE = os.path.dirname(os.path.abspath(__file__))
LEAN = os.path.join(os.path.dirname(os.path.dirname(HERE)), "lean")
sys.path.insert(0, os.path.join(os.environ.get("BEZIER_REPO", "/repo"), "src", "python"))
os.environ.setdefault("BEZIER_NO_EXTENSION", "1")
import numpy as np  # noqa: E402
from bezier.hazmat import curve_helpers, intersection_helpers as ih, triangle_helpers as th  # noqa: E402
from bezier.hazmat import triangle_intersection as ti  # noqa: E402

C = ih.IntersectionClassification
CLS = list(C)
LEAN_CLS = ["first", "second", "opposed", "tangentFirst", "tangentSecond", "ignoredCorner", "tangentBoth", "coincident",
            "coincidentUnused"]
PARAMS = [Fr(0), Fr(1, 4), Fr(1, 2), Fr(3, 4), Fr(1)]
ERR = {ValueError: "valueError", NotImplementedError: "notImplemented", TypeError: "badInput", RuntimeError: "runtimeError",
       IndexError: "badInput", AttributeError: "badInput"}


def so(x):
    return "N" if x is None else str(x)


def num(x):
    return None if x is None else Fr(x)


def show_i(x):
    return "|".join([so(x.index_first), so(num(x.s)), so(x.index_second), so(num(x.t)),
                     so(None if x.interior_curve is None else x.interior_curve.value)])


def show_w(x, ints):
    pos = [i for i, o in enumerate(ints) if o is x]
    return "%s#%s" % (pos[0] if pos else "N", show_i(x))


def lrat(q):
    return "(%d / %d : Rat)" % (q.numerator, q.denominator)


def lopt(x, f=str):
    return "none" if x is None else "(some %s)" % f(x)


def lean_i(x):
    return ("({ indexFirst := %s, s := %s, indexSecond := %s, t := %s, interior := %s } : Intersection Rat)"
            % (lopt(x.index_first), lopt(num(x.s), lrat), lopt(x.index_second), lopt(num(x.t), lrat),
               lopt(x.interior_curve, lambda c: "Cls." + LEAN_CLS[c.value])))


def lean_list(xs, f):
    return "[" + ", ".join(f(x) for x in xs) + "]"


def rnd_int(rnd, cls=None):
    return ih.Intersection(rnd.randrange(3), float(rnd.choice(PARAMS)), rnd.randrange(3), float(rnd.choice(PARAMS)),
                           interior_curve=cls if cls is not None else rnd.choice(CLS))


def attempt(f):
    try:
        return "ok " + f()
    except tuple(ERR) as exc:
        return "err " + ERR[type(exc)]


def main():
    n = int(sys.argv[1]) if len(sys.argv) > 1 else 300
    rnd = random.Random(int(sys.argv[2]) if len(sys.argv) > 2 else 20260930)
    rows = []                                   # (label, lean expression : String, expected)
    for case in range(n):
        ints = [rnd_int(rnd) for _ in range(rnd.randrange(0, 7))]
        unused_pos = [i for i in range(len(ints)) if rnd.random() < 0.6]
        rnd.shuffle(unused_pos)
        if ints and rnd.random() < 0.7:
            pos = rnd.randrange(len(ints))
            node, lnode = ints[pos], "({ pos := some %d, val := %s } : WNode Rat)" % (pos, lean_i(ints[pos]))
        else:
            node = rnd_int(rnd)
            lnode = "({ pos := none, val := %s } : WNode Rat)" % lean_i(node)
        lints = lean_list(ints, lean_i)
        lun = lean_list(unused_pos, str)

        def unused_after(u):
            return ",".join(str(next(i for i, o in enumerate(ints) if o is x)) for x in u)

        def py_to_front():
            u = [ints[i] for i in unused_pos]
            r = th.to_front(node, ints, u)
            return show_w(r, ints) + " ; " + unused_after(u)
        rows.append(("to_front", "showWU (Src.Py.to_front %s %s %s)" % (lnode, lints, lun), attempt(py_to_front)))

        def py_get_next():
            u = [ints[i] for i in unused_pos]
            r = th.get_next(node, ints, u)
            return show_w(r, ints) + " ; " + unused_after(u)
        rows.append(("get_next", "showOWU (Src.Py.get_next %s.val %s %s)" % (lnode, lints, lun), attempt(py_get_next)))
        for name in ("get_next_first", "get_next_second"):
            for to_end in (True, False):
                def py_gn():
                    r = getattr(th, name)(node, ints, to_end=to_end)
                    return "N" if r is None else show_w(r, ints)
                rows.append((name, "showOW (Src.Py.%s %s.val %s %s)" % (name, lnode, lints, "true" if to_end else "false"),
                             attempt(py_gn)))
        rows.append(("get_next_coincident", "showOW (Src.Py.get_next_coincident %s.val %s)" % (lnode, lints),
                     attempt(lambda: show_w(th.get_next_coincident(node, ints), ints))))
        other = rnd_int(rnd)

        def py_ends():
            r = th.ends_to_curve(node, other)
            return "%s,%s,%s" % (r[0], Fr(r[1]), Fr(r[2]))
        rows.append(("ends_to_curve", "showSeg (Src.Py.ends_to_curve %s.val %s)" % (lnode, lean_i(other)), attempt(py_ends)))

        def py_check():
            d = []
            flag = ti.check_unused(node, d, ints)
            return "%s %d" % ("true" if flag else "false", len(d))
        rows.append(("check_unused", "showCU (Src.Py.check_unused %s.val [] %s)" % (lnode, lints), attempt(py_check)))
        rows.append(("should_use", "toString (Src.Py.should_use %s.val)" % lnode, "true" if ti.should_use(node) else "false"))
        i1, i2, s, t = rnd.randrange(3), rnd.randrange(3), rnd.choice(PARAMS), rnd.choice(PARAMS)
        e, c, (a1, a2, a3, a4) = th.handle_ends(i1, float(s), i2, float(t))
        rows.append(("handle_ends", "showHE (Src.Py.handle_ends %d %s %d %s)" % (i1, lrat(s), i2, lrat(t)),
                     "%s %s %d %s %d %s" % (str(e).lower(), str(c).lower(), a1, Fr(a2), a3, Fr(a4))))
        types = set(rnd.sample(CLS, rnd.choice([0, 1, 1, 1, 2])))

        def py_tangent():
            r = th.tangent_only_intersections(set(types))
            return "%s %s" % ("N" if r[0] is None else len(r[0]), so(None if r[1] is None else str(r[1]).lower()))
        rows.append(("tangent_only_intersections", "showOut (Src.Py.tangent_only_intersections (K := Rat) %s)"
                     % lean_list(sorted(types, key=lambda c: c.value), lambda c: "Cls." + LEAN_CLS[c.value]), attempt(py_tangent)))
        # classify_tangent_intersection with a stubbed curvature routine
        k1, k2 = Fr(rnd.randrange(-2, 3), rnd.choice([1, 2])), Fr(rnd.randrange(-2, 3), rnd.choice([1, 2]))
        t1 = [Fr(rnd.randrange(-2, 3)), Fr(rnd.randrange(-2, 3))]
        t2 = [Fr(rnd.randrange(-2, 3)), Fr(rnd.randrange(-2, 3))]
        n1, n2 = np.asfortranarray([[1.0], [0.0]]), np.asfortranarray([[2.0], [0.0]])
        saved = curve_helpers.get_curvature
        curve_helpers.get_curvature = lambda nodes, tangent, prm: float(k1) if nodes is n1 else float(k2)
        try:
            exp = attempt(lambda: str(th.classify_tangent_intersection(
                node, n1, np.asfortranarray([[float(t1[0])], [float(t1[1])]]), n2,
                np.asfortranarray([[float(t2[0])], [float(t2[1])]])).value))
        finally:
            curve_helpers.get_curvature = saved
        rows.append(("classify_tangent_intersection",
                     "showCls (Src.Py.classify_tangent_intersection (fun nodes _ _ => if nodes = [[1], [0]] then %s else %s) "
                     "%s.val [[1], [0]] %s [[2], [0]] %s)" % (lrat(k1), lrat(k2), lnode, lean_list(t1, lrat), lean_list(t2, lrat)), exp))
    prelude = """import BezierVerif.Generated.SrcPy
open BezierVerif BezierVerif.Model BezierVerif.Model.Classify BezierVerif.Model.Walk
def so {α : Type} [ToString α] : Option α → String
  | none => "N"
  | some a => toString a
def showErr : Err → String
  | .unsupportedDegree => "unsupportedDegree" | .notImplemented => "notImplemented" | .valueError => "valueError"
  | .runtimeError => "runtimeError" | .recursion => "recursion" | .badInput => "badInput"
def showE {α : Type} (f : α → String) : Except Err α → String
  | .ok a => "ok " ++ f a
  | .error e => "err " ++ showErr e
def showI (x : Intersection Rat) : String :=
  so x.indexFirst ++ "|" ++ so x.s ++ "|" ++ so x.indexSecond ++ "|" ++ so x.t ++ "|" ++ so (x.interior.map Cls.code)
def showW (w : WNode Rat) : String := so w.pos ++ "#" ++ showI w.val
def showU (u : List Nat) : String := ",".intercalate (u.map toString)
def showWU := showE fun (r : WNode Rat × List Nat) => showW r.1 ++ " ; " ++ showU r.2
def showOWU := showE fun (r : Option (WNode Rat) × List Nat) => (match r.1 with | some w => showW w | none => "N") ++ " ; " ++ showU r.2
def showOW := showE fun (r : Option (WNode Rat)) => match r with | some w => showW w | none => "N"
def showSeg := showE fun (r : Option Nat × Option Rat × Option Rat) => so r.1 ++ "," ++ so r.2.1 ++ "," ++ so r.2.2
def showCU (r : Bool × List (Intersection Rat)) : String := "ok " ++ toString r.1 ++ " " ++ toString r.2.length
def showHE (r : Bool × Bool × (Nat × Rat × Nat × Rat)) : String :=
  s!"{r.1} {r.2.1} {r.2.2.1} {r.2.2.2.1} {r.2.2.2.2.1} {r.2.2.2.2.2}"
def showOut := showE fun (r : Option (List (List (Nat × Rat × Rat))) × Option Bool) =>
  (match r.1 with | some l => toString l.length | none => "N") ++ " " ++ so r.2
def showCls := showE fun (r : Option Cls) => so (r.map Cls.code)
def rows0 : List (String × String × String) := [
"""
    chunks = [rows[i:i + 100] for i in range(0, len(rows), 100)]          # (one huge list literal exhausts the elaborator)
    body = ""
    for ci, chunk in enumerate(chunks):
        if ci:
            body += "\n]\ndef rows%d : List (String × String × String) := [\n" % ci
        body += ",\n".join('  ("%s", %s, "%s")' % (lab, expr, exp) for lab, expr, exp in chunk)
    body += "\n]\ndef rows : List (String × String × String) := List.flatten [%s" % ", ".join(
        "rows%d" % ci for ci in range(len(chunks)))
    tail = """
]
#eval do
  let bad := rows.filter fun (r : String × String × String) => r.2.1 != r.2.2
  for r in bad.take 20 do
    IO.println s!"MISMATCH {r.1}: lean '{r.2.1}' python '{r.2.2}'"
  IO.println s!"DIFFTEST rows {rows.length} mismatches {bad.length}"
"""
    d = tempfile.mkdtemp(prefix="difftest_pyclassify_")
    path = os.path.join(d, "Diff.lean")
    with open(path, "w") as fh:
        fh.write(prelude + body + tail)
    r = subprocess.run(["lake", "env", "lean", path], cwd=LEAN, stdout=subprocess.PIPE, stderr=subprocess.STDOUT, text=True)
    out = r.stdout
    print(out[-3000:])
    ok = r.returncode == 0 and "mismatches 0" in out
    print("RESULT: " + ("ok" if ok else "FAILED (%s)" % path))
    sys.exit(0 if ok else 1)


if __name__ == "__main__":
    main()
