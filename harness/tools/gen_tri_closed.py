#!/usr/bin/env python3
"""Generator of the Lean transcription of the Fortran closed forms of TRIANGLE `subdivide_nodes`
(degree 1..4) in `src/fortran/triangle.f90`.

    python3 harness/tools/gen_tri_closed.py [--repo /repo] [--root <framework root>] [--check]

Parses the statements `nodes_x(:, i) = ...` (incl. `&` continuation lines) of the branches
`if (degree == N) then` of `subroutine subdivide_nodes` KEEPING THE SYNTAX TREE (term order,
integer multipliers, the leading constant, copies of already computed columns) and writes

  lean/BezierVerif/Model/TriangleF90Closed.lean     the model `F90.subdivideClosed` (Mathlib-free)
  lean/BezierVerif/Lemmas/RoundingTriClosed.lean    generated helper lemmas: list destructuring, the
                                                    operator matrices as literals (`decide +kernel`),
                                                    `closed = rowMul row matrix` over Rat, and the
                                                    `Near` proof term of every entry (exponents computed
                                                    from the operation order)

Both Lean files are committed as normal source files; the harness does NOT regenerate them.
`--check` only prints the per-degree exponents and compares the parsed coefficients with a direct
exact evaluation of the syntax trees on unit nets (self-test of the parser), writing nothing.

Accepted statement shapes (anything else aborts loudly):
    OUT(:, k) = nodes(:, j)                                   plain copy of an input column
    OUT(:, k) = OUT'(:, k')                                   copy of an already computed column
    OUT(:, k) = C_dp * ( T + T + ... )        T ::= nodes(:, j) | INT * nodes(:, j)
with C = 1/2^m.  Fortran evaluates `a + b + c` left to right, `INT * x` before the sum, and the
leading constant multiplies the finished sum; this is exactly how the Lean text is parenthesised
(`+` and `*` are left associative in Lean as well, so `c * (t1 + t2 + t3)` is `c * ((t1 + t2) + t3)`).
"""
import argparse
import os
import re
import sys
from fractions import Fraction as Fr

LETTERS = "abcd"
NN = {1: 3, 2: 6, 3: 10, 4: 15}


# ------------------------------------------------------------------------------------------ parsing
def fortran_lines(path):
    out, cur = [], ""
    for raw in open(path):
        line = raw.split("!")[0].rstrip()
        if not line.strip():
            continue
        s = line.strip()
        if s.startswith("&"):
            s = s[1:].lstrip()
        if s.endswith("&"):
            cur += s[:-1].rstrip() + " "
            continue
        out.append((cur + s).strip())
        cur = ""
    return out


TOK = re.compile(r"\d+\.\d*_dp|\d+|[A-Za-z_][A-Za-z_0-9]*|[-+*/(),:=]")


class Tok:
    def __init__(self, s):
        self.toks = TOK.findall(s)
        if "".join(self.toks) != re.sub(r"\s+", "", s):
            raise ValueError("untokenisable: %r" % s)
        self.i = 0

    def peek(self):
        return self.toks[self.i] if self.i < len(self.toks) else None

    def next(self):
        t = self.peek()
        self.i += 1
        return t

    def expect(self, t):
        g = self.next()
        if g != t:
            raise ValueError("expected %r, got %r in %r" % (t, g, self.toks))


def parse_ref(tk):
    name = tk.next()
    if not re.match(r"[A-Za-z_]", name or ""):
        raise ValueError("reference expected: %r" % tk.toks)
    tk.expect("(")
    tk.expect(":")
    tk.expect(",")
    k = int(tk.next())
    tk.expect(")")
    return (name, k)


def parse_stmt(line):
    """-> (out_name, k, rhs); rhs = ("in", j) | ("copy", name, k) | ("form", const, [(mult, j), ...])"""
    tk = Tok(line)
    out = parse_ref(tk)
    tk.expect("=")
    t = tk.peek()
    if re.match(r"\d+\.\d*_dp", t):
        const = Fr(tk.next().replace("_dp", ""))
        tk.expect("*")
        tk.expect("(")
        terms = []
        while True:
            if re.match(r"\d+$", tk.peek()):
                m = int(tk.next())
                tk.expect("*")
            else:
                m = 1
            nm, j = parse_ref(tk)
            if nm != "nodes":
                raise ValueError("term is not an input column: %r" % line)
            terms.append((m, j))
            if tk.peek() == "+":
                tk.next()
                continue
            break
        tk.expect(")")
        if tk.peek() is not None:
            raise ValueError("trailing tokens: %r" % line)
        if len(terms) < 2:
            raise ValueError("sum of one term: %r" % line)
        return out[0], out[1], ("form", const, terms)
    nm, j = parse_ref(tk)
    if tk.peek() is not None:
        raise ValueError("trailing tokens: %r" % line)
    if nm == "nodes":
        return out[0], out[1], ("in", j)
    return out[0], out[1], ("copy", nm, j)


def parse_subdivide(repo):
    lines = fortran_lines(os.path.join(repo, "src/fortran/triangle.f90"))
    inside, branch, forms = False, None, {}
    for line in lines:
        if re.match(r"subroutine subdivide_nodes\b", line):
            inside = True
            continue
        if re.match(r"end subroutine subdivide_nodes\b", line):
            break
        if not inside:
            continue
        m = re.match(r"(?:else )?if \(degree == (\d+)\) then", line)
        if m:
            branch = int(m.group(1))
            forms[branch] = []
            continue
        if re.match(r"else\b", line) or re.match(r"end if", line):
            branch = None
            continue
        if branch is None:
            continue
        if not re.match(r"\w+\(:, \d+\) =", line):
            raise ValueError("unexpected statement in a closed-form branch: %r" % line)
        forms[branch].append(parse_stmt(line))
    if sorted(forms) != [1, 2, 3, 4]:
        raise ValueError("branches found: %r" % sorted(forms))
    for d, st in forms.items():
        n = NN[d]
        seen = set()
        for name, k, rhs in st:
            if name not in ["nodes_" + c for c in LETTERS] or not 1 <= k <= n or (name, k) in seen:
                raise ValueError("bad / repeated output %s(:, %d) in degree %d" % (name, k, d))
            if rhs[0] == "copy" and (rhs[1], rhs[2]) not in seen:
                raise ValueError("copy of a column not yet assigned: %r" % ((name, k, rhs),))
            if rhs[0] == "in" and not 1 <= rhs[1] <= n:
                raise ValueError("input column out of range")
            if rhs[0] == "form":
                c = rhs[1]
                if c.numerator != 1 or c.denominator & (c.denominator - 1) or c.denominator < 2:
                    raise ValueError("leading constant is not 1/2^m: %r" % c)
                if any(not 1 <= j <= n or m < 1 for m, j in rhs[2]):
                    raise ValueError("bad term")
            seen.add((name, k))
        if len(seen) != 4 * n:
            raise ValueError("degree %d: %d columns assigned" % (d, len(seen)))
    return forms


# ------------------------------------------------------------------------------- derived quantities
def var(name, k):
    return "x" + name[-1] + str(k)          # nodes_a(:, 3) -> xa3


def root_of(d_forms):
    """follow copies to the statement that computes the value"""
    by = {(n, k): r for n, k, r in d_forms}

    def root(n, k):
        r = by[(n, k)]
        while r[0] == "copy":
            n, k = r[1], r[2]
            r = by[(n, k)]
        return (n, k), r
    return root


def coeffs(rhs, n):
    v = [Fr(0)] * n
    if rhs[0] == "in":
        v[rhs[1] - 1] = Fr(1)
    else:
        for m, j in rhs[2]:
            v[j - 1] += rhs[1] * m
    return v


def exponent(rhs):
    """exponent of the Near chain: term 0 (+1 if multiplied), each addition max+1, constant +1"""
    if rhs[0] != "form":
        return 0
    e = None
    for m, _ in rhs[2]:
        t = 1 if m != 1 else 0
        e = t if e is None else max(e, t) + 1
    return e + 1


def matrix(d_forms, d, letter):
    """N x N, out = nodes . M"""
    n = NN[d]
    root = root_of(d_forms)
    cols = [coeffs(root("nodes_" + letter, k)[1], n) for k in range(1, n + 1)]
    return [[cols[c][r] for c in range(n)] for r in range(n)]


def degree_exponent(d_forms):
    return max(exponent(r) for _, _, r in d_forms)


# --------------------------------------------------------------------------------------- Lean text
def lean_rat(x):
    if x.denominator == 1:
        return str(x.numerator)
    return "(%d : Rat)/%d" % (x.numerator, x.denominator)


def cname(c):
    return "c%d" % c.denominator


def lean_rhs(rhs):
    if rhs[0] == "in":
        return "n%d" % rhs[1]
    if rhs[0] == "copy":
        return var(rhs[1], rhs[2])
    ts = []
    for m, j in rhs[2]:
        ts.append("n%d" % j if m == 1 else "((%d : Nat) : K) * n%d" % (m, j))
    return "%s * (%s)" % (cname(rhs[1]), " + ".join(ts))


def fortran_text(name, k, rhs):
    if rhs[0] == "in":
        return "%s(:, %d) = nodes(:, %d)" % (name, k, rhs[1])
    if rhs[0] == "copy":
        return "%s(:, %d) = %s(:, %d)" % (name, k, rhs[1], rhs[2])
    ts = ["nodes(:, %d)" % j if m == 1 else "%d * nodes(:, %d)" % (m, j) for m, j in rhs[2]]
    return "%s(:, %d) = %s_dp * (%s)" % (name, k, float(rhs[1]), " + ".join(ts))


def wrap(items, indent, width=100, sep=", "):
    lines, cur = [], ""
    for i, it in enumerate(items):
        piece = it + (sep if i + 1 < len(items) else "")
        if cur and len(indent) + len(cur) + len(piece) > width:
            lines.append(indent + cur.rstrip())
            cur = ""
        cur += piece
    if cur:
        lines.append(indent + cur.rstrip())
    return "\n".join(lines)


MODEL_HEADER = '''import BezierVerif.Model.Triangle

/-!
# Model/TriangleF90Closed — the Fortran closed forms of TRIANGLE `subdivide_nodes`, degree 1–4,
# term by term

GENERATED by `harness/tools/gen_tri_closed.py` from `src/fortran/triangle.f90` (subroutine
`subdivide_nodes`, branches `degree == 1 … 4`); committed as a normal source file, NOT regenerated
by the harness.  Re-run the tool when the Fortran text changes.

`Model.F90.triSubdivideNodesRow` treats the closed forms as a linear map (`rowMul row (forms d qt)`),
which is right in exact arithmetic but hides the operation order.  Here every statement
`nodes_x(:, i) = …` is transcribed as written:

* `a + b + c + d` is `((a + b) + c) + d` (Fortran and Lean are both left associative);
* `2 * nodes(:, j)` is a product formed before the sum; the integer is converted exactly
  (`((2 : Nat) : K)`, the exact injection `NatCast`);
* the leading constant `0.5_dp, 0.25_dp, 0.125_dp, 0.0625_dp` multiplies the finished sum; it is
  spelled `1 / ((2 : Nat) : K)`, `1 / ((4 : Nat) : K)`, … (one division of exact operands: in a
  rounded arithmetic it is exact as soon as `1/2^m` is a number of the arithmetic);
* a copy `nodes_b(:, 2) = nodes_a(:, 3)` is the already computed value (a `let`-bound variable is
  used again: no new operation).

`F90.subdivideClosed d row qt` is the piece `qt` for degree `d`; for `d ∉ {1,…,4}` (the Fortran
`else` branch) and, to stay total, for a row whose length is not `numNodes d`, it is the generic
branch `F90.triSubdivideGenericRow subWeights d row qt`.

Exponents of the rounding analysis computed by the generator from the operation order (plain term
0, multiplied term 1, every addition `max + 1`, leading constant `+ 1`), maximum per degree:
%(exps)s
-/

namespace BezierVerif.Model

variable {K : Type} [Add K] [Sub K] [Mul K] [Div K] [Neg K] [OfNat K 0] [OfNat K 1] [NatCast K]
'''


def gen_model(forms):
    exps = "\n".join("  degree %d: %d   (per statement: %s)" % (
        d, degree_exponent(forms[d]),
        " ".join(str(exponent(r)) for _, _, r in forms[d] if r[0] == "form")) for d in sorted(forms))
    out = [MODEL_HEADER % {"exps": exps}]
    for d in sorted(forms):
        n = NN[d]
        consts = sorted({r[1] for _, _, r in forms[d] if r[0] == "form"}, reverse=True)
        out.append("/-- `subdivide_nodes`, branch `degree == %d` (%d nodes), one coordinate row -/" % (d, n))
        out.append("def F90.subdivideClosed%d (row : List K) (qt : Quarter) : List K :=" % d)
        out.append("  match row with")
        out.append("  | [%s] =>" % ", ".join("n%d" % j for j in range(1, n + 1)))
        for c in consts:
            out.append("    let %s : K := 1 / ((%d : Nat) : K)   -- %s_dp" % (cname(c), c.denominator, float(c)))
        for name, k, rhs in forms[d]:
            out.append("    -- " + fortran_text(name, k, rhs))
            out.append("    let %s : K := %s" % (var(name, k), lean_rhs(rhs)))
        out.append("    match qt with")
        for L in LETTERS:
            items = [var("nodes_" + L, k) for k in range(1, n + 1)]
            items[0] = "[" + items[0]
            items[-1] = items[-1] + "]"
            out.append("    | .%s =>\n%s" % (L.upper(), wrap(items, "      ")))
        out.append("  | _ => F90.triSubdivideGenericRow subWeights %d row qt" % d)
        out.append("")
    out.append("/-- `subdivide_nodes` (Fortran) on one coordinate row with the closed forms of degree 1–4 as\n"
               "    written; the generic branch otherwise -/")
    out.append("def F90.subdivideClosed (d : Nat) (row : List K) (qt : Quarter) : List K :=")
    out.append("  match d with")
    for d in sorted(forms):
        out.append("  | %d => F90.subdivideClosed%d row qt" % (d, d))
    out.append("  | _ => F90.triSubdivideGenericRow subWeights d row qt")
    out.append("")
    out.append("end BezierVerif.Model")
    return "\n".join(out) + "\n"


LEMMAS_HEADER = '''import BezierVerif.Lemmas.RoundingMore
import BezierVerif.Lemmas.TriSubdivHom
import BezierVerif.Model.TriangleF90Closed

/-!
# Lemmas/RoundingTriClosed — helper lemmas for the Fortran closed forms of triangle
# `subdivide_nodes` (degree 1–4) as written (`Model.F90.subdivideClosed`)

GENERATED by `harness/tools/gen_tri_closed.py` from `src/fortran/triangle.f90` together with
`Model/TriangleF90Closed.lean`; committed as a normal source file, NOT regenerated by the harness.

* `list_of_length_N`: a list of length `N` is `[v1, …, vN]`;
* `tri_consts_exact`: `1/2, 1/4, 1/8, 1/16` (spelled `1 / ((2^m : ℕ) : K)`) are computed without
  rounding under `DyadicExact fl m`;
* `closedMat d qt`: the coefficient matrix read off the Fortran text, a literal over `Rat`;
  `closedMat_eq`: it is the model-derived operator matrix `triSubdivMat subWeights d qt` over `Rat`
  (`decide +kernel`), `closedMat_cast_eq`: hence over every field of characteristic 0
  (`TriHom.triSubdivMat_ratCast`); `closed_eq_rowMul_d`: the closed forms, evaluated in their order
  in a field of characteristic 0, are `rowMul row (closedMat d qt)` (`ring`);
* `closed_near_d`: the `Near` chain of every statement in its operation order, exponent
%(exps)s
-/

set_option linter.unusedSectionVars false
set_option linter.unusedVariables false

namespace BezierVerif.TriClosed

open Model BezierVerif

/-! ## lists of a given length -/
'''


def gen_length_lemma(n):
    vs = ["v%d" % i for i in range(1, n + 1)]
    out = ["theorem list_of_length_%d {α : Type} (l : List α) (h : l.length = %d) :" % (n, n),
           "    ∃ %s : α,\n      l = [%s] := by" % (" ".join(vs), ", ".join(vs))]
    for i, v in enumerate(vs):
        out.append("  rcases l with _ | ⟨%s, l⟩" % v)
        out.append("  · simp only [%sList.length_nil] at h; omega" % ("List.length_cons, " if i else ""))
    out.append("  rcases l with _ | ⟨w, l⟩")
    out.append("  · exact ⟨%s, rfl⟩" % ", ".join(vs))
    out.append("  · simp only [List.length_cons] at h; omega")
    return "\n".join(out) + "\n"


def near_term(rhs, k):
    """proof term of `Near fl u k (entry in Fl) (entry) (entry on absolute values)`"""
    if rhs[0] == "in":
        return "(e%d.mono S (by decide))" % rhs[1]
    acc = None
    for m, j in rhs[2]:
        t = "e%d" % j if m == 1 else "((m%d).mul S e%d)" % (m, j)
        acc = t if acc is None else "(%s.add' S %s)" % (acc, t)
    return "((h%d.mul S %s).mono S (by decide))" % (rhs[1].denominator, acc)


def gen_lemmas(forms):
    exps = "\n".join("  degree %d: %d" % (d, degree_exponent(forms[d])) for d in sorted(forms))
    out = [LEMMAS_HEADER % {"exps": exps}]
    for d in sorted(forms):
        out.append(gen_length_lemma(NN[d]))
    out.append(CONSTS)
    # exact arithmetic over Rat
    out.append("/-! ## exact arithmetic over `Rat`: the closed forms are the operator matrices -/\n")
    out.append("/-- the coefficient matrix of the Fortran closed forms (`new = nodes · M`), read off the text -/")
    out.append("def closedMat : ℕ → Quarter → List (List Rat)")
    for d in sorted(forms):
        for L in LETTERS:
            M = matrix(forms[d], d, L)
            rows = ",\n     ".join("[" + ", ".join(lean_rat(x) for x in r) + "]" for r in M)
            out.append("  | %d, .%s =>\n    [%s]" % (d, L.upper(), rows))
    out.append("  | _, _ => []\n")
    for d in sorted(forms):
        for L in LETTERS:
            out.append("theorem closedMat_eq_%d_%s : closedMat %d .%s = triSubdivMat (subWeights (K := Rat)) %d .%s := by\n"
                       "  decide +kernel" % (d, L.upper(), d, L.upper(), d, L.upper()))
    out.append("")
    out.append("theorem closedMat_eq (d : ℕ) (hd1 : 1 ≤ d) (hd4 : d ≤ 4) (qt : Quarter) :\n"
               "    closedMat d qt = triSubdivMat (subWeights (K := Rat)) d qt := by\n"
               "  have : d = 1 ∨ d = 2 ∨ d = 3 ∨ d = 4 := by omega\n"
               "  rcases this with rfl | rfl | rfl | rfl <;> cases qt\n" +
               "\n".join("  · exact closedMat_eq_%d_%s" % (d, L.upper()) for d in sorted(forms) for L in LETTERS))
    out.append("")
    out.append("section Exact\nvariable {K : Type} [Field K] [CharZero K]\n")
    out.append("/-- the literal matrices, cast into a field of characteristic 0, are its operator matrices -/\n"
               "theorem closedMat_cast_eq (d : ℕ) (hd1 : 1 ≤ d) (hd4 : d ≤ 4) (qt : Quarter) :\n"
               "    (closedMat d qt).map (List.map (fun q : ℚ => (q : K))) = triSubdivMat (subWeights (K := K)) d qt := by\n"
               "  rw [TriHom.triSubdivMat_ratCast, closedMat_eq d hd1 hd4 qt]\n")
    for d in sorted(forms):
        n = NN[d]
        vs = ["v%d" % i for i in range(1, n + 1)]
        out.append("theorem closed_eq_rowMul_%d (row : List K) (h : row.length = %d) (qt : Quarter) :\n"
                   "    F90.subdivideClosed %d row qt\n"
                   "      = rowMul row ((closedMat %d qt).map (List.map (fun q : ℚ => (q : K)))) := by" % (d, n, d, d))
        out.append("  obtain ⟨%s, rfl⟩ := list_of_length_%d row h" % (", ".join(vs), n))
        out.append("  have hr : List.range %d = [%s] := by decide" % (n, ", ".join(str(i) for i in range(n))))
        out.append("  cases qt <;>\n"
                   "  · simp only [F90.subdivideClosed, F90.subdivideClosed%d, closedMat, rowMul, ncols, dot, col,\n"
                   "      List.headD_cons, List.length_cons, List.length_nil, Nat.reduceAdd, hr, List.map_cons,\n"
                   "      List.map_nil, List.getD_cons_zero, List.getD_cons_succ, List.zipWith_cons_cons,\n"
                   "      List.zipWith_nil_right, List.foldl_cons, List.foldl_nil]\n"
                   "    simp only [List.cons.injEq, and_true]\n"
                   "    refine ⟨%s⟩ <;> (push_cast; ring)" % (d, ", ".join(["?_"] * n)))
        out.append("")
    out.append("end Exact\n")
    # rounding
    out.append("/-! ## the closed forms in rounded arithmetic, statement by statement -/\n")
    out.append("section Rounding\n"
               "variable {F : Type} [Field F] [LinearOrder F] [IsStrictOrderedRing F] {fl : F → F} {u : F}\n")
    for d in sorted(forms):
        n = NN[d]
        k = degree_exponent(forms[d])
        vs = ["v%d" % i for i in range(1, n + 1)]
        root = root_of(forms[d])
        out.append("/-- degree %d: every statement of the branch in its operation order, exponent `%d` -/" % (d, k))
        out.append("theorem closed_near_%d (S : StdModel fl u) (hD : DyadicExact fl %d) (row : List F)\n"
                   "    (h : row.length = %d) (qt : Quarter) :\n"
                   "    NearL fl u %d (F90.subdivideClosed %d (row.map (Fl.mk (fl := fl))) qt)\n"
                   "      (F90.subdivideClosed %d row qt) (F90.subdivideClosed %d (row.map (|·|)) qt) := by"
                   % (d, d, n, k, d, d, d))
        out.append("  obtain ⟨%s, rfl⟩ := list_of_length_%d row h" % (", ".join(vs), n))
        consts = sorted({r[1].denominator for _, _, r in forms[d] if r[0] == "form"})
        mults = sorted({m for _, _, r in forms[d] if r[0] == "form" for m, _ in r[2] if m != 1})
        for c in consts:
            out.append("  have h%d : Near fl u 0 ((1 : Fl F fl) / ((%d : ℕ) : Fl F fl)) (1 / ((%d : ℕ) : F)) (1 / ((%d : ℕ) : F)) :=\n"
                       "    near_inv_pow S hD %d (by decide)" % (c, c, c, c, c.bit_length() - 1))
        for m in mults:
            out.append("  have m%d := Near.natCast (fl := fl) 0 S %d" % (m, m))
        for i in range(1, n + 1):
            out.append("  have e%d := Near.exact 0 S v%d" % (i, i))
        # one `have` per computed statement
        for name, kk, rhs in forms[d]:
            if rhs[0] == "copy":
                continue
            out.append("  have %s : Near fl u %d _ _ _ :=\n    %s" % (var(name, kk), k, near_term(rhs, k)))
        out.append("  cases qt <;>\n"
                   "    simp only [F90.subdivideClosed, F90.subdivideClosed%d, List.map_cons, List.map_nil]" % d)
        for L in LETTERS:
            names = []
            for kk in range(1, n + 1):
                (rn, rk), _ = root("nodes_" + L, kk)
                names.append(var(rn, rk))
            term = ".nil"
            for nm in reversed(names):
                term = "(.cons %s %s)" % (nm, term)
            out.append("  · exact " + term)
        out.append("")
    out.append("end Rounding\n")
    out.append("end BezierVerif.TriClosed")
    return "\n".join(out) + "\n"


CONSTS = '''/-! ## the constants `1/2^m` -/
section Consts
variable {F : Type} [Field F] [LinearOrder F] [IsStrictOrderedRing F] {fl : F → F} {u : F}

/-- the leading constants `0.5, 0.25, 0.125, 0.0625` in the spelling of the model: one division of
    exact operands, exact as soon as `1/2^m` is a number of the arithmetic -/
theorem inv_pow_exact {n : ℕ} (hD : DyadicExact fl n) (m : ℕ) (hm : m ≤ n) :
    (1 : Fl F fl) / (((2^m : ℕ) : ℕ) : Fl F fl) = ⟨1 / (((2^m : ℕ) : ℕ) : F)⟩ := by
  have h1 := hD m 1 hm Nat.one_le_two_pow
  show (⟨fl (1 / (((2^m : ℕ) : ℕ) : F))⟩ : Fl F fl) = _
  have e : ((1 : ℕ) : F) / 2^m = 1 / (((2^m : ℕ) : ℕ) : F) := by push_cast; rfl
  rw [← e, h1]

theorem near_inv_pow (S : StdModel fl u) {n : ℕ} (hD : DyadicExact fl n) (m : ℕ) (hm : m ≤ n) :
    Near fl u 0 ((1 : Fl F fl) / (((2^m : ℕ) : ℕ) : Fl F fl)) (1 / (((2^m : ℕ) : ℕ) : F))
      (1 / (((2^m : ℕ) : ℕ) : F)) := by
  rw [inv_pow_exact hD m hm]
  exact Near.exact_nonneg S 0 (by positivity)

end Consts
'''


# ------------------------------------------------------------------------------------------- main
def self_test(forms):
    """the coefficient matrices against a direct evaluation of the syntax trees on unit nets"""
    for d, st in forms.items():
        n = NN[d]
        for r in range(n):
            env = {}
            unit = [Fr(int(i == r)) for i in range(n)]
            for name, k, rhs in st:
                if rhs[0] == "in":
                    env[(name, k)] = unit[rhs[1] - 1]
                elif rhs[0] == "copy":
                    env[(name, k)] = env[(rhs[1], rhs[2])]
                else:
                    acc = None
                    for m, j in rhs[2]:
                        t = unit[j - 1] if m == 1 else m * unit[j - 1]
                        acc = t if acc is None else acc + t
                    env[(name, k)] = rhs[1] * acc
            for L in LETTERS:
                M = matrix(st, d, L)
                for c in range(n):
                    assert M[r][c] == env[("nodes_" + L, c + 1)], (d, L, r, c)
        for L in LETTERS:
            M = matrix(st, d, L)
            for c in range(n):
                assert sum(M[r][c] for r in range(n)) == 1, ("column sum", d, L, c)


def main():
    ap = argparse.ArgumentParser()
    ap.add_argument("--repo", default="/repo")
    ap.add_argument("--root", default=os.path.normpath(os.path.join(os.path.dirname(os.path.abspath(__file__)), "..", "..")))
    ap.add_argument("--check", action="store_true")
    a = ap.parse_args()
    forms = parse_subdivide(a.repo)
    self_test(forms)
    for d in sorted(forms):
        st = forms[d]
        es = [exponent(r) for _, _, r in st if r[0] == "form"]
        print("degree %d: %d statements (%d computed, %d copies of inputs, %d copies of outputs), "
              "longest sum %d terms, exponent k_%d = %d" % (
                  d, len(st), len(es), sum(r[0] == "in" for _, _, r in st), sum(r[0] == "copy" for _, _, r in st),
                  max(len(r[2]) for _, _, r in st if r[0] == "form"), d, max(es)))
    if a.check:
        return 0
    lean = os.path.join(a.root, "lean", "BezierVerif")
    for rel, text in (("Model/TriangleF90Closed.lean", gen_model(forms)),
                      ("Lemmas/RoundingTriClosed.lean", gen_lemmas(forms))):
        with open(os.path.join(lean, rel), "w") as f:
            f.write(text)
        print("wrote", os.path.join(lean, rel))
    return 0


if __name__ == "__main__":
    sys.exit(main())
