#!/venv/bin/python
"""Re-run our check(s) against an already recorded seeded change (seeded/<NAME>/patch.diff) and update its meta.json.

usage: recheck_seed.py <NAME> <PROPERTY ID> [quick|thorough] [more property ids...]
The patched tree is a scratch worktree of /repo's HEAD; the check runs in a private copy of the framework with
BEZIER_REPO pointing at it (equivalent to `git -C /repo apply`, but several can run side by side)."""
import json
import os
import re
import shutil
import subprocess
import sys
import time

VERIF = os.path.dirname(os.path.dirname(os.path.dirname(os.path.abspath(__file__))))


def sh(cmd, **kw):
    return subprocess.run(cmd, stdout=subprocess.PIPE, stderr=subprocess.STDOUT, text=True, **kw)


def main():
    name, prop = sys.argv[1], sys.argv[2]
    tier = sys.argv[3] if len(sys.argv) > 3 and sys.argv[3] in ("quick", "thorough") else "quick"
    props = [prop] + [a for a in sys.argv[3:] if re.fullmatch(r"C\d+", a)]
    dest = os.path.join(VERIF, "seeded", name)
    wt = "/tmp/recheck_wt_%d" % os.getpid()
    priv = "/var/tmp/verif-recheck-%d/verif" % os.getpid()
    sh(["git", "-C", "/repo", "worktree", "add", "--detach", wt, "HEAD"])
    try:
        r = sh(["git", "apply", os.path.join(dest, "patch.diff")], cwd=wt)
        if r.returncode != 0:
            print("patch does not apply: " + r.stdout)
            return 2
        os.makedirs(priv)
        sh(["rsync", "-a", "--exclude", ".git", "--exclude", "replays", "--exclude", "evidence/.tmp", VERIF + "/", priv + "/"])
        env = dict(os.environ, BEZIER_REPO=wt, BEZIER_VERIF_BUILD="/var/tmp/bezier-recheck-%d" % os.getpid())
        with open(os.path.join(dest, "meta.json")) as fh:
            meta = json.load(fh)
        for p in props:
            t0 = time.time()
            r = sh([os.path.join(priv, "check"), p, tier], cwd=priv, env=env)
            rp = os.path.join(priv, "replays")
            if os.path.isdir(rp):
                os.makedirs(os.path.join(VERIF, "replays"), exist_ok=True)
                for f in os.listdir(rp):
                    shutil.copy(os.path.join(rp, f), os.path.join(VERIF, "replays", f))
            lines = [l for l in r.stdout.split("\n") if l.startswith(("VIOLATION", "KNOWN-FINDING", "INFRASTRUCTURE"))]
            first = meta.get("checks", {}).get(p)
            rec = {"tier": tier, "rc": r.returncode, "lines": lines[:12], "wall_s": round(time.time() - t0, 1),
                   "detected": r.returncode == 1 and any(l.startswith("VIOLATION") for l in lines),
                   "with_failing_input": any(l.startswith("VIOLATION") and "no-failing-input-found" not in l for l in lines),
                   "rechecked_at": time.strftime("%Y-%m-%dT%H:%M:%S")}
            if first and not first.get("detected") and "first_run" not in first:
                rec["first_run"] = {k: first.get(k) for k in ("rc", "detected", "with_failing_input", "lines")}
            elif first and "first_run" in first:
                rec["first_run"] = first["first_run"]
            meta.setdefault("checks", {})[p] = rec
            print("%s vs %s: rc=%d detected=%s failing_input=%s  %.0fs" % (name, p, r.returncode, rec["detected"], rec["with_failing_input"], rec["wall_s"]))
            for l in lines:
                if l.startswith("VIOLATION"):
                    print("   " + l)
            if os.environ.get("RECHECK_VERBOSE"):
                print(r.stdout[-3000:])
        with open(os.path.join(dest, "meta.json"), "w") as fh:
            json.dump(meta, fh, indent=1)
    finally:
        sh(["git", "-C", "/repo", "worktree", "remove", "--force", wt])
        shutil.rmtree(os.path.dirname(priv), ignore_errors=True)
        shutil.rmtree("/var/tmp/bezier-recheck-%d" % os.getpid(), ignore_errors=True)
    return 0


if __name__ == "__main__":
    sys.exit(main())
