#!/venv/bin/python
"""self-test of harness/exact.py: the O(n^2) path of specialize_exact equals the blossom definition"""
import os
import random
import sys
from fractions import Fraction as Fr
sys.path.insert(0, os.path.join(os.path.dirname(os.path.abspath(__file__)), ".."))
import exact as X  # noqa: E402

rnd = random.Random(1)
bad = 0
for n in (13, 14, 17, 20):
    for _ in range(6):
        row = [Fr(rnd.randint(-50, 50), rnd.choice([1, 2, 8])) for _ in range(n + 1)]
        for a, b in [(Fr(0), Fr(1)), (Fr(1), Fr(0)), (Fr(1, 4), Fr(3, 4)), (Fr(3, 4), Fr(1, 4)), (Fr(-1), Fr(2)), (Fr(1, 3), Fr(0)), (Fr(0), Fr(0)),
                     (Fr(1), Fr(1)), (Fr(rnd.randint(-8, 16), 8), Fr(rnd.randint(-8, 16), 8))]:
            want = [X.blossom(row, [a] * (n - i) + [b] * i) for i in range(n + 1)]
            if X.specialize_exact(row, a, b) != want:
                bad += 1
                print("MISMATCH n=%d a=%s b=%s" % (n, a, b))
print("selftest_exact: %s" % ("ok" if not bad else "%d mismatches" % bad))
sys.exit(1 if bad else 0)
