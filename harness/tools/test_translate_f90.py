#!/venv/bin/python
"""Self-test of harness/translate_f90.py + lean/BezierVerif/Tables/SrcF90.lean.

For each case a COPY of the two Fortran sources (temp dir) is edited inside ONE routine (anchored: the old text must
occur exactly once in that routine), the translator is re-run with BEZIER_REPO pointing at the copy and an alternative
output file, and Tables/SrcF90.lean is re-checked against that output (a scratch copy of the two Lean files, compiled
with `lean` directly on the framework's search path; the framework's own files and build products are not touched).

  * semantic mutations (`<=`->`<`, swapped operands, wrong sign, wrong index, changed constant, wrong enum,
    `.AND.`->`.OR.`, ...): at least one theorem has to break;
  * harmless rewrites (renamed local, reordered independent assignments, comments / layout / keyword case ...): the
    theorems should survive; reported honestly (rewrites that are only harmless modulo algebra are listed as such).

Usage: harness/tools/test_translate_f90.py [-j N] [--keep] [--only NAME] [--match REGEX]      exit status 0 iff every expectation is met
"""
import concurrent.futures
import os
import re
import shutil
import subprocess
import sys
import tempfile
import time

HERE = os.path.dirname(os.path.abspath(__file__))
HARNESS = os.path.dirname(HERE)
VERIF = os.path.dirname(HARNESS)
LEAN = os.path.join(VERIF, "lean")
REPO = os.environ.get("BEZIER_REPO", "/repo")
PY = "/venv/bin/python" if os.path.exists("/venv/bin/python") else sys.executable
FILES = ["helpers.f90", "curve_intersection.f90", "curve.f90", "triangle.f90", "status.f90", "triangle_intersection.f90"]
TABLES = ["SrcF90.lean", "SrcF90Kernels.lean", "SrcF90Pipeline.lean"]


def routine_span(text, name):
    m = re.search(r"^[^\n!]*\b(?:subroutine|function)\s+%s\b" % re.escape(name), text, re.M | re.I)
    e = re.search(r"^\s*end\s+(?:subroutine|function)\s+%s\b" % re.escape(name), text, re.M | re.I)
    if not m or not e:
        raise KeyError("routine %s not found" % name)
    return m.start(), e.end()


def edit(fname, routine, old, new, count=1):
    """replace `old` by `new` inside `routine` of file `fname` (old must occur exactly `count` times there;
    routine None = whole file)"""
    return ("edit", fname, routine, old, new, count)


# (name, kind, description, [edits])       kind: 'mutation' (must break) | 'harmless' (should survive) | 'caveat' (harmless only modulo algebra / garbage / tuple layout: reported, not judged)
CASES = [
    ("le_to_lt", "mutation", "in_interval: `start <= value_` -> `start < value_`",
     [edit("helpers.f90", "in_interval", "(start <= value_)", "(start < value_)")]),
    ("wrong_index", "mutation", "cross_product: `vec0(2) * vec1(1)` -> `vec0(1) * vec1(1)`",
     [edit("helpers.f90", "cross_product", "vec0(2) * vec1(1)", "vec0(1) * vec1(1)")]),
    ("swapped_operands", "mutation", "segment_intersection: `start1 - start0` -> `start0 - start1`",
     [edit("curve_intersection.f90", "segment_intersection", "start_delta = start1 - start0", "start_delta = start0 - start1")]),
    ("wrong_sign", "mutation", "solve2x2: `lhs(1, 2) - ratio * lhs(2, 2)` -> `+`",
     [edit("helpers.f90", "solve2x2", "denominator = lhs(1, 2) - ratio * lhs(2, 2)", "denominator = lhs(1, 2) + ratio * lhs(2, 2)")]),
    ("changed_literal", "mutation", "wiggle_interval: `1.0_dp - WIGGLE < value_` -> `2.0_dp - WIGGLE < value_`",
     [edit("helpers.f90", "wiggle_interval", "1.0_dp - WIGGLE < value_ .AND.", "2.0_dp - WIGGLE < value_ .AND.")]),
    ("changed_parameter", "mutation", "module parameter `WIGGLE = 0.5_dp**44` -> `0.5_dp**45`",
     [edit("helpers.f90", None, "WIGGLE = 0.5_dp**44", "WIGGLE = 0.5_dp**45")]),
    ("wrong_enum", "mutation", "bbox_intersect: `enum_ = BoxIntersectionType_TANGENT` -> `..._DISJOINT`",
     [edit("curve_intersection.f90", "bbox_intersect", "enum_ = BoxIntersectionType_TANGENT", "enum_ = BoxIntersectionType_DISJOINT")]),
    ("enum_value", "mutation", "module parameter `BoxIntersectionType_DISJOINT = 2` -> `= 3`",
     [edit("curve_intersection.f90", None, "BoxIntersectionType_DISJOINT = 2", "BoxIntersectionType_DISJOINT = 3")]),
    ("and_to_or", "mutation", "bbox_line_intersect: first end point test `.AND.` -> `.OR.`",
     [edit("curve_intersection.f90", "bbox_line_intersect",
           "in_interval(line_start(1), left, right) .AND.", "in_interval(line_start(1), left, right) .OR.")]),
    ("lt_to_le_parallel", "mutation", "parallel_lines_parameters: `if (1.0_dp < s_val0)` -> `<=` (first occurrence)",
     [edit("curve_intersection.f90", "parallel_lines_parameters",
           "if (1.0_dp < s_val0) then\n          disjoint = .TRUE.", "if (1.0_dp <= s_val0) then\n          disjoint = .TRUE.")]),
    ("wrong_element", "mutation", "parallel_lines_parameters: `parameters(2, 2) = s_val0 / (s_val0 - s_val1)` written to (2, 1)",
     [edit("curve_intersection.f90", "parallel_lines_parameters",
           "parameters(2, 2) = s_val0 / (s_val0 - s_val1)", "parameters(2, 1) = s_val0 / (s_val0 - s_val1)")]),
    ("strict_mask", "mutation", "contains_nd: `any(point < minval(nodes, 2))` -> `<=`",
     [edit("helpers.f90", "contains_nd", "any(point < minval(nodes, 2))", "any(point <= minval(nodes, 2))")]),
    ("bbox_component", "mutation", "bbox: `left = workspace(1)` -> `workspace(2)`",
     [edit("helpers.f90", "bbox", "left = workspace(1)", "left = workspace(2)")]),
    ("min_to_max", "mutation", "vector_close: `min(size1, size2)` -> `max(size1, size2)`",
     [edit("helpers.f90", "vector_close", "min(size1, size2)", "max(size1, size2)")]),
    ("dropped_not", "mutation", "line_line_collide: `collision = .NOT. success` -> `collision = success`",
     [edit("curve_intersection.f90", "line_line_collide", "collision = .NOT. success", "collision = success")]),
    ("skipped_edge", "mutation", "bbox_line_intersect: top edge runs to `bottom` instead of `top` (segment_end(2))",
     [edit("curve_intersection.f90", "bbox_line_intersect",
           "segment_end(1) = left\n    segment_end(2) = top", "segment_end(1) = left\n    segment_end(2) = bottom")]),
    ("dropped_return", "mutation", "solve2x2: the `return` after the first `singular = .TRUE.` removed",
     [edit("helpers.f90", "solve2x2",
           "       if (denominator == 0.0_dp) then\n          singular = .TRUE.\n          return\n       end if\n\n       y_val = (rhs(1)",
           "       if (denominator == 0.0_dp) then\n          singular = .TRUE.\n       end if\n\n       y_val = (rhs(1)")]),
    ("loop_start", "mutation", "is_separating: first loop `do i = 2, polygon_size1` -> `do i = 3, polygon_size1` (a vertex is skipped)",
     [edit("helpers.f90", "is_separating", "do i = 2, polygon_size1", "do i = 3, polygon_size1")]),
    ("loop_min_max", "mutation", "is_separating: `min_param2 = min(min_param2, param)` -> `max(...)`",
     [edit("helpers.f90", "is_separating", "min_param2 = min(min_param2, param)", "min_param2 = max(min_param2, param)")]),
    ("loop_wrong_polygon", "mutation", "polygon_collide: second loop takes the edges of polygon1 instead of polygon2",
     [edit("helpers.f90", "polygon_collide", "edge_direction = polygon2(:, i) - polygon2(:, i - 1)",
           "edge_direction = polygon1(:, i) - polygon1(:, i - 1)")]),
    ("loop_or_to_and", "mutation", "is_separating: `min_param1 > max_param2 .OR. max_param1 < min_param2` -> `.AND.`",
     [edit("helpers.f90", "is_separating", "min_param1 > max_param2 .OR. max_param1 < min_param2",
           "min_param1 > max_param2 .AND. max_param1 < min_param2")]),
    ("linerr_constant", "mutation", "linearization_error: `0.125_dp` -> `0.25_dp`",
     [edit("curve_intersection.f90", "linearization_error", "error = 0.125_dp *", "error = 0.25_dp *")]),
    ("linerr_section", "mutation", "linearization_error: middle section `nodes(:, 2:num_nodes - 1)` -> `nodes(:, 1:num_nodes - 2)`",
     [edit("curve_intersection.f90", "linearization_error", "2.0_dp * nodes(:, 2:num_nodes - 1)", "2.0_dp * nodes(:, 1:num_nodes - 2)")]),
    ("linerr_degree", "mutation", "linearization_error: `(num_nodes - 1) * (num_nodes - 2)` -> `(num_nodes - 1) * (num_nodes - 1)`",
     [edit("curve_intersection.f90", "linearization_error", "(num_nodes - 1) * (num_nodes - 2)", "(num_nodes - 1) * (num_nodes - 1)")]),
    ("linerr_guard", "mutation", "linearization_error: `if (num_nodes == 2)` -> `if (num_nodes == 3)`",
     [edit("curve_intersection.f90", "linearization_error", "if (num_nodes == 2) then", "if (num_nodes == 3) then")]),
    ("untranslatable", "mutation", "cross_product: a `do while` loop inserted (outside the accepted subset -> EXTRACT-PROBLEM)",
     [edit("helpers.f90", "cross_product", "    result_ = vec0(1) * vec1(2)",
           "    do while (.FALSE.)\n    end do\n    result_ = vec0(1) * vec1(2)")]),
    # ------------------------------------------------------------------ harmless
    ("rename_local", "harmless", "segment_intersection: local `other_cross` renamed to `oc_tmp`; bbox: `workspace` -> `ws`",
     [edit("curve_intersection.f90", "segment_intersection", "other_cross", "oc_tmp", 5),
      edit("helpers.f90", "bbox", "workspace", "ws", 7)]),
    ("reorder_independent", "harmless", "segment_intersection: `delta0 = ...` / `delta1 = ...` swapped; bbox_line_intersect: "
     "`segment_start(1) = left` / `segment_start(2) = bottom` swapped; bbox: min block after max block",
     [edit("curve_intersection.f90", "segment_intersection",
           "    delta0 = end0 - start0\n    delta1 = end1 - start1\n", "    delta1 = end1 - start1\n    delta0 = end0 - start0\n"),
      edit("curve_intersection.f90", "bbox_line_intersect",
           "    segment_start(1) = left\n    segment_start(2) = bottom\n", "    segment_start(2) = bottom\n    segment_start(1) = left\n"),
      edit("helpers.f90", "bbox",
           "    workspace = minval(nodes, 2)\n    left = workspace(1)\n    bottom = workspace(2)\n    workspace = maxval(nodes, 2)\n    right = workspace(1)\n    top = workspace(2)\n",
           "    workspace = maxval(nodes, 2)\n    right = workspace(1)\n    top = workspace(2)\n    workspace = minval(nodes, 2)\n    left = workspace(1)\n    bottom = workspace(2)\n")]),
    ("comments_layout", "harmless", "comments added / changed, continuation lines re-broken, keywords in other case (`.and.`, `THEN`, `END IF`)",
     [edit("helpers.f90", "solve2x2", "    ! A <--> lhs(1, 1)", "    ! (comment changed) A is lhs(1, 1) ! and more"),
      edit("helpers.f90", "wiggle_interval", "    if (-WIGGLE < value_ .AND. value_ < WIGGLE) then",
           "    ! a new comment\n    IF (-wiggle < value_ &\n      .and. value_ < WIGGLE) THEN   ! trailing comment"),
      edit("helpers.f90", "in_interval", "    predicate = (start <= value_) .AND. (value_ <= end)",
           "    predicate = (start <= value_) &\n         .and. (value_ <= end)"),
      edit("curve_intersection.f90", "bbox_intersect", "    end if\n", "    END IF\n")]),
    ("negated_branches", "harmless", "segment_intersection: `if (c == 0) A else B` rewritten `if (c /= 0) B else A`",
     [edit("curve_intersection.f90", "segment_intersection",
           "    if (cross_d0_d1 == 0.0_dp) then\n       success = .FALSE.\n    else\n", "    if (cross_d0_d1 /= 0.0_dp) then\n"),
      edit("curve_intersection.f90", "segment_intersection",
           "       success = .TRUE.\n    end if\n", "       success = .TRUE.\n    else\n       success = .FALSE.\n    end if\n")]),
    ("gt_for_lt", "harmless", "parallel_lines_parameters: `if (s_val1 < 0.0_dp)` written `if (0.0_dp > s_val1)` (first occurrence)",
     [edit("curve_intersection.f90", "parallel_lines_parameters",
           "       if (s_val1 < 0.0_dp) then\n          disjoint = .TRUE.", "       if (0.0_dp > s_val1) then\n          disjoint = .TRUE.")]),
    ("extra_temporary", "harmless", "bbox_intersect: the first condition evaluated into a new logical local first",
     [edit("curve_intersection.f90", "bbox_intersect", "    real(c_double) :: left2, right2, bottom2, top2\n",
           "    real(c_double) :: left2, right2, bottom2, top2\n    logical(c_bool) :: apart\n"),
      edit("curve_intersection.f90", "bbox_intersect",
           "    if ( &\n         right2 < left1 .OR. right1 < left2 .OR. &\n         top2 < bottom1 .OR. top1 < bottom2) then\n",
           "    apart = ( &\n         right2 < left1 .OR. right1 < left2 .OR. &\n         top2 < bottom1 .OR. top1 < bottom2)\n    if (apart) then\n")]),
    ("rename_loop_var", "harmless", "is_separating: do variable `i` renamed `k`, `vertex` renamed `vtx`; polygon_collide: `i` -> `idx`",
     [edit("helpers.f90", "is_separating", "integer(c_int) :: i\n", "integer(c_int) :: k\n"),
      edit("helpers.f90", "is_separating", "do i = 2, polygon_size1", "do k = 2, polygon_size1"),
      edit("helpers.f90", "is_separating", "do i = 2, polygon_size2", "do k = 2, polygon_size2"),
      edit("helpers.f90", "is_separating", "vertex = polygon1(:, i)", "vertex = polygon1(:, k)"),
      edit("helpers.f90", "is_separating", "vertex = polygon2(:, i)", "vertex = polygon2(:, k)"),
      edit("helpers.f90", "is_separating", "vertex", "vtx", 9),
      edit("helpers.f90", "polygon_collide", "integer(c_int) :: i\n", "integer(c_int) :: idx\n"),
      edit("helpers.f90", "polygon_collide", "do i = 2, polygon_size1", "do idx = 2, polygon_size1"),
      edit("helpers.f90", "polygon_collide", "do i = 2, polygon_size2", "do idx = 2, polygon_size2"),
      edit("helpers.f90", "polygon_collide", "polygon1(:, i) - polygon1(:, i - 1)", "polygon1(:, idx) - polygon1(:, idx - 1)"),
      edit("helpers.f90", "polygon_collide", "polygon2(:, i) - polygon2(:, i - 1)", "polygon2(:, idx) - polygon2(:, idx - 1)")]),
    ("loop_body_reorder", "harmless", "is_separating: `min_param1 = ...` / `max_param1 = ...` swapped inside the first loop body",
     [edit("helpers.f90", "is_separating",
           "       min_param1 = min(min_param1, param)\n       max_param1 = max(max_param1, param)\n",
           "       max_param1 = max(max_param1, param)\n       min_param1 = min(min_param1, param)\n")]),
    # ------------------------------------------------------------------ numeric kernels (curve.f90)
    ("vs_loop_bound", "mutation", "evaluate_curve_vs: `do i = 2, num_nodes - 1` -> `do i = 2, num_nodes` (loop bound off by one)",
     [edit("curve.f90", "evaluate_curve_vs", "do i = 2, num_nodes - 1", "do i = 2, num_nodes")]),
    ("vs_binomial", "mutation", "evaluate_curve_vs: binomial update `(num_nodes - i + 1)` -> `(num_nodes - i)`",
     [edit("curve.f90", "evaluate_curve_vs", "binom_val * (num_nodes - i + 1)", "binom_val * (num_nodes - i)")]),
    ("vs_swapped_lambda", "mutation", "evaluate_curve_vs: `lambda2_pow = lambda2_pow * lambda2` -> `* lambda1` (swapped lambda powers)",
     [edit("curve.f90", "evaluate_curve_vs", "lambda2_pow = lambda2_pow * lambda2", "lambda2_pow = lambda2_pow * lambda1")]),
    ("vs_running_update", "mutation", "evaluate_curve_vs: running value multiplied by `lambda2(j)` instead of `lambda1(j)`",
     [edit("curve.f90", "evaluate_curve_vs", "nodes(:, i)) * lambda1(j)", "nodes(:, i)) * lambda2(j)")]),
    ("vs_not_uniform", "mutation", "evaluate_curve_vs: `lambda1(j)` -> `lambda1(1)` inside the forall (the num_vals axis is no longer "
     "uniform -> EXTRACT-PROBLEM)",
     [edit("curve.f90", "evaluate_curve_vs", "nodes(:, i)) * lambda1(j)", "nodes(:, i)) * lambda1(1)")]),
    ("dc_wrong_index", "mutation", "evaluate_curve_de_casteljau: `workspace(:, :, 2:(i+1))` -> `workspace(:, :, 1:i)`",
     [edit("curve.f90", "evaluate_curve_de_casteljau", "workspace(:, :, 2:(i+1))", "workspace(:, :, 1:i)")]),
    ("dc_loop_bound", "mutation", "evaluate_curve_de_casteljau: `do i = num_nodes - 2, 1, -1` -> `do i = num_nodes - 2, 2, -1`",
     [edit("curve.f90", "evaluate_curve_de_casteljau", "do i = num_nodes - 2, 1, -1", "do i = num_nodes - 2, 2, -1")]),
    ("bary_threshold", "mutation", "evaluate_curve_barycentric: `num_nodes > 55` -> `num_nodes > 54`",
     [edit("curve.f90", "evaluate_curve_barycentric", "if (num_nodes > 55) then", "if (num_nodes > 54) then")]),
    ("multi_one_less", "mutation", "evaluate_multi: `one_less = 1.0_dp - s_vals` -> `1.0_dp + s_vals`",
     [edit("curve.f90", "evaluate_multi", "one_less = 1.0_dp - s_vals", "one_less = 1.0_dp + s_vals")]),
    ("hodograph_difference", "mutation", "evaluate_hodograph: `nodes(:, 2:) - nodes(:, :num_nodes - 1)` with the operands swapped",
     [edit("curve.f90", "evaluate_hodograph", "first_deriv = nodes(:, 2:) - nodes(:, :num_nodes - 1)",
           "first_deriv = nodes(:, :num_nodes - 1) - nodes(:, 2:)")]),
    ("hodograph_factor", "mutation", "evaluate_hodograph: `(num_nodes - 1) * hodograph` -> `num_nodes * hodograph`",
     [edit("curve.f90", "evaluate_hodograph", "hodograph = (num_nodes - 1) * hodograph", "hodograph = num_nodes * hodograph")]),
    ("elevate_weight", "mutation", "elevate_nodes: `(num_nodes - i) * nodes(:, i + 1)` -> `(num_nodes - i + 1) * ...`",
     [edit("curve.f90", "elevate_nodes", "(num_nodes - i) * nodes(:, i + 1)", "(num_nodes - i + 1) * nodes(:, i + 1)")]),
    ("elevate_index", "mutation", "elevate_nodes: `i * nodes(:, i)` -> `i * nodes(:, i + 1)` (wrong index)",
     [edit("curve.f90", "elevate_nodes", "i * nodes(:, i) +", "i * nodes(:, i + 1) +")]),
    ("elevate_forall_bound", "mutation", "elevate_nodes: `forall (i = 1:num_nodes - 1)` -> `forall (i = 1:num_nodes - 2)`",
     [edit("curve.f90", "elevate_nodes", "forall (i = 1:num_nodes - 1)", "forall (i = 1:num_nodes - 2)")]),
    ("subdivide_closed", "mutation", "subdivide_nodes (3 nodes): `nodes(:, 1) + 2 * nodes(:, 2) + nodes(:, 3)` -> `3 * nodes(:, 2)`",
     [edit("curve.f90", "subdivide_nodes",
           "    else if (num_nodes == 3) then\n       left_nodes(:, 1) = nodes(:, 1)\n       left_nodes(:, 2) = 0.5_dp * (nodes(:, 1) + nodes(:, 2))\n"
           "       left_nodes(:, 3) = 0.25_dp * ( &\n            nodes(:, 1) + 2 * nodes(:, 2) + nodes(:, 3))",
           "    else if (num_nodes == 3) then\n       left_nodes(:, 1) = nodes(:, 1)\n       left_nodes(:, 2) = 0.5_dp * (nodes(:, 1) + nodes(:, 2))\n"
           "       left_nodes(:, 3) = 0.25_dp * ( &\n            nodes(:, 1) + 3 * nodes(:, 2) + nodes(:, 3))")]),
    ("subdivide_pascal", "mutation", "subdivide_nodes_generic: `pascals_triangle(elt_index:1:-1)` -> `pascals_triangle(:elt_index)` (no reversal)",
     [edit("curve.f90", "subdivide_nodes_generic", "pascals_triangle(:elt_index) + pascals_triangle(elt_index:1:-1))",
           "pascals_triangle(:elt_index) + pascals_triangle(:elt_index))")]),
    ("subdivide_inner_bound", "mutation", "subdivide_nodes_generic: `do pascal_index = 1, elt_index` -> `1, elt_index - 1`",
     [edit("curve.f90", "subdivide_nodes_generic", "do pascal_index = 1, elt_index", "do pascal_index = 1, elt_index - 1")]),
    ("subdivide_right_index", "mutation", "subdivide_nodes_generic: `nodes(:, num_nodes + 1 - pascal_index)` -> `nodes(:, pascal_index)`",
     [edit("curve.f90", "subdivide_nodes_generic", "nodes(:, num_nodes + 1 - pascal_index))", "nodes(:, pascal_index))")]),
    ("subdivide_dropped_copy", "mutation", "subdivide_nodes_generic: the final `right_nodes(:, 1) = left_nodes(:, num_nodes)` removed",
     [edit("curve.f90", "subdivide_nodes_generic", "    right_nodes(:, 1) = left_nodes(:, num_nodes)\n", "")]),
    ("specialize_quadratic", "mutation", "specialize_curve_quadratic: `(end_ + start - 2.0_dp * prod_both)` -> `(end_ - start - ...)`",
     [edit("curve.f90", "specialize_curve_quadratic", "(end_ + start - 2.0_dp * prod_both)", "(end_ - start - 2.0_dp * prod_both)")]),
    ("specialize_linear", "mutation", "specialize_curve (2 nodes): `(1.0_dp - end_) * nodes(:, 1)` -> `(1.0_dp - start) * nodes(:, 1)`",
     [edit("curve.f90", "specialize_curve", "new_nodes(:, 2) = (1.0_dp - end_) * nodes(:, 1)", "new_nodes(:, 2) = (1.0_dp - start) * nodes(:, 1)")]),
    ("newton_sign", "mutation", "newton_refine: `pt_delta = point - pt_delta` -> `pt_delta - point`",
     [edit("curve.f90", "newton_refine", "pt_delta = point - pt_delta", "pt_delta = pt_delta - point")]),
    ("curvature_degree", "mutation", "get_curvature: `concavity * (num_nodes - 1) * (num_nodes - 2)` -> `... * (num_nodes - 3)`",
     [edit("curve.f90", "get_curvature", "concavity * (num_nodes - 1) * (num_nodes - 2)", "concavity * (num_nodes - 1) * (num_nodes - 3)")]),
    ("curvature_difference", "mutation", "get_curvature: second difference `work(:, 2:) - work(:, :num_nodes - 2)` with operands swapped",
     [edit("curve.f90", "get_curvature", "work(:, :num_nodes - 2) = work(:, 2:) - work(:, :num_nodes - 2)",
           "work(:, :num_nodes - 2) = work(:, :num_nodes - 2) - work(:, 2:)")]),
    ("kernel_renames", "harmless", "evaluate_curve_vs: `binom_val` -> `bv`, do variable `i` -> `k` in the main loop; elevate_nodes: forall index renamed",
     [edit("curve.f90", "evaluate_curve_vs", "binom_val", "bv", 5),
      edit("curve.f90", "evaluate_curve_vs", "    do i = 2, num_nodes - 1\n", "    do k = 2, num_nodes - 1\n"),
      edit("curve.f90", "evaluate_curve_vs", "bv * (num_nodes - i + 1)) / (i - 1)", "bv * (num_nodes - k + 1)) / (k - 1)"),
      edit("curve.f90", "evaluate_curve_vs", "lambda2_pow(j) * nodes(:, i)) * lambda1(j)", "lambda2_pow(j) * nodes(:, k)) * lambda1(j)"),
      edit("curve.f90", "evaluate_curve_vs", "integer(c_int) :: i, j", "integer(c_int) :: i, j, k"),
      edit("curve.f90", "elevate_nodes", "integer(c_int) :: i\n", "integer(c_int) :: idx\n"),
      edit("curve.f90", "elevate_nodes", "forall (i = 1:num_nodes - 1)", "forall (idx = 1:num_nodes - 1)"),
      edit("curve.f90", "elevate_nodes", "elevated(:, i + 1) = ( &\n            i * nodes(:, i) + (num_nodes - i) * nodes(:, i + 1)) / num_nodes",
           "elevated(:, idx + 1) = ( &\n            idx * nodes(:, idx) + (num_nodes - idx) * nodes(:, idx + 1)) / num_nodes")]),
    ("kernel_reorder", "harmless", "evaluate_curve_vs: `lambda2_pow = ...` / `binom_val = ...` swapped inside the loop; subdivide_nodes_generic: "
     "the two zero-initialisations swapped",
     [edit("curve.f90", "evaluate_curve_vs",
           "       lambda2_pow = lambda2_pow * lambda2\n       binom_val = (binom_val * (num_nodes - i + 1)) / (i - 1)\n",
           "       binom_val = (binom_val * (num_nodes - i + 1)) / (i - 1)\n       lambda2_pow = lambda2_pow * lambda2\n"),
      edit("curve.f90", "subdivide_nodes_generic",
           "       left_nodes(:, elt_index) = 0\n       right_nodes(:, num_nodes + 1 - elt_index) = 0\n",
           "       right_nodes(:, num_nodes + 1 - elt_index) = 0\n       left_nodes(:, elt_index) = 0\n")]),
    # ------------------------------------------------------------------ numeric kernels (triangle.f90)
    ("tri_binomial", "mutation", "evaluate_barycentric_multi: binomial update `(binom_val * (k + 1)) / (degree - k)` -> `(k + 2)`",
     [edit("triangle.f90", "evaluate_barycentric_multi", "binom_val = (binom_val * (k + 1)) / (degree - k)",
           "binom_val = (binom_val * (k + 2)) / (degree - k)")]),
    ("tri_index_update", "mutation", "evaluate_barycentric_multi: `new_index = index_ - degree + k` -> `index_ - degree + k + 1`",
     [edit("triangle.f90", "evaluate_barycentric_multi", "new_index = index_ - degree + k  ! First", "new_index = index_ - degree + k + 1  ! First")]),
    ("tri_loop_bound", "mutation", "evaluate_barycentric_multi: `do k = degree - 1, 0, -1` -> `do k = degree - 1, 1, -1`",
     [edit("triangle.f90", "evaluate_barycentric_multi", "do k = degree - 1, 0, -1", "do k = degree - 1, 1, -1")]),
    ("tri_swapped_lambda", "mutation", "evaluate_barycentric_multi: `param_vals(:, 1), param_vals(:, 2)` passed in the other order",
     [edit("triangle.f90", "evaluate_barycentric_multi", "num_vals, param_vals(:, 1), param_vals(:, 2), row_result)",
           "num_vals, param_vals(:, 2), param_vals(:, 1), row_result)")]),
    ("tri_running_update", "mutation", "evaluate_barycentric_multi: `param_vals(new_index, 3) * evaluated` -> `param_vals(new_index, 2) * ...`",
     [edit("triangle.f90", "evaluate_barycentric_multi", "param_vals(new_index, 3) * evaluated(:, new_index)",
           "param_vals(new_index, 2) * evaluated(:, new_index)")]),
    ("tri_cartesian", "mutation", "evaluate_cartesian_multi: `lambda1_vals = 1.0_dp - param_vals(:, 1) - param_vals(:, 2)` -> `+ param_vals(:, 2)`",
     [edit("triangle.f90", "evaluate_cartesian_multi", "lambda1_vals = 1.0_dp - param_vals(:, 1) - param_vals(:, 2)",
           "lambda1_vals = 1.0_dp - param_vals(:, 1) + param_vals(:, 2)")]),
    ("dc3_parent_start", "mutation", "de_casteljau_one_round: `parent_i3 = degree + 2` -> `degree + 1`",
     [edit("triangle.f90", "de_casteljau_one_round", "parent_i3 = degree + 2", "parent_i3 = degree + 1")]),
    ("dc3_inner_bound", "mutation", "de_casteljau_one_round: `do j = 0, degree - k - 1` -> `do j = 0, degree - k`",
     [edit("triangle.f90", "de_casteljau_one_round", "do j = 0, degree - k - 1", "do j = 0, degree - k")]),
    ("dc3_wrong_parent", "mutation", "de_casteljau_one_round: `lambda2 * nodes(:, parent_i2)` -> `lambda2 * nodes(:, parent_i1)`",
     [edit("triangle.f90", "de_casteljau_one_round", "lambda2 * nodes(:, parent_i2)", "lambda2 * nodes(:, parent_i1)")]),
    ("dc3_row_step", "mutation", "de_casteljau_one_round: the `parent_i2 = parent_i2 + 1` after the inner loop removed",
     [edit("triangle.f90", "de_casteljau_one_round",
           "       parent_i1 = parent_i1 + 1\n       parent_i2 = parent_i2 + 1\n    end do\n\n  end subroutine",
           "       parent_i1 = parent_i1 + 1\n    end do\n\n  end subroutine")]),
    ("tri_renames", "harmless", "evaluate_barycentric_multi: `row_result` -> `rr`; de_casteljau_one_round: inner do variable `j` -> `jj`",
     [edit("triangle.f90", "evaluate_barycentric_multi", "row_result", "rr", 3),
      edit("triangle.f90", "de_casteljau_one_round", "integer(c_int) :: k, j\n", "integer(c_int) :: k, jj\n"),
      edit("triangle.f90", "de_casteljau_one_round", "do j = 0, degree - k - 1", "do jj = 0, degree - k - 1")]),
    # ------------------------------------------------------------------ pipeline routines (Tables/SrcF90Pipeline.lean)
    ("nsr_sign", "mutation", "newton_simple_root: `jacobian(:, 2) = -jacobian(:, 2)` removed (wrong sign of the second column)",
     [edit("curve_intersection.f90", "newton_simple_root", "    jacobian(:, 2) = -jacobian(:, 2)\n", "")]),
    ("nsr_operands", "mutation", "newton_simple_root: `func_val = func_val - workspace` -> `workspace - func_val`",
     [edit("curve_intersection.f90", "newton_simple_root", "func_val = func_val - workspace", "func_val = workspace - func_val")]),
    ("nsr_column", "mutation", "newton_simple_root: B2' written to column 1 instead of column 2 (`jacobian(:, 2:2)` -> `jacobian(:, 1:1)`)",
     [edit("curve_intersection.f90", "newton_simple_root", "first_deriv2, 1, [t], jacobian(:, 2:2))", "first_deriv2, 1, [t], jacobian(:, 1:1))")]),
    ("nsr_all_any", "mutation", "newton_simple_root: `all(func_val == 0.0_dp)` -> `any(...)`",
     [edit("curve_intersection.f90", "newton_simple_root", "if (all(func_val == 0.0_dp)) then", "if (any(func_val == 0.0_dp)) then")]),
    ("ndr_cross", "mutation", "newton_double_root: `cross_product(workspace(:, 1), b2_dt(:, 1), jacobian(3, 1))` with the operands swapped",
     [edit("curve_intersection.f90", "newton_double_root", "call cross_product(workspace(:, 1), b2_dt(:, 1), jacobian(3, 1))",
           "call cross_product(b2_dt(:, 1), workspace(:, 1), jacobian(3, 1))")]),
    ("ndr_guard", "mutation", "newton_double_root: `if (num_nodes1 > 2)` -> `if (num_nodes1 > 3)`",
     [edit("curve_intersection.f90", "newton_double_root", "if (num_nodes1 > 2) then", "if (num_nodes1 > 3) then")]),
    ("ndr_transpose", "mutation", "newton_double_root: `modified_rhs = matmul(transpose(jacobian), func_val)` uses `func_val` of the wrong curve "
     "(`func_val(:2, :) - workspace` -> `+ workspace`)",
     [edit("curve_intersection.f90", "newton_double_root", "func_val(:2, :) = func_val(:2, :) - workspace", "func_val(:2, :) = func_val(:2, :) + workspace")]),
    ("ndr_element", "mutation", "newton_double_root: `jacobian(3, 2) = 0.0_dp` -> `jacobian(3, 1) = 0.0_dp`",
     [edit("curve_intersection.f90", "newton_double_root", "       jacobian(3, 2) = 0.0_dp", "       jacobian(3, 1) = 0.0_dp")]),
    ("edge_index2", "mutation", "compute_edge_nodes: `index2 = index2 - index1 + degree + 1` -> `... + degree`",
     [edit("triangle.f90", "compute_edge_nodes", "index2 = index2 - index1 + degree + 1", "index2 = index2 - index1 + degree")]),
    ("edge_index3", "mutation", "compute_edge_nodes: `index3 = index3 - index1 - 1` -> `index3 - index1`",
     [edit("triangle.f90", "compute_edge_nodes", "index3 = index3 - index1 - 1", "index3 = index3 - index1")]),
    ("edge_start", "mutation", "compute_edge_nodes: `index2 = degree + 1` -> `degree`",
     [edit("triangle.f90", "compute_edge_nodes", "    index2 = degree + 1\n", "    index2 = degree\n")]),
    ("jac_difference", "mutation", "jacobian_both: `nodes(:, j) - nodes(:, i)` -> `nodes(:, j) - nodes(:, i + 1)` (wrong index in a difference)",
     [edit("triangle.f90", "jacobian_both", "nodes(:, j) - nodes(:, i)", "nodes(:, j) - nodes(:, i + 1)")]),
    ("jac_row_step", "mutation", "jacobian_both: the `i = i + 1` between the rows removed",
     [edit("triangle.f90", "jacobian_both", "       ! In between each row, the index_ gains an extra value.\n       i = i + 1\n",
           "       ! In between each row, the index_ gains an extra value.\n")]),
    ("jac_block", "mutation", "jacobian_both: both differences written to the first block (`new_nodes(dimension_ + 1:, index_)` -> `new_nodes(:dimension_, index_)`)",
     [edit("triangle.f90", "jacobian_both", "new_nodes(dimension_ + 1:, index_) = nodes(:, j) - nodes(:, i)",
           "new_nodes(:dimension_, index_) = nodes(:, j) - nodes(:, i)")]),
    ("jac_loop_bound", "mutation", "jacobian_both: `do k = 0, num_vals - 1` -> `do k = 0, num_vals`",
     [edit("triangle.f90", "jacobian_both", "do k = 0, num_vals - 1", "do k = 0, num_vals")]),
    ("pipeline_renames", "harmless", "newton_simple_root: `workspace` -> `wsp`; compute_edge_nodes: `index2` -> `idx2`",
     [edit("curve_intersection.f90", "newton_simple_root", "workspace", "wsp", 3),
      edit("triangle.f90", "compute_edge_nodes", "index2", "idx2", 5)]),
    # ------------------------------------------------------------------ harmless only modulo algebra / garbage
    ("decl_order", "caveat", "is_separating: declaration `min_param1, max_param1` written `max_param1, min_param1` (the loop state "
     "lists the carried variables in declaration order: the tuple is permuted, the proof names the components)",
     [edit("helpers.f90", "is_separating", "real(c_double) :: min_param1, max_param1", "real(c_double) :: max_param1, min_param1")]),
    ("commuted_product", "caveat", "cross_product: `vec0(1) * vec1(2)` -> `vec1(2) * vec0(1)` (equal in binary64 and in a commutative "
     "ring, not syntactically: the theorems for an arbitrary K are expected to break)",
     [edit("helpers.f90", "cross_product", "vec0(1) * vec1(2)", "vec1(2) * vec0(1)")]),
    ("assigned_garbage", "caveat", "solve2x2: `x_val = 0.0_dp` added before the first `singular = .TRUE.; return` (no caller reads it; "
     "the theorem pins unassigned outputs to `undef`, so it is expected to break)",
     [edit("helpers.f90", "solve2x2",
           "       if (denominator == 0.0_dp) then\n          singular = .TRUE.\n          return\n       end if\n\n       y_val = (rhs(1)",
           "       if (denominator == 0.0_dp) then\n          x_val = 0.0_dp\n          singular = .TRUE.\n          return\n       end if\n\n       y_val = (rhs(1)")]),
]


def apply_edits(srcdir, edits):
    for _, fname, routine, old, new, count in edits:
        p = os.path.join(srcdir, fname)
        with open(p) as fh:
            text = fh.read()
        if routine is None:
            a, b = 0, len(text)
        else:
            a, b = routine_span(text, routine)
        seg = text[a:b]
        n = seg.count(old)
        if n != count:
            raise KeyError("anchor %r occurs %d times in %s (expected %d) - the source has changed, adapt the test"
                           % (old[:50], n, routine or fname, count))
        text = text[:a] + seg.replace(old, new) + text[b:]
        with open(p, "w") as fh:
            fh.write(text)


def theorem_lines(path):
    out = []
    with open(path) as fh:
        for i, line in enumerate(fh, 1):
            m = re.match(r"(?:private\s+|protected\s+)?theorem\s+(\S+)", line)
            if m:
                out.append((m.group(1), i))
    return out


def lean_path():
    r = subprocess.run(["lake", "env", "printenv", "LEAN_PATH"], cwd=LEAN, stdout=subprocess.PIPE, text=True)
    return r.stdout.strip()


def run_case(case, base, lpath, tables_src):
    name, kind, desc, edits = case
    t0 = time.time()
    work = os.path.join(base, name)
    src = os.path.join(work, "repo", "src", "fortran")
    os.makedirs(src)
    for f in FILES:
        shutil.copy(os.path.join(REPO, "src", "fortran", f), os.path.join(src, f))
    res = {"name": name, "kind": kind, "desc": desc, "problems": [], "broken": [], "note": ""}
    try:
        apply_edits(src, edits)
    except KeyError as exc:
        res["note"] = "ANCHOR: %s" % exc
        return res
    gen = os.path.join(work, "SrcF90Mut.lean")
    env = dict(os.environ, BEZIER_REPO=os.path.join(work, "repo"))
    r = subprocess.run([PY, os.path.join(HARNESS, "translate_f90.py"), "--out", gen], env=env,
                       stdout=subprocess.PIPE, stderr=subprocess.STDOUT, text=True)
    if r.returncode != 0:
        res["note"] = "translator crashed: " + r.stdout[-400:]
        return res
    res["problems"] = [l for l in r.stdout.split("\n") if l.startswith("EXTRACT-PROBLEM")]
    out = os.path.join(work, "out")
    os.makedirs(out)
    env2 = dict(os.environ, LEAN_PATH=out + ":" + lpath)
    r1 = subprocess.run(["lean", "-o", os.path.join(out, "SrcF90Mut.olean"), gen], env=env2, cwd=work,
                        stdout=subprocess.PIPE, stderr=subprocess.STDOUT, text=True)
    all_thms = []
    for t in TABLES:
        all_thms += [n for n, _ in theorem_lines(os.path.join(tables_src, t))]
    if r1.returncode != 0:
        res["broken"] = all_thms
        res["note"] = "generated file does not compile: " + " | ".join(re.findall(r"error: (.*)", r1.stdout)[:2])[:300]
        res["secs"] = time.time() - t0
        return res
    broken = []
    for t in TABLES:
        path = os.path.join(tables_src, t)
        thms = theorem_lines(path)
        tab = os.path.join(work, "Tables" + t)
        with open(path) as fh:
            text = fh.read()
        if "import BezierVerif.Generated.SrcF90\n" not in text:
            res["note"] = "Tables/%s does not import BezierVerif.Generated.SrcF90" % t
            return res
        modname = "Tables" + t[:-5]
        with open(tab, "w") as fh:
            fh.write(text.replace("import BezierVerif.Generated.SrcF90\n", "import SrcF90Mut\n")
                     .replace("import BezierVerif.Tables.SrcF90Kernels\n", "import TablesSrcF90Kernels\n"))
        # later tables import earlier ones: keep the (possibly partially failing) olean of this private copy
        r2 = subprocess.run(["lean", "-o", os.path.join(out, modname + ".olean"), tab], env=env2, cwd=work,
                            stdout=subprocess.PIPE, stderr=subprocess.STDOUT, text=True)
        found = False
        for m in re.finditer(r"^(\S+?):(\d+):(\d+): error", r2.stdout, re.M):
            ln = int(m.group(2))
            cands = [n for n, l in thms if l <= ln]
            nm = cands[-1] if cands else "<before the first theorem of %s>" % t
            found = True
            if nm not in broken:
                broken.append(nm)
        if r2.returncode != 0 and not found:
            broken.append("<lean failed on %s: %s>" % (t, r2.stdout[-200:]))
    res["broken"] = broken
    res["secs"] = time.time() - t0
    return res


def main(argv):
    jobs = 4
    keep = False
    only = None
    match = None
    i = 0
    while i < len(argv):
        if argv[i] == "-j":
            jobs = int(argv[i + 1]); i += 2
        elif argv[i] == "--keep":
            keep = True; i += 1
        elif argv[i] == "--only":
            only = argv[i + 1]; i += 2
        elif argv[i] == "--match":
            match = argv[i + 1]; i += 2
        else:
            print(__doc__)
            return 2
    t0 = time.time()
    base = tempfile.mkdtemp(prefix="srcf90-selftest-")
    lpath = lean_path()
    tables = os.path.join(LEAN, "BezierVerif", "Tables")
    cases = [("baseline", "harmless", "unmodified copy of the sources", [])] + CASES
    if only:
        cases = [c for c in cases if c[0] == only]
    if match:
        cases = [c for c in cases if re.search(match, c[0])]
    with concurrent.futures.ThreadPoolExecutor(max_workers=jobs) as ex:
        results = list(ex.map(lambda c: run_case(c, base, lpath, tables), cases))
    ok = True
    print("%-20s %-9s %-9s %s" % ("case", "kind", "verdict", "broken theorems / note"))
    for r in results:
        if r["note"].startswith("ANCHOR") or r["note"].startswith("translator crashed") or r["note"].startswith("Tables/"):
            verdict, good = "ERROR", False
        elif r["kind"] == "mutation":
            good = bool(r["broken"])
            verdict = "DETECTED" if good else "MISSED"
        elif r["kind"] == "harmless":
            good = not r["broken"]
            verdict = "SURVIVES" if good else "BREAKS"
        else:
            good = True
            verdict = "breaks" if r["broken"] else "survives"
        ok = ok and good
        detail = ", ".join(r["broken"][:6]) + (" (+%d)" % (len(r["broken"]) - 6) if len(r["broken"]) > 6 else "")
        if r["problems"]:
            detail += "  [" + "; ".join(p.replace("EXTRACT-PROBLEM srcf90: ", "") for p in r["problems"][:2])[:160] + "]"
        if r["note"]:
            detail += "  {" + r["note"][:200] + "}"
        print("%-20s %-9s %-9s %s" % (r["name"], r["kind"], verdict, detail))
        print("    " + r["desc"])
    nm = [r for r in results if r["kind"] == "mutation"]
    nh = [r for r in results if r["kind"] == "harmless"]
    print("mutations detected: %d/%d; harmless rewrites surviving: %d/%d; wall %.1fs"
          % (sum(1 for r in nm if r["broken"]), len(nm), sum(1 for r in nh if not r["broken"] and not r["note"].startswith("ANCHOR")), len(nh), time.time() - t0))
    if keep:
        print("work dir kept: " + base)
    else:
        shutil.rmtree(base, ignore_errors=True)
    return 0 if ok else 1


if __name__ == "__main__":
    sys.exit(main(sys.argv[1:]))
