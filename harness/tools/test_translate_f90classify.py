#!/venv/bin/python
"""Self-test of the phase-4 part of harness/translate_f90.py (derived types, `triangle_intersection.f90`) +
lean/BezierVerif/Tables/SrcF90Classify.lean.  Same machinery as harness/tools/test_translate_f90.py (imported): a copy of
the Fortran sources is edited inside ONE routine, the translator is re-run on the copy, and the table files are
re-checked against that output.

  * semantic mutations (comparison flipped, wrong enum / status, wrong component, index arithmetic, sign, dropped
    `return`, loop bound, ...): at least one theorem of Tables/SrcF90Classify.lean has to break;
  * harmless rewrites (renamed locals, comments, reordered independent statements): the theorems should survive.

Usage: harness/tools/test_translate_f90classify.py [-j N] [--keep] [--only NAME] [--match REGEX]
"""
import os
import sys

sys.path.insert(0, os.path.dirname(os.path.abspath(__file__)))
import test_translate_f90 as base      # noqa: E402

edit = base.edit
TI = "triangle_intersection.f90"

base.FILES = ["helpers.f90", "curve_intersection.f90", "curve.f90", "triangle.f90", "status.f90", TI]
base.TABLES = ["SrcF90Kernels.lean", "SrcF90Classify.lean"]

base.CASES = [
    # ------------------------------------------------------------------ corners
    ("iec_flip", "mutation", "ignored_edge_corner: `cross_prod > 0.0_dp` -> `>=`",
     [edit(TI, "ignored_edge_corner", "if (cross_prod > 0.0_dp) then", "if (cross_prod >= 0.0_dp) then")]),
    ("iec_no_negate", "mutation", "ignored_edge_corner: `alt_corner_tangent = -alt_corner_tangent` removed",
     [edit(TI, "ignored_edge_corner", "    alt_corner_tangent = -alt_corner_tangent\n", "")]),
    ("iec_param", "mutation", "ignored_edge_corner: arriving tangent evaluated at 0.0 instead of 1.0",
     [edit(TI, "ignored_edge_corner", "1.0_dp, num_nodes, 2, &", "0.0_dp, num_nodes, 2, &")]),
    ("iec_operands", "mutation", "ignored_edge_corner: second cross product with the operands swapped",
     [edit(TI, "ignored_edge_corner", "edge_tangent, alt_corner_tangent, cross_prod)", "alt_corner_tangent, edge_tangent, cross_prod)")]),
    ("idc_index", "mutation", "ignored_double_corner: `modulo(intersection_%index_first - 2, 3)` -> `- 1` (wrong previous edge)",
     [edit(TI, "ignored_double_corner", "modulo(intersection_%index_first - 2, 3)", "modulo(intersection_%index_first - 1, 3)")]),
    ("idc_component", "mutation", "ignored_double_corner: second previous edge taken with `index_first` instead of `index_second`",
     [edit(TI, "ignored_double_corner", "modulo(intersection_%index_second - 2, 3)", "modulo(intersection_%index_first - 2, 3)")]),
    ("idc_edges", "mutation", "ignored_double_corner: `edges_second(index)%nodes` -> `edges_first(index)%nodes` in the hodograph call",
     [edit(TI, "ignored_double_corner", "         edges_second(index)%nodes, alt_tangent_t)", "         edges_first(index)%nodes, alt_tangent_t)")]),
    ("idc_final", "mutation", "ignored_double_corner: final `cross_prod1 > 0 .OR. cross_prod2 < 0` -> `.AND.`",
     [edit(TI, "ignored_double_corner", "cross_prod1 > 0.0_dp .OR. cross_prod2 < 0.0_dp", "cross_prod1 > 0.0_dp .AND. cross_prod2 < 0.0_dp")]),
    ("idc_dropped_return", "mutation", "ignored_double_corner: first `return` removed",
     [edit(TI, "ignored_double_corner", "       if (cross_prod2 >= 0.0_dp) then\n          predicate = .FALSE.\n          return\n       end if\n    end if\n\n    ! If ``tangent_t``",
           "       if (cross_prod2 >= 0.0_dp) then\n          predicate = .FALSE.\n       end if\n    end if\n\n    ! If ``tangent_t``")]),
    ("ic_swapped", "mutation", "ignored_corner: s-only corner calls `ignored_edge_corner(tangent_s, tangent_t, ..)` (arguments swapped)",
     [edit(TI, "ignored_corner", "tangent_t, tangent_s, num_nodes, edges_first(index)%nodes", "tangent_s, tangent_t, num_nodes, edges_first(index)%nodes")]),
    ("ic_param", "mutation", "ignored_corner: `intersection_%t == 0.0_dp` (else-if) -> `intersection_%s == 0.0_dp`",
     [edit(TI, "ignored_corner", "else if (intersection_%t == 0.0_dp) then", "else if (intersection_%s == 0.0_dp) then")]),
    # ------------------------------------------------------------------ classification
    ("cti_enum", "mutation", "classify_tangent_intersection: first `OPPOSED` -> `TANGENT_BOTH`",
     [edit(TI, "classify_tangent_intersection", "          if (sign1 == 1.0_dp) then\n             enum_ = IntersectionClassification_OPPOSED",
           "          if (sign1 == 1.0_dp) then\n             enum_ = IntersectionClassification_TANGENT_BOTH")]),
    ("cti_status", "mutation", "classify_tangent_intersection: `Status_SAME_CURVATURE` -> `Status_EDGE_END` (first occurrence)",
     [edit(TI, "classify_tangent_intersection", "          if (delta_c == 0.0_dp) then\n             status = Status_SAME_CURVATURE",
           "          if (delta_c == 0.0_dp) then\n             status = Status_EDGE_END")]),
    ("cti_curv_cmp", "mutation", "classify_tangent_intersection: `curvature1 > curvature2` -> `<`",
     [edit(TI, "classify_tangent_intersection", "if (curvature1 > curvature2) then", "if (curvature1 < curvature2) then")]),
    ("cti_abs", "mutation", "classify_tangent_intersection: `abs(curvature1) - abs(curvature2)` -> `curvature1 - curvature2`",
     [edit(TI, "classify_tangent_intersection", "delta_c = abs(curvature1) - abs(curvature2)", "delta_c = curvature1 - curvature2")]),
    ("cti_wrong_edge", "mutation", "classify_tangent_intersection: second curvature taken on `edges_first`",
     [edit(TI, "classify_tangent_intersection", "num_nodes, edges_second(intersection_%index_second)%nodes, &", "num_nodes, edges_first(intersection_%index_second)%nodes, &")]),
    ("cti_dot", "mutation", "classify_tangent_intersection: `dot_prod < 0.0_dp` -> `<=`",
     [edit(TI, "classify_tangent_intersection", "if (dot_prod < 0.0_dp) then", "if (dot_prod <= 0.0_dp) then")]),
    ("enum_value", "mutation", "module parameter `IntersectionClassification_TANGENT_BOTH = 6` -> `= 9`",
     [edit(TI, None, "IntersectionClassification_TANGENT_BOTH = 6", "IntersectionClassification_TANGENT_BOTH = 9")]),
    ("status_value", "mutation", "status.f90: `Status_EDGE_END = 6` -> `= 8`",
     [edit("status.f90", None, "Status_EDGE_END = 6", "Status_EDGE_END = 8")]),
    ("ci_edge_end", "mutation", "classify_intersection: `intersection_%s == 1.0_dp .OR. intersection_%t == 1.0_dp` -> `.AND.`",
     [edit(TI, "classify_intersection", "intersection_%s == 1.0_dp .OR. intersection_%t == 1.0_dp", "intersection_%s == 1.0_dp .AND. intersection_%t == 1.0_dp")]),
    ("ci_threshold", "mutation", "module parameter `ALMOST_TANGENT = 0.5_dp**50` -> `0.5_dp**49`",
     [edit(TI, None, "ALMOST_TANGENT = 0.5_dp**50", "ALMOST_TANGENT = 0.5_dp**49")]),
    ("ci_first_second", "mutation", "classify_intersection: `cross_prod < -ALMOST_TANGENT` gives SECOND instead of FIRST",
     [edit(TI, "classify_intersection", "       enum_ = IntersectionClassification_FIRST", "       enum_ = IntersectionClassification_SECOND")]),
    ("ci_param", "mutation", "classify_intersection: second tangent evaluated at `intersection_%s`",
     [edit(TI, "classify_intersection", "         intersection_%t, num_nodes, 2, &", "         intersection_%s, num_nodes, 2, &")]),
    ("ci_dropped_return", "mutation", "classify_intersection: the `return` after `IGNORED_CORNER` removed",
     [edit(TI, "classify_intersection", "       enum_ = IntersectionClassification_IGNORED_CORNER\n       return", "       enum_ = IntersectionClassification_IGNORED_CORNER")]),
    ("ci_stale_size", "mutation", "classify_intersection: `num_nodes` of the FIRST edge passed with the nodes of the second (extent argument "
     "no longer the extent of the array argument -> EXTRACT-PROBLEM)",
     [edit(TI, "classify_intersection", "    num_nodes = size(edges_second(intersection_%index_second)%nodes, 2)\n", "")]),
    ("type_default", "mutation", "type Intersection: default `index_first = -1` -> `= 0`",
     [edit(TI, None, "integer(c_int) :: index_first = -1", "integer(c_int) :: index_first = 0")]),
    # ------------------------------------------------------------------ walk helpers
    ("isf_enum", "mutation", "is_first: `TANGENT_FIRST` -> `TANGENT_SECOND`",
     [edit(TI, "is_first", "enum_ == IntersectionClassification_TANGENT_FIRST", "enum_ == IntersectionClassification_TANGENT_SECOND")]),
    ("iss_or", "mutation", "is_second: `.OR.` -> `.AND.`",
     [edit(TI, "is_second", "enum_ == IntersectionClassification_SECOND .OR. &", "enum_ == IntersectionClassification_SECOND .AND. &")]),
    ("sk_coincident", "mutation", "should_keep: `COINCIDENT` -> `COINCIDENT_UNUSED` in the first test",
     [edit(TI, "should_keep", "enum_ == IntersectionClassification_COINCIDENT) then", "enum_ == IntersectionClassification_COINCIDENT_UNUSED) then")]),
    ("sk_corner", "mutation", "should_keep: `intersection_%s == 0.0_dp .OR. intersection_%t == 0.0_dp` -> `.AND.`",
     [edit(TI, "should_keep", "intersection_%s == 0.0_dp .OR. intersection_%t == 0.0_dp", "intersection_%s == 0.0_dp .AND. intersection_%t == 0.0_dp")]),
    ("sk_default", "mutation", "should_keep: final `predicate = .FALSE.` -> `.TRUE.`",
     [edit(TI, "should_keep", "    predicate = .FALSE.\n\n  end function", "    predicate = .TRUE.\n\n  end function")]),
    ("fcu_param", "mutation", "find_corner_unused: second loop tests `%s == 0.0_dp` instead of `%t == 0.0_dp`",
     [edit(TI, "find_corner_unused", "intersections(i)%t == 0.0_dp", "intersections(i)%s == 0.0_dp")]),
    ("fcu_index", "mutation", "find_corner_unused: first loop compares `index_second` with `intersections(i)%index_first`",
     [edit(TI, "find_corner_unused", "               index_second == intersections(i)%index_second .AND. &\n               intersections(i)%s == 0.0_dp",
           "               index_second == intersections(i)%index_first .AND. &\n               intersections(i)%s == 0.0_dp")]),
    ("fcu_loop_start", "mutation", "find_corner_unused: first loop `do i = 1, num_intersections` -> `do i = 2, ...`",
     [edit(TI, "find_corner_unused", "    if (s == 0.0_dp) then\n       do i = 1, num_intersections", "    if (s == 0.0_dp) then\n       do i = 2, num_intersections")]),
    ("fcu_dropped_return", "mutation", "find_corner_unused: `found = .TRUE.` of the first loop -> `.FALSE.`",
     [edit(TI, "find_corner_unused", "               intersections(i)%s == 0.0_dp) then\n             found = .TRUE.", "               intersections(i)%s == 0.0_dp) then\n             found = .FALSE.")]),
    ("rn_shift", "mutation", "remove_node: `values(i:remaining - 1) = values(i + 1:remaining)` -> source section `values(i + 2:remaining)`",
     [edit(TI, "remove_node", "values(i + 1:remaining)", "values(i + 2:remaining)")]),
    ("rn_count", "mutation", "remove_node: `remaining = remaining - 1` removed",
     [edit(TI, "remove_node", "          remaining = remaining - 1\n", "")]),
    ("rn_test", "mutation", "remove_node: `values(i) == node` -> `values(i) /= node`",
     [edit(TI, "remove_node", "if (values(i) == node) then", "if (values(i) /= node) then")]),
    ("tf_rotate", "mutation", "to_front: `1 + modulo(curr_node%index_first, 3)` -> `1 + modulo(curr_node%index_first + 1, 3)`",
     [edit(TI, "to_front", "index = 1 + modulo(curr_node%index_first, 3)", "index = 1 + modulo(curr_node%index_first + 1, 3)")]),
    ("tf_enum", "mutation", "to_front: artificial node on the second triangle classified FIRST",
     [edit(TI, "to_front", "next_node%interior_curve = IntersectionClassification_SECOND", "next_node%interior_curve = IntersectionClassification_FIRST")]),
    ("tf_field", "mutation", "to_front: `next_node%t = 0.0_dp` -> `next_node%s = 0.0_dp`",
     [edit(TI, "to_front", "next_node%t = 0.0_dp", "next_node%s = 0.0_dp")]),
    ("tf_at_start", "mutation", "to_front: first `at_start = (i == start)` -> `(i /= start)`",
     [edit(TI, "to_front", "          if ( &\n               intersections(i)%s == 0.0_dp .AND. &\n               intersections(i)%index_first == index) then\n             next_node = intersections(i)\n             at_start = (i == start)",
           "          if ( &\n               intersections(i)%s == 0.0_dp .AND. &\n               intersections(i)%index_first == index) then\n             next_node = intersections(i)\n             at_start = (i /= start)")]),
    ("tf_no_remove", "mutation", "to_front: second `call remove_node(i, unused, remaining)` removed",
     [edit(TI, "to_front", "               intersections(i)%index_second == index) then\n             next_node = intersections(i)\n             at_start = (i == start)\n             ! Remove the index from the set of ``unused`` intersections, if\n             ! it is contained there.\n             call remove_node(i, unused, remaining)\n",
           "               intersections(i)%index_second == index) then\n             next_node = intersections(i)\n             at_start = (i == start)\n")]),
    ("tf_identity", "mutation", "to_front: `next_node = curr_node` removed (the node is not copied)",
     [edit(TI, "to_front", "       next_node = curr_node\n", "")]),
    ("gn_cmp", "mutation", "get_next: first loop `intersections(i)%s > curr_node%s` -> `>=`",
     [edit(TI, "get_next", "    if (is_first(curr_node%interior_curve)) then\n       do i = 1, num_intersections\n          if ( &\n               intersections(i)%index_first == curr_node%index_first .AND. &\n               intersections(i)%s > curr_node%s) then",
           "    if (is_first(curr_node%interior_curve)) then\n       do i = 1, num_intersections\n          if ( &\n               intersections(i)%index_first == curr_node%index_first .AND. &\n               intersections(i)%s >= curr_node%s) then")]),
    ("gn_min", "mutation", "get_next: second loop keeps the LARGEST parameter (`intersections(i)%t < edge_param` -> `>`), first occurrence",
     [edit(TI, "get_next", "                if (intersections(i)%t < edge_param) then\n                   intersection_index = i\n                   edge_param = intersections(i)%t\n                end if\n             end if\n          end if\n       end do\n\n       ! If there is no other intersection on the edge, just return",
           "                if (intersections(i)%t > edge_param) then\n                   intersection_index = i\n                   edge_param = intersections(i)%t\n                end if\n             end if\n          end if\n       end do\n\n       ! If there is no other intersection on the edge, just return")]),
    ("gn_end", "mutation", "get_next: artificial end node of the first edge gets `s = 0.0_dp`",
     [edit(TI, "get_next", "          next_node%index_first = curr_node%index_first\n          next_node%s = 1.0_dp\n          next_node%interior_curve = IntersectionClassification_FIRST",
           "          next_node%index_first = curr_node%index_first\n          next_node%s = 0.0_dp\n          next_node%interior_curve = IntersectionClassification_FIRST")]),
    ("gn_coincident", "mutation", "get_next: the final artificial node is classified `COINCIDENT_UNUSED`",
     [edit(TI, "get_next", "next_node%interior_curve = IntersectionClassification_COINCIDENT", "next_node%interior_curve = IntersectionClassification_COINCIDENT_UNUSED")]),
    ("gn_sentinel", "mutation", "get_next: `intersection_index = -1` -> `= 0` (sentinel changed, tests unchanged)",
     [edit(TI, "get_next", "    intersection_index = -1\n", "    intersection_index = 0\n")]),
    ("gn_dropped_return", "mutation", "get_next: the `return` after the first COINCIDENT search removed",
     [edit(TI, "get_next", "          call remove_node(intersection_index, unused, remaining)\n          return\n       end if\n\n       ! If there is no other intersection on the first edge, try the",
           "          call remove_node(intersection_index, unused, remaining)\n       end if\n\n       ! If there is no other intersection on the first edge, try the")]),
    ("walk_renames", "harmless", "get_next: `edge_param` -> `ep`; to_front: do variable `i` -> `k`; remove_node: comments",
     [edit(TI, "get_next", "edge_param", "ep", 13),
      edit(TI, "remove_node", "    do i = 1, remaining\n", "    ! scan\n    do i = 1, remaining   ! all of them\n")]),
    # ------------------------------------------------------------------ harmless
    ("classify_renames", "harmless", "classify_tangent_intersection: local `delta_c` -> `dc`; ignored_double_corner: `alt_tangent_s` -> `ats`; comments",
     [edit(TI, "classify_tangent_intersection", "delta_c", "dc", 4),
      edit(TI, "ignored_double_corner", "alt_tangent_s", "ats", 5),
      edit(TI, "classify_tangent_intersection", "    status = Status_SUCCESS\n", "    ! a comment\n    status = Status_SUCCESS   ! trailing\n")]),
    ("classify_reorder", "harmless", "classify_tangent_intersection: `status = Status_SUCCESS` / `dot_prod = ...` swapped",
     [edit(TI, "classify_tangent_intersection", "    status = Status_SUCCESS\n    dot_prod = dot_product(tangent_s, tangent_t)\n",
           "    dot_prod = dot_product(tangent_s, tangent_t)\n    status = Status_SUCCESS\n")]),
]

if __name__ == "__main__":
    sys.exit(base.main(sys.argv[1:]))
