#!/venv/bin/python
"""Self-test of phase 4 (f90tri) of harness/translate_f90.py + lean/BezierVerif/Tables/SrcF90Triangle.lean.

Same method as harness/tools/test_translate_f90.py (whose helpers are reused): for each case a COPY of the Fortran
sources is edited inside ONE routine, the translator is re-run on the copy (BEZIER_REPO, --out), and the table files
Tables/SrcF90Kernels.lean, SrcF90Pipeline.lean (imported by the new table) and Tables/SrcF90Triangle.lean are re-checked
against the mutated generated file in a scratch directory.  Only errors located in Tables/SrcF90Triangle.lean or in a
table it imports count; the framework's own files and build products are not touched.

  * semantic mutations (coefficient, index, sign, constant, branch guard, dropped statement, weight triple, ...):
    at least one theorem has to break;
  * harmless rewrites (renamed local, comments, keyword case, reordered independent statements): the theorems survive;
  * caveats (harmless only modulo algebra): reported, not judged.

Usage: harness/tools/test_translate_f90tri.py [-j N] [--keep] [--only NAME] [--match REGEX]   exit status 0 iff every expectation is met
"""
import concurrent.futures
import os
import re
import shutil
import subprocess
import sys
import tempfile
import time

HERE = os.path.dirname(os.path.abspath(__file__))
sys.path.insert(0, HERE)
import test_translate_f90 as T      # noqa: E402

edit = T.edit
FILES = ["helpers.f90", "curve_intersection.f90", "curve.f90", "triangle.f90", "triangle_intersection.f90"]
TABLES = ["SrcF90Kernels.lean", "SrcF90Pipeline.lean", "SrcF90Triangle.lean"]
IMPORTS = {"import BezierVerif.Generated.SrcF90\n": "import SrcF90Mut\n",
           "import BezierVerif.Tables.SrcF90Kernels\n": "import TablesSrcF90Kernels\n",
           "import BezierVerif.Tables.SrcF90Pipeline\n": "import TablesSrcF90Pipeline\n"}

CASES = [
    # ------------------------------------------------------------------ jacobian_det
    ("det_swapped_rows", "mutation", "jacobian_det (degree 1): `jac_nodes(2, 1) * jac_nodes(3, 1)` -> `jac_nodes(2, 1) * jac_nodes(4, 1)`",
     [edit("triangle.f90", "jacobian_det", "jac_nodes(2, 1) * jac_nodes(3, 1)", "jac_nodes(2, 1) * jac_nodes(4, 1)")]),
    ("det_sign", "mutation", "jacobian_det: `Bs_Bt_vals(1, :) * Bs_Bt_vals(4, :) -` -> `+`",
     [edit("triangle.f90", "jacobian_det", "Bs_Bt_vals(1, :) * Bs_Bt_vals(4, :) - &", "Bs_Bt_vals(1, :) * Bs_Bt_vals(4, :) + &")]),
    ("det_degree_arg", "mutation", "jacobian_det: the Jacobian nets are evaluated at `degree` instead of `degree - 1`",
     [edit("triangle.f90", "jacobian_det", "num_nodes - degree - 1, 4, jac_nodes, degree - 1, &", "num_nodes - degree - 1, 4, jac_nodes, degree, &")]),
    ("det_guard", "mutation", "jacobian_det: `if (degree == 1)` -> `if (degree == 2)`",
     [edit("triangle.f90", "jacobian_det", "if (degree == 1) then", "if (degree == 2) then")]),
    # ------------------------------------------------------------------ newton_refine (triangle)
    ("newton_cramer_index", "mutation", "newton_refine_solve: `delta_s = (jac_both(4, 1) * e_val - jac_both(3, 1) * f_val)` uses jac_both(2, 1)",
     [edit("triangle_intersection.f90", "newton_refine_solve", "(jac_both(4, 1) * e_val - jac_both(3, 1) * f_val)",
           "(jac_both(4, 1) * e_val - jac_both(2, 1) * f_val)")]),
    ("newton_residual_sign", "mutation", "newton_refine_solve: `e_val = x_val - triangle_x` -> `triangle_x - x_val`",
     [edit("triangle_intersection.f90", "newton_refine_solve", "e_val = x_val - triangle_x", "e_val = triangle_x - x_val")]),
    ("newton_and_to_or", "mutation", "newton_refine: `point(1, 1) == x_val .AND. point(2, 1) == y_val` -> `.OR.`",
     [edit("triangle_intersection.f90", "newton_refine", "point(1, 1) == x_val .AND. point(2, 1) == y_val",
           "point(1, 1) == x_val .OR. point(2, 1) == y_val")]),
    ("newton_dropped_return", "mutation", "newton_refine: the early `return` (no refinement needed) removed",
     [edit("triangle_intersection.f90", "newton_refine", "       updated_t = t\n       return\n", "       updated_t = t\n")]),
    ("newton_lambda1", "mutation", "newton_refine: first evaluation at `1.0_dp - s + t`",
     [edit("triangle_intersection.f90", "newton_refine", "num_nodes, 2, nodes, degree, &\n         1.0_dp - s - t, s, t, point)",
           "num_nodes, 2, nodes, degree, &\n         1.0_dp - s + t, s, t, point)")]),
    ("newton_update", "mutation", "newton_refine: `updated_t = t + delta_t` -> `t + delta_s`",
     [edit("triangle_intersection.f90", "newton_refine", "updated_t = t + delta_t", "updated_t = t + delta_s")]),
    # ------------------------------------------------------------------ subdivide_nodes (triangle)
    ("subdiv1_index", "mutation", "subdivide_nodes (degree 1): `nodes_b(:, 1) = 0.5_dp * (nodes(:, 2) + nodes(:, 3))` -> `nodes(:, 1) + nodes(:, 3)`",
     [edit("triangle.f90", "subdivide_nodes", "nodes_b(:, 1) = 0.5_dp * (nodes(:, 2) + nodes(:, 3))",
           "nodes_b(:, 1) = 0.5_dp * (nodes(:, 1) + nodes(:, 3))")]),
    ("subdiv2_coefficient", "mutation", "subdivide_nodes (degree 2): `nodes_b(:, 1) = 0.25_dp * (nodes(:, 3) + 2 * nodes(:, 5) + nodes(:, 6))` -> `3 * nodes(:, 5)`",
     [edit("triangle.f90", "subdivide_nodes", "nodes_b(:, 1) = 0.25_dp * (nodes(:, 3) + 2 * nodes(:, 5) + nodes(:, 6))",
           "nodes_b(:, 1) = 0.25_dp * (nodes(:, 3) + 3 * nodes(:, 5) + nodes(:, 6))")]),
    ("subdiv3_constant", "mutation", "subdivide_nodes (degree 3): `nodes_a(:, 7) = 0.125_dp * (` -> `0.25_dp * (`",
     [edit("triangle.f90", "subdivide_nodes", "nodes_a(:, 7) = 0.125_dp * ( &\n            nodes(:, 1) + 2 * nodes(:, 2) + nodes(:, 3) + nodes(:, 5) + &\n            2 * nodes(:, 6) + nodes(:, 7))",
           "nodes_a(:, 7) = 0.25_dp * ( &\n            nodes(:, 1) + 2 * nodes(:, 2) + nodes(:, 3) + nodes(:, 5) + &\n            2 * nodes(:, 6) + nodes(:, 7))")]),
    ("subdiv3_copy", "mutation", "subdivide_nodes (degree 3): `nodes_c(:, 5) = nodes_b(:, 8)` -> `nodes_b(:, 5)`",
     [edit("triangle.f90", "subdivide_nodes", "nodes_c(:, 5) = nodes_b(:, 8)", "nodes_c(:, 5) = nodes_b(:, 5)")]),
    ("subdiv4_term", "mutation", "subdivide_nodes (degree 4): `nodes_b(:, 7)`: `3 * nodes(:, 8)` -> `3 * nodes(:, 9)`",
     [edit("triangle.f90", "subdivide_nodes", "nodes(:, 3) + nodes(:, 4) + 2 * nodes(:, 7) + 3 * nodes(:, 8) + &\n            nodes(:, 9) + nodes(:, 10)",
           "nodes(:, 3) + nodes(:, 4) + 2 * nodes(:, 7) + 3 * nodes(:, 9) + &\n            nodes(:, 9) + nodes(:, 10)")]),
    ("subdiv4_target", "mutation", "subdivide_nodes (degree 4): `nodes_d(:, 13) = ...` written to `nodes_d(:, 12)` (13 stays unassigned)",
     [edit("triangle.f90", "subdivide_nodes", "nodes_d(:, 13) = 0.5_dp * (nodes(:, 13) + nodes(:, 15))", "nodes_d(:, 12) = 0.5_dp * (nodes(:, 13) + nodes(:, 15))")]),
    ("subdiv_guard", "mutation", "subdivide_nodes: `else if (degree == 4)` -> `else if (degree == 5)`",
     [edit("triangle.f90", "subdivide_nodes", "else if (degree == 4) then", "else if (degree == 5) then")]),
    ("subdiv_weights", "mutation", "subdivide_nodes (generic branch, degree >= 5): first weight triple of nodes_b `[0.0_dp, 0.5_dp, 0.5_dp]` -> `[0.5_dp, 0.0_dp, 0.5_dp]`",
     [edit("triangle.f90", "subdivide_nodes", "            [0.0_dp, 0.5_dp, 0.5_dp], &\n            [0.5_dp, 0.0_dp, 0.5_dp], &\n            [0.5_dp, 0.5_dp, 0.0_dp], &\n            nodes_b)",
           "            [0.5_dp, 0.0_dp, 0.5_dp], &\n            [0.5_dp, 0.0_dp, 0.5_dp], &\n            [0.5_dp, 0.5_dp, 0.0_dp], &\n            nodes_b)")]),
    ("subdiv_reassoc", "mutation", "subdivide_nodes (degree 2): `nodes(:, 1) + nodes(:, 2) + nodes(:, 4) + nodes(:, 5)` -> `nodes(:, 1) + (nodes(:, 2) + nodes(:, 4)) + nodes(:, 5)` "
     "(another ORDER of the floating-point additions: the every-K theorems pin the order, a binary64 result can differ in the last bit)",
     [edit("triangle.f90", "subdivide_nodes", "nodes_a(:, 5) = 0.25_dp * ( &\n            nodes(:, 1) + nodes(:, 2) + nodes(:, 4) + nodes(:, 5))",
           "nodes_a(:, 5) = 0.25_dp * ( &\n            nodes(:, 1) + (nodes(:, 2) + nodes(:, 4)) + nodes(:, 5))")]),
    # ------------------------------------------------------------------ shoelace_for_area
    ("shoelace_multiplier", "mutation", "shoelace_for_area (4 nodes): `3 * (nodes(1, 2) * nodes(2, 4) - ...)` -> `6 * (...)`",
     [edit("triangle.f90", "shoelace_for_area", "3 * (nodes(1, 2) * nodes(2, 4) - nodes(2, 2) * nodes(1, 4))", "6 * (nodes(1, 2) * nodes(2, 4) - nodes(2, 2) * nodes(1, 4))")]),
    ("shoelace_scale", "mutation", "shoelace_for_area (5 nodes): `shoelace / 70` -> `shoelace / 35`",
     [edit("triangle.f90", "shoelace_for_area", "shoelace = shoelace / 70", "shoelace = shoelace / 35")]),
    ("shoelace_transposed", "mutation", "shoelace_for_area (3 nodes): `nodes(1, 1) * nodes(2, 3) - nodes(2, 1) * nodes(1, 3)` -> `nodes(2, 1) * nodes(2, 3) - ...`",
     [edit("triangle.f90", "shoelace_for_area", "(nodes(1, 1) * nodes(2, 3) - nodes(2, 1) * nodes(1, 3)) + &\n            2 * (nodes(1, 2) * nodes(2, 3)",
           "(nodes(2, 1) * nodes(2, 3) - nodes(2, 1) * nodes(1, 3)) + &\n            2 * (nodes(1, 2) * nodes(2, 3)")]),
    ("shoelace_flag", "mutation", "shoelace_for_area: `not_implemented = .TRUE.` in the else branch dropped",
     [edit("triangle.f90", "shoelace_for_area", "       shoelace = 0.0_dp\n       not_implemented = .TRUE.\n", "       shoelace = 0.0_dp\n")]),
    # ------------------------------------------------------------------ reduce_pseudo_inverse
    ("reduce3_coefficient", "mutation", "reduce_pseudo_inverse (3 nodes): `5 * nodes(:, 1) + 2 * nodes(:, 2)` -> `5 * nodes(:, 1) + 3 * nodes(:, 2)`",
     [edit("curve.f90", "reduce_pseudo_inverse", "reduced(:, 1) = (5 * nodes(:, 1) + 2 * nodes(:, 2) - nodes(:, 3)) / 6",
           "reduced(:, 1) = (5 * nodes(:, 1) + 3 * nodes(:, 2) - nodes(:, 3)) / 6")]),
    ("reduce4_sign", "mutation", "reduce_pseudo_inverse (4 nodes): `reduced(:, 2) = 0.25_dp * (-nodes(:, 1) + ...` -> `nodes(:, 1) + ...`",
     [edit("curve.f90", "reduce_pseudo_inverse", "            -nodes(:, 1) + 3 * nodes(:, 2) + &\n            3 * nodes(:, 3) - nodes(:, 4))",
           "            nodes(:, 1) + 3 * nodes(:, 2) + &\n            3 * nodes(:, 3) - nodes(:, 4))")]),
    ("reduce5_denominator", "mutation", "reduce_pseudo_inverse (5 nodes): second `/ 210` -> `/ 200`",
     [edit("curve.f90", "reduce_pseudo_inverse", "212 * nodes(:, 4) - 53 * nodes(:, 5)) / 210", "212 * nodes(:, 4) - 53 * nodes(:, 5)) / 200")]),
    ("reduce_flag", "mutation", "reduce_pseudo_inverse: `not_implemented = .FALSE.` at the top -> `.TRUE.`",
     [edit("curve.f90", "reduce_pseudo_inverse", "    not_implemented = .FALSE.\n    if (num_nodes == 2) then", "    not_implemented = .TRUE.\n    if (num_nodes == 2) then")]),
    # ------------------------------------------------------------------ specialize_workspace_sizes
    ("wsizes_divisor", "mutation", "specialize_workspace_sizes: first `/ 64` -> `/ 32`",
     [edit("triangle.f90", "specialize_workspace_sizes", "size_odd = ((degree + 1) * (degree + 3)**2 * (degree + 5)) / 64",
           "size_odd = ((degree + 1) * (degree + 3)**2 * (degree + 5)) / 32")]),
    ("wsizes_parity", "mutation", "specialize_workspace_sizes: `mod(degree, 4) == 0` -> `mod(degree, 4) == 2` (odd / even workspace exchanged)",
     [edit("triangle.f90", "specialize_workspace_sizes", "mod(degree, 4) == 0", "mod(degree, 4) == 2")]),
    ("wsizes_factor", "mutation", "specialize_workspace_sizes (else branch): `(degree + 2) * (degree + 4)) / 8)**2` -> `(degree + 2) * (degree + 6)`",
     [edit("triangle.f90", "specialize_workspace_sizes", "       size_odd = (((degree + 2) * (degree + 4)) / 8)**2", "       size_odd = (((degree + 2) * (degree + 6)) / 8)**2")]),
    # ------------------------------------------------------------------ specialize_triangle(_one_round)
    ("spec_write_index", "mutation", "specialize_triangle_one_round: `write_index = size_write + 1` -> `size_write + 2`",
     [edit("triangle.f90", "specialize_triangle_one_round", "    write_index = size_write + 1\n", "    write_index = size_write + 2\n")]),
    ("spec_read_advance", "mutation", "specialize_triangle_one_round (second group): `read_index = new_read + 1` -> `read_index = new_read` (overlapping sections)",
     [edit("triangle.f90", "specialize_triangle_one_round",
           "weights_b(1), weights_b(2), weights_b(3), &\n            write_nodes(:, write_index:new_write))\n       ! Update the indices.\n       write_index = new_write + 1\n       read_index = new_read + 1",
           "weights_b(1), weights_b(2), weights_b(3), &\n            write_nodes(:, write_index:new_write))\n       ! Update the indices.\n       write_index = new_write + 1\n       read_index = new_read")]),
    ("spec_weight_swap", "mutation", "specialize_triangle_one_round (third group): `weights_c(1), weights_c(2), weights_c(3)` -> `weights_c(1), weights_c(3), weights_c(2)`",
     [edit("triangle.f90", "specialize_triangle_one_round", "weights_c(1), weights_c(2), weights_c(3)", "weights_c(1), weights_c(3), weights_c(2)")]),
    ("spec_group_count", "mutation", "specialize_triangle_one_round: `do i = 1, ((step + 1) * step) / 2` -> `do i = 1, (step * step) / 2`",
     [edit("triangle.f90", "specialize_triangle_one_round", "do i = 1, ((step + 1) * step) / 2", "do i = 1, (step * step) / 2")]),
    ("spec_third_restart", "mutation", "specialize_triangle_one_round: the reset `read_index = 1` before the third group removed",
     [edit("triangle.f90", "specialize_triangle_one_round", "    ! Third:  (i, j, k) for k > 0, i + j + k = step\n    read_index = 1\n", "    ! Third:  (i, j, k) for k > 0, i + j + k = step\n")]),
    ("spec_delta_size", "mutation", "specialize_triangle: `delta_size = -degree - 1` -> `-degree`",
     [edit("triangle.f90", "specialize_triangle", "delta_size = -degree - 1", "delta_size = -degree")]),
    ("spec_parity", "mutation", "specialize_triangle: `is_even = .NOT. is_even` removed (always writes to workspace_odd after step 1)",
     [edit("triangle.f90", "specialize_triangle", "       is_even = .NOT. is_even  ! Switch parity.\n", "")]),
    ("spec_local_degree", "mutation", "specialize_triangle (even steps): `degree + 1 - step` -> `degree - step`",
     [edit("triangle.f90", "specialize_triangle",
           "               size_even, workspace_even, &\n               size, size_new, step, degree + 1 - step, &",
           "               size_even, workspace_even, &\n               size, size_new, step, degree - step, &")]),
    ("spec_result_workspace", "mutation", "specialize_triangle: the result is read from the workspace NOT written last (`if (is_even)` -> `if (.NOT. is_even)`)",
     [edit("triangle.f90", "specialize_triangle", "    if (is_even) then\n       specialized = workspace_odd(:, 1:num_nodes)", "    if (.NOT. is_even) then\n       specialized = workspace_odd(:, 1:num_nodes)")]),
    # ------------------------------------------------------------------ specialize_curve_generic
    ("speccurve_first_column", "mutation", "specialize_curve_generic: `workspace(:, :, 1)` built with `end_` instead of `start`",
     [edit("curve.f90", "specialize_curve_generic", "minus_start * nodes(:, :num_nodes - 1) + start * nodes(:, 2:))", "minus_start * nodes(:, :num_nodes - 1) + end_ * nodes(:, 2:))")]),
    ("speccurve_new_column", "mutation", "specialize_curve_generic: the new column is computed from column `index_ - 2` instead of `index_ - 1`",
     [edit("curve.f90", "specialize_curve_generic", "minus_end * workspace(:, :curr_size, index_ - 1) + &", "minus_end * workspace(:, :curr_size, index_ - 2) + &")]),
    ("speccurve_forall_bound", "mutation", "specialize_curve_generic: `forall (j = 1:index_ - 1)` -> `forall (j = 1:index_)` (the new column is advanced by `start` as well)",
     [edit("curve.f90", "specialize_curve_generic", "forall (j = 1:index_ - 1)", "forall (j = 1:index_)")]),
    ("speccurve_shift", "mutation", "specialize_curve_generic: in the forall `start * workspace(:, 2:curr_size + 1, j)` -> `start * workspace(:, 1:curr_size, j)`",
     [edit("curve.f90", "specialize_curve_generic", "start * workspace(:, 2:curr_size + 1, j))", "start * workspace(:, 1:curr_size, j))")]),
    ("speccurve_curr_size", "mutation", "specialize_curve_generic: `curr_size = num_nodes - 1` -> `num_nodes - 2`",
     [edit("curve.f90", "specialize_curve_generic", "curr_size = num_nodes - 1", "curr_size = num_nodes - 2")]),
    ("speccurve_weights", "mutation", "specialize_curve_generic: `minus_end = 1.0_dp - end_` -> `1.0_dp - start`",
     [edit("curve.f90", "specialize_curve_generic", "minus_end = 1.0_dp - end_", "minus_end = 1.0_dp - start")]),
    # ------------------------------------------------------------------ can_reduce / projection_error
    ("canred_coefficient", "mutation", "can_reduce (4 nodes): `3 * nodes(:, 1) + 11 * nodes(:, 2)` -> `3 * nodes(:, 1) + 12 * nodes(:, 2)`",
     [edit("curve.f90", "can_reduce", "3 * nodes(:, 1) + 11 * nodes(:, 2) + &", "3 * nodes(:, 1) + 12 * nodes(:, 2) + &")]),
    ("canred_copy", "mutation", "can_reduce (2 nodes): `reduced(:, 2) = reduced(:, 1)` -> `reduced(:, 2) = nodes(:, 2)`",
     [edit("curve.f90", "can_reduce", "reduced(:, 2) = reduced(:, 1)", "reduced(:, 2) = nodes(:, 2)")]),
    ("canred_guard", "mutation", "can_reduce: `num_nodes < 2 .OR. num_nodes > 5` -> `num_nodes > 4`",
     [edit("curve.f90", "can_reduce", "if (num_nodes < 2 .OR. num_nodes > 5) then", "if (num_nodes < 2 .OR. num_nodes > 4) then")]),
    ("canred_decision", "mutation", "can_reduce: `relative_err < REDUCE_THRESHOLD` -> `<=`",
     [edit("curve.f90", "can_reduce", "if (relative_err < REDUCE_THRESHOLD) then", "if (relative_err <= REDUCE_THRESHOLD) then")]),
    ("canred_threshold", "mutation", "module parameter `REDUCE_THRESHOLD = SQRT_PREC` -> `0.5_dp * SQRT_PREC` (value pinned by `reduce_threshold_value`)",
     [edit("curve.f90", None, "REDUCE_THRESHOLD = SQRT_PREC", "REDUCE_THRESHOLD = 0.5_dp * SQRT_PREC")]),
    ("projerr_relative", "mutation", "projection_error: `error = error / norm2(nodes)` -> `error / norm2(projected)`",
     [edit("curve.f90", "projection_error", "error = error / norm2(nodes)", "error = error / norm2(projected)")]),
    ("projerr_zero_test", "mutation", "projection_error: the early return for `error == 0.0_dp` removed (0 / 0 for an exactly reducible all-zero net)",
     [edit("curve.f90", "projection_error", "    if (error == 0.0_dp) then\n       return\n    end if\n", "")]),
    ("untranslatable_tri", "mutation", "jacobian_det: a `do while` loop inserted (outside the accepted subset -> EXTRACT-PROBLEM, no definition)",
     [edit("triangle.f90", "jacobian_det", "    if (degree == 1) then", "    do while (.FALSE.)\n    end do\n    if (degree == 1) then")]),
    # ------------------------------------------------------------------ harmless
    ("tri_renames", "harmless", "jacobian_det: `determinant` -> `det_val`, `Bs_Bt_vals` -> `bsbt`; newton_refine_solve: `denominator` -> `denom`",
     [edit("triangle.f90", "jacobian_det", "determinant", "det_val", 3),
      edit("triangle.f90", "jacobian_det", "Bs_Bt_vals", "bsbt", 6),
      edit("triangle_intersection.f90", "newton_refine_solve", "denominator", "denom", 4)]),
    ("tri_comments_case", "harmless", "subdivide_nodes: comments added, `else if` written `ELSE IF`, a continuation line joined; shoelace: `.FALSE.` -> `.false.`",
     [edit("triangle.f90", "subdivide_nodes", "    else if (degree == 2) then", "    ! quadratic\n    ELSE IF (degree == 2) THEN"),
      edit("triangle.f90", "subdivide_nodes", "nodes_a(:, 5) = 0.25_dp * ( &\n            nodes(:, 1) + nodes(:, 2) + nodes(:, 4) + nodes(:, 5))",
           "nodes_a(:, 5) = 0.25_dp * (nodes(:, 1) + nodes(:, 2) + nodes(:, 4) + nodes(:, 5))"),
      edit("triangle.f90", "shoelace_for_area", "not_implemented = .FALSE.", "not_implemented = .false.")]),
    ("speccurve_rename", "harmless", "specialize_curve_generic: `workspace` -> `wsp`, `curr_size` -> `csz`; specialize_triangle: `delta_nc` -> `dnc`",
     [edit("curve.f90", "specialize_curve_generic", "workspace", "wsp", 11),
      edit("curve.f90", "specialize_curve_generic", "curr_size", "csz", 10),
      edit("triangle.f90", "specialize_triangle", "delta_nc", "dnc", 5)]),
    ("tri_reorder", "harmless", "subdivide_nodes (degree 1): the independent statements `nodes_c(:, 2) = nodes(:, 2)` / `nodes_c(:, 3) = nodes_b(:, 1)` swapped; "
     "newton_refine_solve: `e_val` / `f_val` swapped",
     [edit("triangle.f90", "subdivide_nodes", "       nodes_c(:, 2) = nodes(:, 2)\n       nodes_c(:, 3) = nodes_b(:, 1)\n       nodes_d(:, 1) = nodes_a(:, 3)\n       nodes_d(:, 2) = nodes_b(:, 1)\n       nodes_d(:, 3) = nodes(:, 3)",
           "       nodes_c(:, 3) = nodes_b(:, 1)\n       nodes_c(:, 2) = nodes(:, 2)\n       nodes_d(:, 1) = nodes_a(:, 3)\n       nodes_d(:, 2) = nodes_b(:, 1)\n       nodes_d(:, 3) = nodes(:, 3)"),
      edit("triangle_intersection.f90", "newton_refine_solve", "    e_val = x_val - triangle_x\n    f_val = y_val - triangle_y\n",
           "    f_val = y_val - triangle_y\n    e_val = x_val - triangle_x\n")]),
    # ------------------------------------------------------------------ harmless only modulo algebra
    ("det_commuted", "caveat", "jacobian_det (degree 1): `jac_nodes(1, 1) * jac_nodes(4, 1)` -> `jac_nodes(4, 1) * jac_nodes(1, 1)` (equal in a field: the "
     "field theorem `jacobian_det_eq` is expected to survive)",
     [edit("triangle.f90", "jacobian_det", "jac_nodes(1, 1) * jac_nodes(4, 1)", "jac_nodes(4, 1) * jac_nodes(1, 1)")]),
    ("subdiv_commuted_sum", "caveat", "subdivide_nodes (degree 1): `nodes(:, 1) + nodes(:, 2)` -> `nodes(:, 2) + nodes(:, 1)` (equal in binary64; the every-K theorem "
     "pins the operand order and is expected to break)",
     [edit("triangle.f90", "subdivide_nodes", "nodes_a(:, 2) = 0.5_dp * (nodes(:, 1) + nodes(:, 2))\n       nodes_a(:, 3) = 0.5_dp * (nodes(:, 1) + nodes(:, 3))\n       nodes_b(:, 1) = 0.5_dp * (nodes(:, 2) + nodes(:, 3))",
           "nodes_a(:, 2) = 0.5_dp * (nodes(:, 2) + nodes(:, 1))\n       nodes_a(:, 3) = 0.5_dp * (nodes(:, 1) + nodes(:, 3))\n       nodes_b(:, 1) = 0.5_dp * (nodes(:, 2) + nodes(:, 3))")]),
]


def run_case(case, base, lpath, tables_src):
    name, kind, desc, edits = case
    t0 = time.time()
    work = os.path.join(base, name)
    src = os.path.join(work, "repo", "src", "fortran")
    os.makedirs(src)
    for f in FILES:
        shutil.copy(os.path.join(T.REPO, "src", "fortran", f), os.path.join(src, f))
    res = {"name": name, "kind": kind, "desc": desc, "problems": [], "broken": [], "note": ""}
    try:
        T.apply_edits(src, edits)
    except KeyError as exc:
        res["note"] = "ANCHOR: %s" % exc
        return res
    gen = os.path.join(work, "SrcF90Mut.lean")
    env = dict(os.environ, BEZIER_REPO=os.path.join(work, "repo"))
    r = subprocess.run([T.PY, os.path.join(tables_src, "translate_f90.py"), "--out", gen], env=env,
                       stdout=subprocess.PIPE, stderr=subprocess.STDOUT, text=True)
    if r.returncode != 0:
        res["note"] = "translator crashed: " + r.stdout[-400:]
        return res
    res["problems"] = [l for l in r.stdout.split("\n") if l.startswith("EXTRACT-PROBLEM")]
    out = os.path.join(work, "out")
    os.makedirs(out)
    env2 = dict(os.environ, LEAN_PATH=out + ":" + lpath)
    r1 = subprocess.run(["lean", "-o", os.path.join(out, "SrcF90Mut.olean"), gen], env=env2, cwd=work,
                        stdout=subprocess.PIPE, stderr=subprocess.STDOUT, text=True)
    if r1.returncode != 0:
        res["broken"] = ["<all>"]
        res["note"] = "generated file does not compile: " + " | ".join(re.findall(r"error: (.*)", r1.stdout)[:2])[:300]
        res["secs"] = time.time() - t0
        return res
    broken = []
    for t in TABLES:
        path = os.path.join(tables_src, t)
        thms = T.theorem_lines(path)
        tab = os.path.join(work, "Tables" + t)
        with open(path) as fh:
            text = fh.read()
        for a, b in IMPORTS.items():
            text = text.replace(a, b)
        with open(tab, "w") as fh:
            fh.write(text)
        modname = "Tables" + t[:-5]
        r2 = subprocess.run(["lean", "-o", os.path.join(out, modname + ".olean"), tab], env=env2, cwd=work,
                            stdout=subprocess.PIPE, stderr=subprocess.STDOUT, text=True)
        found = False
        for m in re.finditer(r"^(\S+?):(\d+):(\d+): error", r2.stdout, re.M):
            ln = int(m.group(2))
            cands = [n for n, l in thms if l <= ln]
            nm = cands[-1] if cands else "<before the first theorem of %s>" % t
            found = True
            if nm not in broken:
                broken.append(nm)
        if r2.returncode != 0 and not found:
            broken.append("<lean failed on %s: %s>" % (t, r2.stdout[-200:]))
    res["broken"] = broken
    res["secs"] = time.time() - t0
    return res


def main(argv):
    jobs = 4
    keep = False
    only = None
    match = None
    i = 0
    while i < len(argv):
        if argv[i] == "-j":
            jobs = int(argv[i + 1]); i += 2
        elif argv[i] == "--keep":
            keep = True; i += 1
        elif argv[i] == "--only":
            only = argv[i + 1]; i += 2
        elif argv[i] == "--match":
            match = argv[i + 1]; i += 2
        else:
            print(__doc__)
            return 2
    t0 = time.time()
    base = tempfile.mkdtemp(prefix="srcf90tri-selftest-")
    lpath = T.lean_path()
    # snapshot of the translator and the table files (the run is not disturbed by edits made meanwhile)
    tables = os.path.join(base, "_snapshot")
    os.makedirs(tables)
    for t in TABLES:
        shutil.copy(os.path.join(T.LEAN, "BezierVerif", "Tables", t), os.path.join(tables, t))
    shutil.copy(os.path.join(T.HARNESS, "translate_f90.py"), os.path.join(tables, "translate_f90.py"))
    cases = [("baseline", "harmless", "unmodified copy of the sources", [])] + CASES
    if only:
        cases = [c for c in cases if c[0] == only]
    if match:
        cases = [c for c in cases if re.search(match, c[0])]
    with concurrent.futures.ThreadPoolExecutor(max_workers=jobs) as ex:
        results = list(ex.map(lambda c: run_case(c, base, lpath, tables), cases))
    ok = True
    print("%-22s %-9s %-9s %s" % ("case", "kind", "verdict", "broken theorems / note"))
    for r in results:
        if r["note"].startswith("ANCHOR") or r["note"].startswith("translator crashed"):
            verdict, good = "ERROR", False
        elif r["kind"] == "mutation":
            good = bool(r["broken"])
            verdict = "DETECTED" if good else "MISSED"
        elif r["kind"] == "harmless":
            good = not r["broken"]
            verdict = "SURVIVES" if good else "BREAKS"
        else:
            good = True
            verdict = "breaks" if r["broken"] else "survives"
        ok = ok and good
        detail = ", ".join(r["broken"][:6]) + (" (+%d)" % (len(r["broken"]) - 6) if len(r["broken"]) > 6 else "")
        if r["problems"]:
            detail += "  [" + "; ".join(p.replace("EXTRACT-PROBLEM srcf90: ", "") for p in r["problems"][:2])[:160] + "]"
        if r["note"]:
            detail += "  {" + r["note"][:200] + "}"
        print("%-22s %-9s %-9s %s" % (r["name"], r["kind"], verdict, detail))
        print("    " + r["desc"])
    nm = [r for r in results if r["kind"] == "mutation"]
    nh = [r for r in results if r["kind"] == "harmless"]
    print("mutations detected: %d/%d; harmless rewrites surviving: %d/%d; wall %.1fs"
          % (sum(1 for r in nm if r["broken"]), len(nm),
             sum(1 for r in nh if not r["broken"] and not r["note"].startswith("ANCHOR")), len(nh), time.time() - t0))
    if keep:
        print("work dir kept: " + base)
    else:
        shutil.rmtree(base, ignore_errors=True)
    return 0 if ok else 1


if __name__ == "__main__":
    sys.exit(main(sys.argv[1:]))
