#!/venv/bin/python
"""Self-test of the source-to-Lean translator (harness/translate_py.py + lean/BezierVerif/Tables/SrcPy.lean).

For every case a COPY of `$BEZIER_REPO/src/python/bezier/hazmat/*.py` is edited in a temp dir, the
translator is re-run on the copy (`BEZIER_REPO=<copy>`, `--out <scratch>/Generated.lean`), the
generated text and Tables/SrcPy.lean (minus its `import` of the generated module) are concatenated into
one scratch file and that file is checked with `lake env lean`; /repo, the framework's own
Generated/SrcPy.lean and the .lake build directory are not touched.

  * MUTATIONS: small semantic changes of the source.  Expected: at least one theorem of Tables/SrcPy
    fails (or the translator refuses the function: EXTRACT-PROBLEM and the definition is absent).
  * HARMLESS: rewrites that keep the meaning.  Reported honestly whether the theorems survive; the
    ones marked `must` (renamed local, comment / docstring) have to.  The cases labelled LIMIT keep the
    meaning only under algebraic / order laws; the equalities are stated for a number type with
    notation only (as the model is), so they are expected to break - the fix is then to mirror the
    rewrite in the model (or to state that theorem over an ordered field).

usage: test_translate_py.py [-j N] [-k SUBSTRING]
exit status 0 iff every mutation is detected, the baseline builds and every `must` rewrite survives.
"""
import ast
import concurrent.futures
import os
import re
import shutil
import subprocess
import sys
import tempfile
import time

HERE = os.path.dirname(os.path.abspath(__file__))
HARNESS = os.path.dirname(HERE)
ROOT = os.path.dirname(HARNESS)
LEAN = os.path.join(ROOT, "lean")
REPO = os.environ.get("BEZIER_REPO", "/repo")
PY = sys.executable
TABLES = [os.path.join(LEAN, "BezierVerif", "Tables", "SrcPy.lean"),
          os.path.join(LEAN, "BezierVerif", "Tables", "SrcPyReal.lean"),
          os.path.join(LEAN, "BezierVerif", "Tables", "SrcPyKernels.lean"),
          os.path.join(LEAN, "BezierVerif", "Tables", "SrcPyNewton.lean")]
OWN_MODULES = {"import BezierVerif.Generated.SrcPy", "import BezierVerif.Tables.SrcPy", "import BezierVerif.Tables.SrcPyReal",
               "import BezierVerif.Tables.SrcPyKernels", "import BezierVerif.Tables.SrcPyNewton"}

# (label, file, function, old text, new text)   -- old text must occur exactly once inside the function
MUTATIONS = [
    ("in_interval: <= becomes <", "helpers", "in_interval",
     "return start <= value <= end", "return start < value <= end"),
    ("cross_product: operands swapped", "helpers", "cross_product",
     "return vec0[0] * vec1[1] - vec0[1] * vec1[0]", "return vec0[1] * vec1[0] - vec0[0] * vec1[1]"),
    ("cross_product_compare: candidates swapped", "helpers", "cross_product_compare",
     "return cross_product(delta1, delta2)", "return cross_product(delta2, delta1)"),
    ("wiggle_interval: wrong sign", "helpers", "wiggle_interval",
     "elif wiggle <= value <= 1.0 - wiggle:", "elif wiggle <= value <= 1.0 + wiggle:"),
    ("wiggle_interval: changed constant", "helpers", "wiggle_interval",
     "return 1.0, True", "return 0.5, True"),
    ("bbox: left/bottom swapped", "helpers", "bbox",
     "left, bottom = np.min(nodes, axis=1)", "bottom, left = np.min(nodes, axis=1)"),
    ("vector_close: <= becomes <", "helpers", "vector_close",
     "return size2 <= eps", "return size2 < eps"),
    ("vector_close: min becomes max", "helpers", "vector_close",
     "upper_bound = eps * min(size1, size2)", "upper_bound = eps * max(size1, size2)"),
    ("contains_nd: upper-bound test reversed", "helpers", "contains_nd",
     "if not np.all(point <= max_vals):", "if not np.all(max_vals <= point):"),
    ("contains_nd: early return value", "helpers", "contains_nd",
     "    if not np.all(min_vals <= point):\n        return False", "    if not np.all(min_vals <= point):\n        return True"),
    ("solve2x2: pivot test > becomes >=", "helpers", "solve2x2",
     "if np.abs(lhs[1, 0]) > np.abs(lhs[0, 0]):", "if np.abs(lhs[1, 0]) >= np.abs(lhs[0, 0]):"),
    ("solve2x2: singularity guard tests another entry", "helpers", "solve2x2",
     "if lhs[0, 0] == 0.0:", "if lhs[0, 1] == 0.0:"),
    ("bbox_intersect: changed enum member", "geometric_intersection", "bbox_intersect",
     "return BoxIntersectionType.TANGENT", "return BoxIntersectionType.INTERSECTION"),
    ("BoxIntersectionType: changed enum value", "geometric_intersection", None,
     "    TANGENT = 1\n", "    TANGENT = 3\n"),
    ("segment_intersection: start/end swapped", "geometric_intersection", "segment_intersection",
     "delta0 = end0 - start0", "delta0 = start0 - end0"),
    ("segment_intersection: parallel test != instead of ==", "geometric_intersection", "segment_intersection",
     "if cross_d0_d1 == 0.0:", "if cross_d0_d1 != 0.0:"),
    ("parallel_lines_parameters: sign of start_t", "geometric_intersection", "parallel_lines_parameters",
     "start_t = -s_val0 / (s_val1 - s_val0)", "start_t = s_val0 / (s_val1 - s_val0)"),
    ("parallel_lines_parameters: changed constant", "geometric_intersection", "parallel_lines_parameters",
     "        if 1.0 < s_val0:\n            return True, None", "        if 2.0 < s_val0:\n            return True, None"),
    ("line_line_collide: negation dropped", "geometric_intersection", "line_line_collide",
     "return not disjoint", "return disjoint"),
    ("bbox_line_intersect: top edge replaced", "geometric_intersection", "bbox_line_intersect",
     "np.asfortranarray([left, top]),", "np.asfortranarray([left, bottom]),"),
    ("compute_implicit_line: sign of coeff_a", "clipping", "compute_implicit_line",
     "coeff_a = -delta[1]", "coeff_a = delta[1]"),
    ("_update_parameters: s_min/s_max confused", "clipping", "_update_parameters",
     "if _helpers.in_interval(s, 0.0, s_min):", "if _helpers.in_interval(s, 0.0, s_max):"),
    ("two_by_two_det: transposed sign", "triangle_helpers", "two_by_two_det",
     "return mat[0, 0] * mat[1, 1] - mat[0, 1] * mat[1, 0]", "return mat[0, 1] * mat[1, 0] - mat[0, 0] * mat[1, 1]"),
    # ---- phase 2: loops, lists, the stateful pieces of the pipeline, the evaluation kernels
    ("is_separating: min becomes max", "helpers", "is_separating",
     "min_param = min(min_param, param)", "min_param = max(min_param, param)"),
    ("is_separating: or becomes and", "helpers", "is_separating",
     "return params[0][0] > params[1][1] or params[0][1] < params[1][0]",
     "return params[0][0] > params[1][1] and params[0][1] < params[1][0]"),
    ("is_separating: initial value of min_param", "helpers", "is_separating",
     "min_param = np.inf", "min_param = -np.inf"),
    ("polygon_collide: previous vertex index - 1 becomes index - 2", "helpers", "polygon_collide",
     "direction[:] = polygon[:, index] - polygon[:, index - 1]", "direction[:] = polygon[:, index] - polygon[:, index - 2]"),
    ("polygon_collide: answer on a separating edge", "helpers", "polygon_collide",
     "                return False", "                return True"),
    ("in_sorted: >= becomes >", "helpers", "in_sorted",
     "if index >= len(values):", "if index > len(values):"),
    ("in_sorted: == becomes !=", "helpers", "in_sorted",
     "return values[index] == value", "return values[index] != value"),
    ("add_intersection: near-zero test on the wrong parameter", "geometric_intersection", "add_intersection",
     "if s < intersection_helpers.ZERO_THRESHOLD:", "if t < intersection_helpers.ZERO_THRESHOLD:"),
    ("add_intersection: < becomes <=", "geometric_intersection", "add_intersection",
     "            norm_update\n            < intersection_helpers", "            norm_update\n            <= intersection_helpers"),
    ("add_intersection: appended pair swapped", "geometric_intersection", "add_intersection",
     "            return\n\n    intersections.append((s, t))", "            return\n\n    intersections.append((t, s))"),
    ("intersection_helpers.NEWTON_ERROR_RATIO: changed constant", "intersection_helpers", None,
     "NEWTON_ERROR_RATIO = 0.5**36", "NEWTON_ERROR_RATIO = 0.5**35"),
    ("endpoint_check: start/end swapped", "geometric_intersection", "endpoint_check",
     "orig_s = (1 - s) * first.start + s * first.end", "orig_s = (1 - s) * first.end + s * first.start"),
    ("tangent_bbox_intersection: parameter of the third pair", "geometric_intersection", "tangent_bbox_intersection",
     "first, node_first2, 1.0, second, node_second1, 0.0, intersections",
     "first, node_first2, 0.0, second, node_second1, 0.0, intersections"),
    ("linearization_error: changed constant", "geometric_intersection", "linearization_error",
     "multiplier = 0.125 * degree * (degree - 1)", "multiplier = 0.25 * degree * (degree - 1)"),
    ("linearization_error: second difference weight", "geometric_intersection", "linearization_error",
     "second_deriv = nodes[:, :-2] - 2.0 * nodes[:, 1:-1] + nodes[:, 2:]",
     "second_deriv = nodes[:, :-2] - 3.0 * nodes[:, 1:-1] + nodes[:, 2:]"),
    ("linearization_error: slice bound", "geometric_intersection", "linearization_error",
     "second_deriv = nodes[:, :-2] - 2.0 * nodes[:, 1:-1] + nodes[:, 2:]",
     "second_deriv = nodes[:, :-2] - 2.0 * nodes[:, 1:-1] + nodes[:, 1:-1]"),
    ("de_casteljau_one_round: weights swapped", "curve_helpers", "de_casteljau_one_round",
     "lambda1 * nodes[:, :-1] + lambda2 * nodes[:, 1:]", "lambda2 * nodes[:, :-1] + lambda1 * nodes[:, 1:]"),
    ("evaluate_multi_vs: binomial update", "curve_helpers", "evaluate_multi_vs",
     "binom_val = (binom_val * (degree - index + 1)) / index", "binom_val = (binom_val * (degree - index)) / index"),
    ("evaluate_multi_vs: result scaled by the wrong weight", "curve_helpers", "evaluate_multi_vs",
     "        result *= lambda1", "        result *= lambda2"),
    ("evaluate_multi_vs: loop bound", "curve_helpers", "evaluate_multi_vs",
     "for index in range(1, degree):", "for index in range(1, degree + 1):"),
    ("matrix_product: factors exchanged", "helpers", "matrix_product",
     "return np.dot(mat2.T, mat1.T).T", "return np.dot(mat1.T, mat2.T).T"),
    ("evaluate_multi_de_casteljau: weights exchanged in the in-place update", "curve_helpers", "evaluate_multi_de_casteljau",
     "lambda1_wide[:, :, :index] * workspace[:, :, :index]", "lambda2_wide[:, :, :index] * workspace[:, :, :index]"),
    ("evaluate_multi_de_casteljau: loop stops one round early", "curve_helpers", "evaluate_multi_de_casteljau",
     "for index in range(degree - 1, 0, -1):", "for index in range(degree - 1, 1, -1):"),
    ("evaluate_multi_de_casteljau: shifted slice", "curve_helpers", "evaluate_multi_de_casteljau",
     "* workspace[:, :, 1 : (index + 1)]", "* workspace[:, :, 1:index]"),
    ("evaluate_multi_barycentric: threshold", "curve_helpers", "evaluate_multi_barycentric",
     "if num_nodes > 55:", "if num_nodes > 54:"),
    ("evaluate_multi: sign", "curve_helpers", "evaluate_multi",
     "one_less = 1.0 - s_vals", "one_less = 1.0 + s_vals"),
    ("evaluate_hodograph: factor", "curve_helpers", "evaluate_hodograph",
     "return (num_nodes - 1) * evaluate_multi(", "return num_nodes * evaluate_multi("),
    ("newton_refine: sign of the update", "curve_helpers", "newton_refine",
     "return s + delta_s", "return s - delta_s"),
    # ---- phase 3: Newton refinement
    ("full_newton_nonzero: num_nodes1 / num_nodes2 exchanged in the second-derivative net", "intersection_helpers",
     "full_newton_nonzero", "    second_deriv1 = (num_nodes1 - 2) * (", "    second_deriv1 = (num_nodes2 - 2) * ("),
    ("full_newton_nonzero: wrong derivative factor", "intersection_helpers", "full_newton_nonzero",
     "first_deriv1 = (num_nodes1 - 1) * (nodes1[:, 1:] - nodes1[:, :-1])",
     "first_deriv1 = num_nodes1 * (nodes1[:, 1:] - nodes1[:, :-1])"),
    ("full_newton_nonzero: first derivative of the wrong curve", "intersection_helpers", "full_newton_nonzero",
     "first_deriv2 = (num_nodes2 - 1) * (nodes2[:, 1:] - nodes2[:, :-1])",
     "first_deriv2 = (num_nodes2 - 1) * (nodes1[:, 1:] - nodes1[:, :-1])"),
    ("full_newton_nonzero: double-root iteration restarts from (s, t)", "intersection_helpers", "full_newton_nonzero",
     "        evaluate_fn, current_s, current_t\n", "        evaluate_fn, s, t\n"),
    ("full_newton: result not mapped back", "intersection_helpers", "full_newton",
     "            return 1.0 - refined_s, refined_t", "            return refined_s, refined_t"),
    ("newton_refine (curve-curve): sign of the second Jacobian column", "intersection_helpers", "newton_refine",
     "jac_mat[:, 1:] = -curve_helpers.evaluate_hodograph(t, nodes2)", "jac_mat[:, 1:] = curve_helpers.evaluate_hodograph(t, nodes2)"),
    ("newton_refine (curve-curve): Jacobian columns exchanged", "intersection_helpers", "newton_refine",
     "jac_mat[:, :1] = curve_helpers.evaluate_hodograph(s, nodes1)", "jac_mat[:, :1] = curve_helpers.evaluate_hodograph(t, nodes2)"),
    ("NewtonSimpleRoot.__call__: sign of F", "intersection_helpers", None,
     "        func_val = b1_s - b2_t\n", "        func_val = b2_t - b1_s\n"),
    ("polygon_collide: `break` (a statement the translator does not know: must be refused)", "helpers", "polygon_collide",
     "                return False", "                break"),
    ("in_interval: statement the translator does not know (must be refused, not skipped)", "helpers", "in_interval",
     "    return start <= value <= end", "    print(value)\n    return start <= value <= end"),
]

# (label, must_survive, file, function, [(old, new, count)])
HARMLESS = [
    ("renamed local variable (segment_intersection: cross_d0_d1 -> denom)", True, "geometric_intersection",
     "segment_intersection", [("cross_d0_d1", "denom", 4)]),
    ("renamed local variables (parallel_lines_parameters: s_val0/s_val1 -> u0/u1)", True, "geometric_intersection",
     "parallel_lines_parameters", [("s_val0", "u0", None), ("s_val1", "u1", None)]),
    ("added comment + changed docstring (in_interval)", True, "helpers", "in_interval",
     [("    return start <= value <= end", "    # inclusive at both ends\n    return start <= value <= end", 1),
      ("Checks if a ``value`` is an interval (inclusive).", "Is ``value`` in the closed interval?", 1)]),
    ("reordered independent assignments (segment_intersection: delta1 before delta0)", False, "geometric_intersection",
     "segment_intersection",
     [("    delta0 = end0 - start0\n    delta1 = end1 - start1\n", "    delta1 = end1 - start1\n    delta0 = end0 - start0\n", 1)]),
    ("reordered independent assignments (cross_product_compare)", False, "helpers", "cross_product_compare",
     [("    delta1 = candidate1 - start\n    delta2 = candidate2 - start\n",
       "    delta2 = candidate2 - start\n    delta1 = candidate1 - start\n", 1)]),
    ("`a > b` written as `b < a` (solve2x2 pivot test)", False, "helpers", "solve2x2",
     [("if np.abs(lhs[1, 0]) > np.abs(lhs[0, 0]):", "if np.abs(lhs[0, 0]) < np.abs(lhs[1, 0]):", 1)]),
    ("`else:` after a returning branch removed (bbox_intersect)", False, "geometric_intersection", "bbox_intersect",
     [("        return BoxIntersectionType.TANGENT\n\n    else:\n        return BoxIntersectionType.INTERSECTION",
       "        return BoxIntersectionType.TANGENT\n\n    return BoxIntersectionType.INTERSECTION", 1)]),
    ("result bound to a new local before `return` (in_interval)", False, "helpers", "in_interval",
     [("    return start <= value <= end", "    inside = start <= value <= end\n    return inside", 1)]),
    ("renamed local variables (vector_close: size1/size2 -> n1/n2)", True, "helpers", "vector_close",
     [("size1", "n1", None), ("size2", "n2", None)]),
    ("LIMIT: commuted product (cross_product: vec1[1] * vec0[0]) - equal only with a commutative `*`", False, "helpers",
     "cross_product", [("return vec0[0] * vec1[1] - vec0[1] * vec1[0]", "return vec1[1] * vec0[0] - vec0[1] * vec1[0]", 1)]),
    ("LIMIT: `a <= b` written as `not (b < a)` (parallel_lines_parameters) - equal only in a linear order", False,
     "geometric_intersection", "parallel_lines_parameters",
     [("    if s_val0 <= s_val1:", "    if not (s_val1 < s_val0):", 1)]),
    ("renamed loop variable (evaluate_multi_vs: index -> k)", True, "curve_helpers", "evaluate_multi_vs",
     [("index", "k", None)]),
    ("renamed work array (evaluate_multi_de_casteljau: workspace -> buf)", True, "curve_helpers",
     "evaluate_multi_de_casteljau", [("workspace", "buf", None)]),
    ("renamed local variables (full_newton_nonzero: first_deriv1 -> d1)", True, "intersection_helpers",
     "full_newton_nonzero", [("first_deriv1", "d1", None)]),
    ("renamed loop variables (add_intersection: existing_s/existing_t -> es/et)", True, "geometric_intersection",
     "add_intersection", [("existing_s", "es", None), ("existing_t", "et", None)]),
    ("renamed list variable (is_separating: params -> ranges)", True, "helpers", "is_separating",
     [("params", "ranges", None)]),
    ("reordered independent statements in a loop body (is_separating: max before min)", False, "helpers", "is_separating",
     [("            min_param = min(min_param, param)\n            max_param = max(max_param, param)\n",
       "            max_param = max(max_param, param)\n            min_param = min(min_param, param)\n", 1)]),
    ("`elif` chain rewritten as nested `else: if` (wiggle_interval)", False, "helpers", "wiggle_interval",
     [("    elif 1.0 - wiggle < value < 1.0 + wiggle:\n        return 1.0, True\n\n    else:\n        return np.nan, False",
       "    else:\n        if 1.0 - wiggle < value < 1.0 + wiggle:\n            return 1.0, True\n\n"
       "        else:\n            return np.nan, False", 1)]),
]


def function_span(text, name):
    for node in ast.parse(text).body:
        if isinstance(node, ast.FunctionDef) and node.name == name:
            lines = text.split("\n")
            a = sum(len(l) + 1 for l in lines[:node.lineno - 1])
            b = sum(len(l) + 1 for l in lines[:node.end_lineno])
            return a, b
    raise SystemExit("function %s not found" % name)


def edit(text, fn, old, new, count=1):
    a, b = (0, len(text)) if fn is None else function_span(text, fn)
    seg = text[a:b]
    n = seg.count(old)
    if n == 0 or (count is not None and n != count):
        raise SystemExit("test case out of date: %r occurs %d times in %s (expected %s)" % (old, n, fn, count))
    return text[:a] + seg.replace(old, new) + text[b:]


def theorems(text):
    return [(m.group(1), text.count("\n", 0, m.start()) + 1) for m in re.finditer(r"^theorem\s+(\S+)", text, flags=re.M)]


def run_case(work, label, edits):
    """edits: [(file, fn, old, new, count)] applied to a fresh copy; returns dict"""
    t0 = time.time()
    d = tempfile.mkdtemp(prefix="case_", dir=work)
    src = os.path.join(d, "repo", "src", "python", "bezier", "hazmat")
    shutil.copytree(os.path.join(REPO, "src", "python", "bezier", "hazmat"), src)
    for f, fn, old, new, count in edits:
        p = os.path.join(src, f + ".py")
        with open(p) as fh:
            text = fh.read()
        text = edit(text, fn, old, new, count)
        ast.parse(text)                         # the edited file must still be Python
        with open(p, "w") as fh:
            fh.write(text)
    gen = os.path.join(d, "Generated.lean")
    env = dict(os.environ, BEZIER_REPO=os.path.join(d, "repo"))
    r = subprocess.run([PY, os.path.join(HARNESS, "translate_py.py"), "--out", gen], env=env,
                       stdout=subprocess.PIPE, stderr=subprocess.STDOUT, text=True)
    t_tr = time.time() - t0
    if r.returncode != 0:
        return {"label": label, "crash": r.stdout[-800:], "problems": [], "failed": [], "t_translate": t_tr, "t_lean": 0.0}
    problems = [l for l in r.stdout.split("\n") if l.startswith("EXTRACT-PROBLEM")]
    with open(gen) as fh:
        gtext = fh.read()
    ttext = ""
    for tfile in TABLES:
        with open(tfile) as fh:
            ttext += fh.read().rstrip("\n") + "\n\n"
    imports = [l for l in ttext.split("\n") if l.startswith("import ") and l.strip() not in OWN_MODULES]
    tbody = "\n".join("" if l.startswith("import ") else l for l in ttext.split("\n"))
    g_imports = [l for l in gtext.split("\n") if l.startswith("import ")]
    gbody = "\n".join("" if l.startswith("import ") else l for l in gtext.split("\n"))
    head = "\n".join(g_imports + [i for i in imports if i not in g_imports]) + "\n"
    combined = head + gbody + "\n"
    offset = combined.count("\n")
    combined += tbody
    cfile = os.path.join(d, "Combined.lean")
    with open(cfile, "w") as fh:
        fh.write(combined)
    t1 = time.time()
    r2 = subprocess.run(["lake", "env", "lean", cfile], cwd=LEAN, stdout=subprocess.PIPE, stderr=subprocess.STDOUT, text=True)
    t_lean = time.time() - t1
    thms = theorems(tbody)
    failed, other = [], []
    for m in re.finditer(r"^(\S+?):(\d+):(\d+): error", r2.stdout, flags=re.M):
        ln = int(m.group(2)) - offset
        cands = [n for n, l in thms if l <= ln]
        if ln > 0 and cands:
            if cands[-1] not in failed:
                failed.append(cands[-1])
        else:
            other.append("line %s of the generated part" % m.group(2) if ln <= 0 else "Tables line %d" % ln)
    if r2.returncode != 0 and not failed and not other:
        other.append(r2.stdout[-300:])
    return {"label": label, "problems": problems, "failed": failed, "other": other, "n_thms": len(thms),
            "t_translate": t_tr, "t_lean": t_lean, "same_text": None, "gen": gtext}


def main():
    jobs = 4
    only = None
    argv = sys.argv[1:]
    while argv:
        a = argv.pop(0)
        if a == "-j":
            jobs = int(argv.pop(0))
        elif a == "-k":
            only = argv.pop(0)
        else:
            raise SystemExit(__doc__)
    work = tempfile.mkdtemp(prefix="test_translate_py_")
    cases = [("baseline (unchanged source)", "base", True, [])]
    for label, f, fn, old, new in MUTATIONS:
        cases.append((label, "mut", True, [(f, fn, old, new, 1)]))
    for label, must, f, fn, eds in HARMLESS:
        cases.append((label, "harmless", must, [(f, fn, o, n, c) for o, n, c in eds]))
    if only:
        cases = [c for c in cases if only in c[0] or c[1] == "base"]
    t0 = time.time()
    with concurrent.futures.ThreadPoolExecutor(max_workers=jobs) as ex:
        futs = [ex.submit(run_case, work, c[0], c[3]) for c in cases]
        results = [f.result() for f in futs]
    base = results[0]
    ok = True
    print("== baseline: %d theorems, translator %.2fs, lean %.1fs, problems %s, failing %s"
          % (base.get("n_thms", 0), base["t_translate"], base["t_lean"], base["problems"] or "none",
             (base["failed"] + base.get("other", [])) or "none"))
    if base.get("crash") or base["failed"] or base.get("other") or base["problems"]:
        ok = False
    print("== mutations (expected: detected)")
    for c, r in zip(cases, results):
        if c[1] != "mut":
            continue
        detected = bool(r.get("crash") is None and (r["failed"] or r["problems"] or r.get("other")))
        if r.get("crash"):
            detected = False
        ok &= detected
        how = []
        if r["problems"]:
            how.append("translator: " + "; ".join(p.replace("EXTRACT-PROBLEM srcpy: ", "") for p in r["problems"]))
        if r["failed"]:
            how.append("theorems broken: " + ", ".join(r["failed"]))
        if r.get("other"):
            how.append("other errors: " + ", ".join(r["other"]))
        if r.get("crash"):
            how.append("TRANSLATOR CRASHED: " + r["crash"])
        print("  [%s] %-62s %s" % ("DETECTED" if detected else "MISSED  ", r["label"], " | ".join(how) or "-"))
    print("== harmless rewrites (reported as found; `must` ones have to survive)")
    for c, r in zip(cases, results):
        if c[1] != "harmless":
            continue
        survived = not (r.get("crash") or r["failed"] or r["problems"] or r.get("other"))
        same = r.get("gen") == base.get("gen")
        if c[2] and not survived:
            ok = False
        what = "generated Lean text identical" if same else "generated Lean text differs"
        if not survived:
            what += "; broken: " + ", ".join(r["failed"] + r.get("other", []) + r["problems"])
        print("  [%s]%s %-72s %s" % ("SURVIVES" if survived else "BREAKS  ", " must" if c[2] else "     ", r["label"], what))
    print("== %d cases in %.1fs wall (-j %d); per case: translator %.2fs, lean %.1fs (mean)"
          % (len(cases), time.time() - t0, jobs, sum(r["t_translate"] for r in results) / len(results),
             sum(r["t_lean"] for r in results) / len(results)))
    shutil.rmtree(work, ignore_errors=True)
    print("RESULT: " + ("ok" if ok else "FAILED"))
    sys.exit(0 if ok else 1)


if __name__ == "__main__":
    main()
