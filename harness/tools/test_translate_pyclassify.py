#!/venv/bin/python
"""Self-test of phase 4 (pyclassify) of the source-to-Lean translator: the decision logic of the triangle-triangle
intersection (`hazmat/triangle_helpers.py`, `hazmat/triangle_intersection.py`) against lean/BezierVerif/Tables/SrcPyClassify.lean.

Same machinery as harness/tools/test_translate_py.py (its `edit` / `theorems` helpers are imported): for every case a COPY of
`$BEZIER_REPO/src/python/bezier/hazmat/*.py` is edited in a temp dir, the translator is re-run on the copy, the generated text
is concatenated with the theorem files and checked with `lake env lean`.  /repo, the framework's Generated/SrcPy.lean and
.lake are not touched.

Two ways of concatenating (to keep the CPU cost down):
  * HEAVY (cases about ignored_edge_corner / ignored_double_corner / ignored_corner / classify_intersection / ALMOST_TANGENT,
    and the baseline): generated text + Tables/SrcPy, SrcPyReal, SrcPyKernels (for `evaluate_hodograph_src`) + SrcPyClassify;
  * LIGHT (all other cases, and the baseline once more): generated text + Tables/SrcPyClassify WITHOUT its sections `Field` and
    `Ordered` (the only ones that use Tables/SrcPyKernels); every theorem about the edited routine is still checked.

  * MUTATIONS: semantic changes of the source; each must break a theorem of Tables/SrcPyClassify (or be refused by the
    translator: EXTRACT-PROBLEM and no definition).
  * HARMLESS: meaning-preserving rewrites; the ones marked `must` have to survive.

usage: test_translate_pyclassify.py [-j N] [-k SUBSTRING]
exit status 0 iff every mutation is detected, both baselines build and every `must` rewrite survives.
"""
import os
import sys

HERE = os.path.dirname(os.path.abspath(__file__))
sys.path.insert(0, HERE)
import test_translate_py as T  # noqa: E402

TAB = os.path.join(T.LEAN, "BezierVerif", "Tables")
T.TABLES = [os.path.join(TAB, "SrcPy.lean"), os.path.join(TAB, "SrcPyReal.lean"), os.path.join(TAB, "SrcPyKernels.lean"),
            os.path.join(TAB, "SrcPyClassify.lean")]
T.OWN_MODULES = {"import BezierVerif.Generated.SrcPy", "import BezierVerif.Tables.SrcPy", "import BezierVerif.Tables.SrcPyReal",
                 "import BezierVerif.Tables.SrcPyKernels", "import BezierVerif.Tables.SrcPyClassify"}

TH = "triangle_helpers"
T.MUTATIONS = [
    ("handle_ends: next edge index + 2 instead of + 1", TH, "handle_ends",
     "        s = 0.0\n        index1 = (index1 + 1) % 3", "        s = 0.0\n        index1 = (index1 + 2) % 3"),
    ("handle_ends: is_corner `or` becomes `and`", TH, "handle_ends",
     "is_corner = s == 0.0 or t == 0.0", "is_corner = s == 0.0 and t == 0.0"),
    ("handle_ends: t == 1.0 does not set edge_end", TH, "handle_ends",
     "        index2 = (index2 + 1) % 3\n        edge_end = True", "        index2 = (index2 + 1) % 3\n        edge_end = False"),
    ("handle_ends: s at an edge end is not rotated to 0.0", TH, "handle_ends",
     "        s = 0.0\n", "        s = 1.0\n"),
    ("is_first: TANGENT_FIRST replaced by TANGENT_SECOND", TH, "is_first",
     "CLASSIFICATION_T.TANGENT_FIRST,", "CLASSIFICATION_T.TANGENT_SECOND,"),
    ("is_second: SECOND replaced by FIRST", TH, "is_second",
     "CLASSIFICATION_T.SECOND,", "CLASSIFICATION_T.FIRST,"),
    ("IntersectionClassification: FIRST / SECOND exchange their integers", "intersection_helpers", None,
     "    FIRST = 0\n", "    FIRST = 1\n"),
    ("IntersectionClassification: changed integer of IGNORED_CORNER", "intersection_helpers", None,
     "    IGNORED_CORNER = 5\n", "    IGNORED_CORNER = 9\n"),
    ("ignored_edge_corner: > becomes >=", TH, "ignored_edge_corner",
     "if cross_prod > 0.0:", "if cross_prod >= 0.0:"),
    ("ignored_edge_corner: the arriving tangent is not reversed", TH, "ignored_edge_corner",
     "alt_corner_tangent *= -1.0", "alt_corner_tangent *= 1.0"),
    ("ignored_edge_corner: previous edge evaluated at 0.0 instead of 1.0", TH, "ignored_edge_corner",
     "        1.0, corner_previous_edge", "        0.0, corner_previous_edge"),
    ("ignored_edge_corner: <= becomes <", TH, "ignored_edge_corner",
     "return cross_prod <= 0.0", "return cross_prod < 0.0"),
    ("ignored_edge_corner: operands of the second cross product exchanged", TH, "ignored_edge_corner",
     'edge_tangent.ravel(order="F"), alt_corner_tangent.ravel(order="F")',
     'alt_corner_tangent.ravel(order="F"), edge_tangent.ravel(order="F")'),
    ("ignored_double_corner: previous edge index + 1 instead of - 1", TH, "ignored_double_corner",
     "prev_index = (intersection.index_second - 1) % 3", "prev_index = (intersection.index_second + 1) % 3"),
    ("ignored_double_corner: previous edge of the t triangle taken from the s triangle", TH, "ignored_double_corner",
     "prev_edge = edge_nodes2[prev_index]", "prev_edge = edge_nodes1[prev_index]"),
    ("ignored_double_corner: final `or` becomes `and`", TH, "ignored_double_corner",
     "return cross_prod1 > 0.0 or cross_prod3 < 0.0", "return cross_prod1 > 0.0 and cross_prod3 < 0.0"),
    ("ignored_double_corner: cross_prod4 test >= becomes >", TH, "ignored_double_corner",
     "if cross_prod4 >= 0.0:", "if cross_prod4 > 0.0:"),
    ("ignored_double_corner: alt_tangent_t not reversed", TH, "ignored_double_corner",
     "alt_tangent_t *= -1.0", "alt_tangent_t *= 1.0"),
    ("ignored_corner: tangents exchanged in the s-only corner", TH, "ignored_corner",
     "return ignored_edge_corner(tangent_t, tangent_s, prev_edge)", "return ignored_edge_corner(tangent_s, tangent_t, prev_edge)"),
    ("ignored_corner: a non-corner is ignored", TH, "ignored_corner",
     "        # Not a corner.\n        return False", "        # Not a corner.\n        return True"),
    ("ignored_corner: t-only corner uses the first triangle's index", TH, "ignored_corner",
     "prev_index = (intersection.index_second - 1) % 3", "prev_index = (intersection.index_first - 1) % 3"),
    ("classify_tangent_intersection: dot_prod < 0 becomes <= 0", TH, "classify_tangent_intersection",
     "if dot_prod < 0:", "if dot_prod <= 0:"),
    ("classify_tangent_intersection: sign1 == 1.0 becomes -1.0", TH, "classify_tangent_intersection",
     "if sign1 == 1.0:", "if sign1 == -1.0:"),
    ("classify_tangent_intersection: TANGENT_FIRST test reversed", TH, "classify_tangent_intersection",
     "        if curvature1 > curvature2:", "        if curvature1 < curvature2:"),
    ("classify_tangent_intersection: delta_c with exchanged operands", TH, "classify_tangent_intersection",
     "delta_c = abs(curvature1) - abs(curvature2)", "delta_c = abs(curvature2) - abs(curvature1)"),
    ("classify_tangent_intersection: curvature2 at the parameter s", TH, "classify_tangent_intersection",
     "curvature2 = curve_helpers.get_curvature(nodes2, tangent2, intersection.t)",
     "curvature2 = curve_helpers.get_curvature(nodes2, tangent2, intersection.s)"),
    ("classify_tangent_intersection: abs dropped", TH, "classify_tangent_intersection",
     "delta_c = abs(curvature1) - abs(curvature2)", "delta_c = curvature1 - abs(curvature2)"),
    ("classify_tangent_intersection: equal-sign answer exchanged", TH, "classify_tangent_intersection",
     "            if sign1 == 1.0:\n                return CLASSIFICATION_T.OPPOSED",
     "            if sign1 == 1.0:\n                return CLASSIFICATION_T.TANGENT_BOTH"),
    ("classify_intersection: sign of the FIRST threshold", TH, "classify_intersection",
     "if cross_prod < -ALMOST_TANGENT:", "if cross_prod < ALMOST_TANGENT:"),
    ("ALMOST_TANGENT: changed constant", TH, None,
     "ALMOST_TANGENT = 0.5**50", "ALMOST_TANGENT = 0.5**40"),
    ("classify_intersection: tangent2 on the first edge", TH, "classify_intersection",
     "tangent2 = curve_helpers.evaluate_hodograph(intersection.t, nodes2)",
     "tangent2 = curve_helpers.evaluate_hodograph(intersection.t, nodes1)"),
    ("classify_intersection: edge-end guard `or` becomes `and`", TH, "classify_intersection",
     "if intersection.s == 1.0 or intersection.t == 1.0:", "if intersection.s == 1.0 and intersection.t == 1.0:"),
    ("classify_intersection: ignored-corner test negated", TH, "classify_intersection",
     "    if ignored_corner(\n", "    if not ignored_corner(\n"),
    ("classify_intersection: FIRST / SECOND answers exchanged", TH, "classify_intersection",
     "        return CLASSIFICATION_T.FIRST\n", "        return CLASSIFICATION_T.SECOND\n"),
    ("classify_intersection: second edge indexed by index_first", TH, "classify_intersection",
     "nodes2 = edge_nodes2[intersection.index_second]", "nodes2 = edge_nodes2[intersection.index_first]"),
    # ---- the boundary walk: object references, `unused`
    ("ends_to_curve: second-triangle edges numbered from 2 instead of 3", TH, "ends_to_curve",
     "            raise ValueError(_WRONG_CURVE)\n\n        return start_node.index_second + 3, start_node.t, end_node.t",
     "            raise ValueError(_WRONG_CURVE)\n\n        return start_node.index_second + 2, start_node.t, end_node.t"),
    ("ends_to_curve: consistency check != becomes ==", TH, "ends_to_curve",
     "if end_node.index_first != start_node.index_first:", "if end_node.index_first == start_node.index_first:"),
    ("ends_to_curve: end parameter taken from the start node", TH, "ends_to_curve",
     "            raise ValueError(_WRONG_CURVE)\n\n        return start_node.index_first, start_node.s, end_node.s",
     "            raise ValueError(_WRONG_CURVE)\n\n        return start_node.index_first, start_node.s, start_node.s"),
    ("ends_to_curve: COINCIDENT start prefers the second triangle", TH, "ends_to_curve",
     "        if end_node.index_first == start_node.index_first:\n            return start_node.index_first, start_node.s, end_node.s",
     "        if end_node.index_first == start_node.index_first:\n            return start_node.index_second + 3, start_node.t, end_node.t"),
    ("get_next_first: other_s > s becomes >=", TH, "get_next_first",
     "if other_int.index_first == index_first and other_s > s:", "if other_int.index_first == index_first and other_s >= s:"),
    ("get_next_first: keeps the farthest instead of the nearest", TH, "get_next_first",
     "if along_edge is None or other_s < along_edge.s:", "if along_edge is None or other_s > along_edge.s:"),
    ("get_next_first: edge test dropped", TH, "get_next_first",
     "if other_int.index_first == index_first and other_s > s:", "if other_s > s:"),
    ("get_next_first: artificial end node at 0.0", TH, "get_next_first",
     "                index_first,\n                1.0,", "                index_first,\n                0.0,"),
    ("get_next_first: artificial end node classified SECOND", TH, "get_next_first",
     "interior_curve=CLASSIFICATION_T.FIRST,", "interior_curve=CLASSIFICATION_T.SECOND,"),
    ("get_next_second: compares with s instead of t", TH, "get_next_second",
     "    t = intersection.t\n", "    t = intersection.s\n"),
    ("get_next_second: to_end ignored", TH, "get_next_second",
     "        if to_end:\n", "        if True:\n"),
    ("get_next_coincident: second edge searched first", TH, "get_next_coincident",
     "along_first = get_next_first(intersection, intersections, to_end=False)",
     "along_first = get_next_second(intersection, intersections, to_end=False)"),
    ("get_next_coincident: to_end=True in the first search", TH, "get_next_coincident",
     "along_first = get_next_first(intersection, intersections, to_end=False)",
     "along_first = get_next_first(intersection, intersections, to_end=True)"),
    ("get_next_coincident: artificial end node not COINCIDENT", TH, "get_next_coincident",
     "interior_curve=CLASSIFICATION_T.COINCIDENT,", "interior_curve=CLASSIFICATION_T.FIRST,"),
    ("get_next: SECOND nodes walk the first triangle", TH, "get_next",
     "result = get_next_second(intersection, intersections)", "result = get_next_first(intersection, intersections)"),
    ("get_next: result not removed from unused", TH, "get_next",
     "    if result in unused:\n        unused.remove(result)\n", "    if result in unused:\n        pass\n"),
    ("get_next: unknown classification treated as COINCIDENT (the Fortran behaviour)", TH, "get_next",
     "    elif intersection.interior_curve == CLASSIFICATION_T.COINCIDENT:\n        result = get_next_coincident(intersection, intersections)\n    else:\n        raise ValueError(\n            'Cannot get next node if not starting from \"FIRST\", '\n            '\"TANGENT_FIRST\", \"SECOND\", \"TANGENT_SECOND\" or \"COINCIDENT\".'\n        )\n",
     "    else:\n        result = get_next_coincident(intersection, intersections)\n"),
    ("to_front: next edge index + 2", TH, "to_front",
     "next_index = (intersection.index_first + 1) % 3", "next_index = (intersection.index_first + 2) % 3"),
    ("to_front: existing corner searched at s == 1.0", TH, "to_front",
     "if other_int.s == 0.0 and other_int.index_first == next_index:", "if other_int.s == 1.0 and other_int.index_first == next_index:"),
    ("to_front: existing corner not removed from unused", TH, "to_front",
     "            if other_int.t == 0.0 and other_int.index_second == next_index:\n                if other_int in unused:\n                    unused.remove(other_int)\n",
     "            if other_int.t == 0.0 and other_int.index_second == next_index:\n"),
    ("to_front: artificial corner of the second triangle classified FIRST", TH, "to_front",
     "None, None, next_index, 0.0, interior_curve=CLASSIFICATION_T.SECOND", "None, None, next_index, 0.0, interior_curve=CLASSIFICATION_T.FIRST"),
    ("to_front: a new object instead of the existing intersection", TH, "to_front",
     "                if other_int in unused:\n                    unused.remove(other_int)\n                return other_int\n\n        # If we haven't already returned, create **another** artificial\n        # intersection.\n        return intersection_helpers.Intersection(\n            next_index, 0.0, None, None,",
     "                if other_int in unused:\n                    unused.remove(other_int)\n                return intersection_helpers.Intersection(other_int.index_first, other_int.s, other_int.index_second, other_int.t, other_int.interior_curve)\n\n        # If we haven't already returned, create **another** artificial\n        # intersection.\n        return intersection_helpers.Intersection(\n            next_index, 0.0, None, None,"),
    ("Intersection.__init__: s and t stored crosswise (constructor no longer plain: must be refused)", "intersection_helpers", None,
     "        self.s = s\n", "        self.s = t\n"),
    # ---- dispatch and bookkeeping
    ("tangent_only_intersections: TANGENT_FIRST means the second triangle is contained", TH, "tangent_only_intersections",
     "    elif point_type == CLASSIFICATION_T.TANGENT_FIRST:\n        return None, True", "    elif point_type == CLASSIFICATION_T.TANGENT_FIRST:\n        return None, False"),
    ("tangent_only_intersections: IGNORED_CORNER raises", TH, "tangent_only_intersections",
     "    elif point_type == CLASSIFICATION_T.IGNORED_CORNER:\n        return [], None", "    elif point_type == CLASSIFICATION_T.IGNORED_CORNER:\n        raise ValueError(point_type)"),
    ("tangent_only_intersections: size check != 1 becomes > 1", TH, "tangent_only_intersections",
     "if len(all_types) != 1:", "if len(all_types) > 1:"),
    ("no_intersections: containment answers exchanged", TH, "no_intersections",
     "    if located is not None:\n        return None, True", "    if located is not None:\n        return None, False"),
    ("no_intersections: second corner read from nodes1", TH, "no_intersections",
     "nodes1, degree1, nodes2[0, 0], nodes2[1, 0]", "nodes1, degree1, nodes1[0, 0], nodes2[1, 0]"),
    ("combine_intersections: tangent case tested first", TH, "combine_intersections",
     "    if intersections:\n", "    if not all_types and intersections:\n"),
    ("classify_coincident: >= becomes >", "triangle_intersection", "classify_coincident",
     "if st_vals[0, 0] >= st_vals[0, 1] or st_vals[1, 0] >= st_vals[1, 1]:", "if st_vals[0, 0] > st_vals[0, 1] or st_vals[1, 0] >= st_vals[1, 1]:"),
    ("classify_coincident: second test on the s row", "triangle_intersection", "classify_coincident",
     "or st_vals[1, 0] >= st_vals[1, 1]:", "or st_vals[0, 0] >= st_vals[1, 1]:"),
    ("should_use: COINCIDENT not acceptable (module tuple)", "triangle_intersection", None,
     "    CLASSIFICATION_T.SECOND,\n    CLASSIFICATION_T.COINCIDENT,\n)", "    CLASSIFICATION_T.SECOND,\n)"),
    ("should_use: tangent corners need both parameters 0", "triangle_intersection", "should_use",
     "return intersection.s == 0.0 or intersection.t == 0.0", "return intersection.s == 0.0 and intersection.t == 0.0"),
    ("check_unused: any classification matches", "triangle_intersection", "check_unused",
     "            other.interior_curve == UNUSED_T\n            and intersection.index_first", "            intersection.index_first"),
    ("check_unused: duplicate not recorded on the t branch", "triangle_intersection", "check_unused",
     "            if intersection.t == 0.0 and other.t == 0.0:\n                duplicates.append(intersection)\n",
     "            if intersection.t == 0.0 and other.t == 0.0:\n"),
    ("UNUSED_T: module alias re-pointed to COINCIDENT", "triangle_intersection", None,
     "UNUSED_T = CLASSIFICATION_T.COINCIDENT_UNUSED", "UNUSED_T = CLASSIFICATION_T.COINCIDENT"),
    ("handle_ends: statement the translator does not know (must be refused, not skipped)", TH, "handle_ends",
     "    edge_end = False\n", "    edge_end = False\n    print(s)\n"),
    ("ignored_edge_corner: second name for the array that is negated in place (must be refused)", TH, "ignored_edge_corner",
     "    alt_corner_tangent *= -1.0\n", "    keep = alt_corner_tangent\n    alt_corner_tangent *= -1.0\n"),
]

T.HARMLESS = [
    ("renamed local variable (ignored_double_corner: prev_edge -> pe)", True, TH, "ignored_double_corner",
     [("prev_edge", "pe", None)]),
    ("renamed local variable (classify_tangent_intersection: delta_c -> dc)", True, TH, "classify_tangent_intersection",
     [("delta_c", "dc", None)]),
    ("added comment (handle_ends)", True, TH, "handle_ends",
     [("    edge_end = False\n", "    # nothing rotated yet\n    edge_end = False\n", 1)]),
    ("renamed local variables (classify_intersection: tangent1/tangent2 -> tan1/tan2)", True, TH, "classify_intersection",
     [("tangent1", "tan1", None), ("tangent2", "tan2", None)]),
    ("renamed loop variable (get_next_first: other_int -> cand)", True, TH, "get_next_first", [("other_int", "cand", None)]),
    ("renamed local variable (to_front: next_index -> nxt)", True, TH, "to_front", [("next_index", "nxt", None)]),
    ("renamed local variable (check_unused: other -> o2)", True, "triangle_intersection", "check_unused",
     [("other.", "o2.", None), ("for other in", "for o2 in", 1)]),
    ("keyword argument written positionally (get_next_coincident: to_end=False -> False)", False, TH, "get_next_coincident",
     [("along_first = get_next_first(intersection, intersections, to_end=False)",
       "along_first = get_next_first(intersection, intersections, False)", 1)]),
    ("`a > b` written as `b < a` (classify_tangent_intersection)", False, TH, "classify_tangent_intersection",
     [("        if curvature1 > curvature2:", "        if curvature2 < curvature1:", 1)]),
    ("`elif` after a returning branch written as `if` (classify_intersection)", False, TH, "classify_intersection",
     [("    elif cross_prod > ALMOST_TANGENT:", "    if cross_prod > ALMOST_TANGENT:", 1)]),
    ("LIMIT: `sign1 == sign2` written as `sign2 == sign1` - equal only with a symmetric `=`", False, TH,
     "classify_tangent_intersection", [("if sign1 == sign2:", "if sign2 == sign1:", 1)]),
]


HEAVY_FUNCS = {"ignored_edge_corner", "ignored_double_corner", "ignored_corner", "classify_intersection"}


def is_heavy(label, fn):
    return fn in HEAVY_FUNCS or "ALMOST_TANGENT" in label


def light_tables():
    """Tables/SrcPyClassify.lean without the sections that need Tables/SrcPyKernels"""
    import re
    with open(os.path.join(TAB, "SrcPyClassify.lean")) as fh:
        text = fh.read()
    a = text.index("\nsection Field")
    b = text.index("end Ordered\n") + len("end Ordered\n")
    removed = text[a:b]
    text = text[:a] + "\n" * removed.count("\n") + text[b:]          # keep the line numbers
    text = text.replace(" BezierVerif.SrcPyKernels\n", "\n")
    return text


def run_case(work, label, edits, heavy):
    import ast
    import re
    import shutil
    import subprocess
    import tempfile
    import time
    t0 = time.time()
    d = tempfile.mkdtemp(prefix="case_", dir=work)
    src = os.path.join(d, "repo", "src", "python", "bezier", "hazmat")
    shutil.copytree(os.path.join(T.REPO, "src", "python", "bezier", "hazmat"), src)
    for f, fn, old, new, count in edits:
        p = os.path.join(src, f + ".py")
        with open(p) as fh:
            text = fh.read()
        text = T.edit(text, fn, old, new, count)
        ast.parse(text)
        with open(p, "w") as fh:
            fh.write(text)
    gen = os.path.join(d, "Generated.lean")
    env = dict(os.environ, BEZIER_REPO=os.path.join(d, "repo"))
    r = subprocess.run([T.PY, os.path.join(T.HARNESS, "translate_py.py"), "--out", gen], env=env,
                       stdout=subprocess.PIPE, stderr=subprocess.STDOUT, text=True)
    t_tr = time.time() - t0
    if r.returncode != 0:
        return {"label": label, "crash": r.stdout[-800:], "problems": [], "failed": [], "t_translate": t_tr, "t_lean": 0.0}
    problems = [l for l in r.stdout.split("\n") if l.startswith("EXTRACT-PROBLEM")]
    with open(gen) as fh:
        gtext = fh.read()
    if heavy:
        ttext = ""
        for tfile in T.TABLES:
            with open(tfile) as fh:
                ttext += fh.read().rstrip("\n") + "\n\n"
    else:
        ttext = light_tables()
    imports = [l for l in ttext.split("\n") if l.startswith("import ") and l.strip() not in T.OWN_MODULES]
    tbody = "\n".join("" if l.startswith("import ") else l for l in ttext.split("\n"))
    g_imports = [l for l in gtext.split("\n") if l.startswith("import ")]
    gbody = "\n".join("" if l.startswith("import ") else l for l in gtext.split("\n"))
    head = "\n".join(g_imports + [i for i in imports if i not in g_imports]) + "\n"
    combined = head + gbody + "\n"
    offset = combined.count("\n")
    combined += tbody
    cfile = os.path.join(d, "Combined.lean")
    with open(cfile, "w") as fh:
        fh.write(combined)
    t1 = time.time()
    r2 = subprocess.run(["lake", "env", "lean", cfile], cwd=T.LEAN, stdout=subprocess.PIPE, stderr=subprocess.STDOUT, text=True)
    t_lean = time.time() - t1
    thms = T.theorems(tbody)
    failed, other = [], []
    for m in re.finditer(r"^(\S+?):(\d+):(\d+): error", r2.stdout, flags=re.M):
        ln = int(m.group(2)) - offset
        cands = [n for n, l in thms if l <= ln]
        if ln > 0 and cands:
            if cands[-1] not in failed:
                failed.append(cands[-1])
        else:
            other.append("line %s of the generated part" % m.group(2) if ln <= 0 else "Tables line %d" % ln)
    if r2.returncode != 0 and not failed and not other:
        other.append("lean exit %d: %s" % (r2.returncode, r2.stdout[-300:]))
    return {"label": label, "problems": problems, "failed": failed, "other": other, "n_thms": len(thms),
            "t_translate": t_tr, "t_lean": t_lean, "gen": gtext, "heavy": heavy}


def main():
    import concurrent.futures
    import shutil
    import tempfile
    import time
    jobs, only = 3, None
    argv = sys.argv[1:]
    while argv:
        a = argv.pop(0)
        if a == "-j":
            jobs = int(argv.pop(0))
        elif a == "-k":
            only = argv.pop(0)
        else:
            raise SystemExit(__doc__)
    work = tempfile.mkdtemp(prefix="test_translate_pyclassify_")
    cases = [("baseline, heavy (unchanged source, all theorem files)", "base", True, [], True),
             ("baseline, light (unchanged source, SrcPyClassify without sections Field / Ordered)", "base", True, [], False)]
    for label, f, fn, old, new in T.MUTATIONS:
        cases.append((label, "mut", True, [(f, fn, old, new, 1)], is_heavy(label, fn)))
    for label, must, f, fn, eds in T.HARMLESS:
        cases.append((label, "harmless", must, [(f, fn, o, n, c) for o, n, c in eds], is_heavy(label, fn)))
    if only:
        cases = [c for c in cases if only in c[0] or c[1] == "base"]
    t0 = time.time()
    with concurrent.futures.ThreadPoolExecutor(max_workers=jobs) as ex:
        futs = [ex.submit(run_case, work, c[0], c[3], c[4]) for c in cases]
        results = [f.result() for f in futs]
    ok = True
    for base in results[:2]:
        print("== %s: %d theorems, translator %.2fs, lean %.1fs, problems %s, failing %s"
              % (base["label"], base.get("n_thms", 0), base["t_translate"], base["t_lean"], base["problems"] or "none",
                 (base["failed"] + base.get("other", [])) or "none"))
        if base.get("crash") or base["failed"] or base.get("other") or base["problems"]:
            ok = False
    print("== mutations (expected: detected)")
    n_mut = n_det = 0
    for c, r in zip(cases, results):
        if c[1] != "mut":
            continue
        detected = bool(r.get("crash") is None and (r["failed"] or r["problems"] or r.get("other")))
        n_mut += 1
        n_det += detected
        ok &= detected
        how = []
        if r["problems"]:
            how.append("translator: " + "; ".join(p.replace("EXTRACT-PROBLEM srcpy: ", "") for p in r["problems"]))
        if r["failed"]:
            how.append("theorems broken: " + ", ".join(r["failed"]))
        if r.get("other"):
            how.append("other errors: " + ", ".join(r["other"]))
        if r.get("crash"):
            how.append("TRANSLATOR CRASHED: " + r["crash"])
        print("  [%s] %s %-70s %s" % ("DETECTED" if detected else "MISSED  ", "H" if c[4] else "L", r["label"], " | ".join(how) or "-"))
    print("== harmless rewrites (reported as found; `must` ones have to survive)")
    for c, r in zip(cases, results):
        if c[1] != "harmless":
            continue
        survived = not (r.get("crash") or r["failed"] or r["problems"] or r.get("other"))
        same = r.get("gen") == results[0].get("gen")
        if c[2] and not survived:
            ok = False
        what = "generated Lean text identical" if same else "generated Lean text differs"
        if not survived:
            what += "; broken: " + ", ".join(r["failed"] + r.get("other", []) + r["problems"])
        print("  [%s]%s %-72s %s" % ("SURVIVES" if survived else "BREAKS  ", " must" if c[2] else "     ", r["label"], what))
    print("== %d mutations, %d detected; %d cases in %.1fs wall (-j %d); per case: translator %.2fs, lean %.1fs (mean)"
          % (n_mut, n_det, len(cases), time.time() - t0, jobs, sum(r["t_translate"] for r in results) / len(results),
             sum(r["t_lean"] for r in results) / len(results)))
    shutil.rmtree(work, ignore_errors=True)
    print("RESULT: " + ("ok" if ok else "FAILED"))
    sys.exit(0 if ok else 1)


if __name__ == "__main__":
    main()
