#!/venv/bin/python
"""Self-test of phase 4 of the source-to-Lean translator (harness/translate_py.py, the remainder of
hazmat/curve_helpers.py) + lean/BezierVerif/Tables/SrcPyCurve.lean.

Same machinery as test_translate_py.py (a COPY of the hazmat sources is edited, the translator is re-run on the copy,
the generated text and the theorem files are checked together with `lake env lean`; /repo, the framework's own
Generated/SrcPy.lean and the build directory are not touched).  The theorem files checked per case are the import chain
of Tables/SrcPyCurve.lean: SrcPy, SrcPyReal, SrcPyKernels, SrcPyCurve.

  * MUTATIONS: semantic changes of `subdivide_nodes`, `make_subdivision_matrices`, `reduce_pseudo_inverse`,
    `elevate_nodes`, `get_curvature`, `vec_size`, `compute_length`, `projection_error`, `maybe_reduce`, `full_reduce` and of the module-level tables
    they read.  Expected: a theorem of Tables/SrcPyCurve fails, or the translator refuses the function (the cases marked
    REFUSED: a second reference to an array that is updated in place, an unknown statement).
  * HARMLESS: renamed locals / comments must survive; the others are reported as found.

usage: test_translate_pycurve.py [--fast] [-j N] [-k SUBSTRING]
exit status 0 iff every mutation is detected, the baseline builds and every `must` rewrite survives.

`--fast`: every mutation of this file changes only phase-4 functions / the tables they read, so the translation of all
other functions is the baseline's.  In this mode only the phase-4 part of the mutated translation (module-level constant
arrays + the definitions of `P4_NAMES`) is placed in a side namespace `BezierVerif.Src.PyMut` on top of the COMPILED
`BezierVerif.Tables.SrcPyKernels` (`lake build BezierVerif.Tables.SrcPyKernels` first), and Tables/SrcPyCurve.lean is checked
with every `Src.Py.<phase-4 name>` renamed to `Src.PyMut.<name>`: the same statements about the mutated definitions, without
re-checking the 150 theorems of the prerequisite files per case (about 4 x faster).  The full mode is the reference.
"""
import os
import sys

HERE = os.path.dirname(os.path.abspath(__file__))
sys.path.insert(0, HERE)
import test_translate_py as T  # noqa: E402

TAB = os.path.join(T.LEAN, "BezierVerif", "Tables")
T.TABLES = [os.path.join(TAB, "SrcPy.lean"), os.path.join(TAB, "SrcPyReal.lean"), os.path.join(TAB, "SrcPyKernels.lean"),
            os.path.join(TAB, "SrcPyCurve.lean")]
T.OWN_MODULES = set(T.OWN_MODULES) | {"import BezierVerif.Tables.SrcPyCurve"}

CH = "curve_helpers"
T.MUTATIONS = [
    # ---- subdivide_nodes and its tables
    ("subdivide_nodes: junction copied from the wrong column", CH, "subdivide_nodes",
     "right_nodes[:, 0] = left_nodes[:, -1]", "right_nodes[:, 0] = left_nodes[:, 0]"),
    ("subdivide_nodes: junction copy dropped (repair e1b4310 reverted)", CH, "subdivide_nodes",
     "    right_nodes[:, 0] = left_nodes[:, -1]\n", "    pass\n"),
    ("subdivide_nodes: junction copied into the wrong column", CH, "subdivide_nodes",
     "right_nodes[:, 0] = left_nodes[:, -1]", "right_nodes[:, 1] = left_nodes[:, -1]"),
    ("subdivide_nodes: quadratic table used for 5 nodes", CH, "subdivide_nodes",
     "elif num_nodes == 3:", "elif num_nodes == 5:"),
    ("subdivide_nodes: left / right table exchanged (linear)", CH, "subdivide_nodes",
     "left_nodes = _py_helpers.matrix_product(nodes, _LINEAR_SUBDIVIDE_LEFT)",
     "left_nodes = _py_helpers.matrix_product(nodes, _LINEAR_SUBDIVIDE_RIGHT)"),
    ("_CUBIC_SUBDIVIDE_LEFT: changed entry", CH, None,
     "        [0.0, 0.5, 0.5, 0.375],\n", "        [0.0, 0.5, 0.5, 0.25],\n"),
    ("_QUADRATIC_SUBDIVIDE_RIGHT: changed entry", CH, None,
     "[[0.25, 0.0, 0.0], [0.5, 0.5, 0.0], [0.25, 0.5, 1.0]]", "[[0.25, 0.0, 0.0], [0.5, 0.5, 0.0], [0.25, 0.25, 1.0]]"),
    ("subdivide_nodes: generic matrices of the wrong degree", CH, "subdivide_nodes",
     "make_subdivision_matrices(num_nodes - 1)", "make_subdivision_matrices(num_nodes)"),
    ("subdivide_nodes: REFUSED second name for the array that is updated in place", CH, "subdivide_nodes",
     "    right_nodes[:, 0] = left_nodes[:, -1]\n", "    alias = right_nodes\n    right_nodes[:, 0] = left_nodes[:, -1]\n"),
    # ---- make_subdivision_matrices
    ("make_subdivision_matrices: factor 0.5 becomes 0.25", CH, "make_subdivision_matrices",
     "half_prev = 0.5 * left[:col, col - 1]", "half_prev = 0.25 * left[:col, col - 1]"),
    ("make_subdivision_matrices: += becomes -=", CH, "make_subdivision_matrices",
     "left[1 : col + 1, col] += half_prev", "left[1 : col + 1, col] -= half_prev"),
    ("make_subdivision_matrices: loop stops one column early", CH, "make_subdivision_matrices",
     "for col in range(1, degree + 1):", "for col in range(1, degree):"),
    ("make_subdivision_matrices: previous column index", CH, "make_subdivision_matrices",
     "half_prev = 0.5 * left[:col, col - 1]", "half_prev = 0.5 * left[:col, col]"),
    ("make_subdivision_matrices: right[-1, -1] not set", CH, "make_subdivision_matrices",
     "    right[-1, -1] = 1.0\n", "    right[0, -1] = 1.0\n"),
    # ---- reduce_pseudo_inverse and its tables
    ("reduce_pseudo_inverse: wrong denominator for 3 nodes", CH, "reduce_pseudo_inverse",
     "        denom = _REDUCTION_DENOM1\n", "        denom = _REDUCTION_DENOM2\n"),
    ("_REDUCTION_DENOM3: changed constant", CH, None, "_REDUCTION_DENOM3 = 105.0", "_REDUCTION_DENOM3 = 104.0"),
    ("reduce_pseudo_inverse: 5 nodes refused", CH, "reduce_pseudo_inverse",
     "    elif num_nodes == 5:\n        reduction = _REDUCTION3", "    elif num_nodes == 6:\n        reduction = _REDUCTION3"),
    ("reduce_pseudo_inverse: /= becomes *=", CH, "reduce_pseudo_inverse", "    result /= denom\n", "    result *= denom\n"),
    ("_REDUCTION1: sign of an entry", CH, None,
     "[[2.5, -0.5], [1.0, 1.0], [-0.5, 2.5]]", "[[2.5, -0.5], [1.0, 1.0], [0.5, 2.5]]"),
    ("reduce_pseudo_inverse: another exception class", CH, "reduce_pseudo_inverse",
     "raise _py_helpers.UnsupportedDegree(\n            num_nodes - 1, supported=(1, 2, 3, 4)\n        )",
     "raise ValueError(num_nodes)"),
    # ---- elevate_nodes
    ("elevate_nodes: the two slices exchanged", CH, "elevate_nodes",
     "        multipliers * nodes[:, :-1]\n        + (denominator - multipliers) * nodes[:, 1:]\n",
     "        multipliers * nodes[:, 1:]\n        + (denominator - multipliers) * nodes[:, :-1]\n"),
    ("elevate_nodes: last column copied from the first node", CH, "elevate_nodes",
     "new_nodes[:, -1] = nodes[:, -1]", "new_nodes[:, -1] = nodes[:, 0]"),
    ("elevate_nodes: multipliers start at 0", CH, "elevate_nodes",
     "np.arange(1, num_nodes, dtype=_FLOAT64)", "np.arange(0, num_nodes - 1, dtype=_FLOAT64)"),
    ("elevate_nodes: division dropped", CH, "elevate_nodes", "    new_nodes /= denominator\n", "    pass\n"),
    ("elevate_nodes: first column never assigned (uninitialised memory would be returned)", CH, "elevate_nodes",
     "    new_nodes[:, 0] = nodes[:, 0]\n", "    pass\n"),
    ("elevate_nodes: denominator", CH, "elevate_nodes", "denominator = float(num_nodes)", "denominator = float(num_nodes + 1)"),
    # ---- get_curvature
    ("get_curvature: factor (n - 1)(n - 2) becomes (n - 1)(n - 1)", CH, "get_curvature",
     "        * (num_nodes - 2)\n", "        * (num_nodes - 1)\n"),
    ("get_curvature: cube becomes square", CH, "get_curvature", "ord=2) ** 3", "ord=2) ** 2"),
    ("get_curvature: cross product operands exchanged", CH, "get_curvature",
     'tangent_vec.ravel(order="F"), concavity.ravel(order="F")', 'concavity.ravel(order="F"), tangent_vec.ravel(order="F")'),
    ("get_curvature: line test on the wrong count", CH, "get_curvature",
     "if num_nodes == 2:  # Lines have no curvature.", "if num_nodes == 3:"),
    ("get_curvature: sign of the second difference", CH, "get_curvature",
     "second_deriv = first_deriv[:, 1:] - first_deriv[:, :-1]", "second_deriv = first_deriv[:, :-1] - first_deriv[:, 1:]"),
    ("get_curvature: second difference of the nodes instead of the first differences", CH, "get_curvature",
     "second_deriv = first_deriv[:, 1:] - first_deriv[:, :-1]", "second_deriv = nodes[:, 2:] - nodes[:, :-2]"),
]
T.MUTATIONS += [
    # ---- vec_size / compute_length
    ("vec_size: norm of the nodes instead of the evaluated point", CH, "vec_size",
     "return np.linalg.norm(result_vec[:, 0], ord=2)", "return np.linalg.norm(nodes[:, 0], ord=2)"),
    ("compute_length: derivative factor", CH, "compute_length",
     "first_deriv = (num_nodes - 1) * (nodes[:, 1:] - nodes[:, :-1])", "first_deriv = num_nodes * (nodes[:, 1:] - nodes[:, :-1])"),
    ("compute_length: one node has length 1", CH, "compute_length",
     "    if num_nodes == 1:\n        return 0.0", "    if num_nodes == 1:\n        return 1.0"),
    ("compute_length: empty curve accepted", CH, "compute_length",
     "    if num_nodes == 0:\n        raise ValueError(\"Curve should have at least one node.\")",
     "    if num_nodes == 0:\n        return 0.0"),
    ("compute_length: closed form also for three nodes", CH, "compute_length", "    if num_nodes == 2:\n", "    if num_nodes <= 3:\n"),
    ("compute_length: integration interval", CH, "compute_length",
     "scipy.integrate.quad(size_func, 0.0, 1.0)", "scipy.integrate.quad(size_func, 0.0, 0.5)"),
    ("compute_length: integrand built on the nodes instead of the derivative net", CH, "compute_length",
     "functools.partial(vec_size, first_deriv)", "functools.partial(vec_size, nodes)"),
    ("compute_length: returns the error estimate of quad", CH, "compute_length",
     "    length, _ = scipy.integrate.quad", "    _, length = scipy.integrate.quad"),
]
MUTATIONS_REDUCE = [
    # ---- projection_error / maybe_reduce / full_reduce
    ("projection_error: != becomes ==", CH, "projection_error", "if relative_err != 0.0:", "if relative_err == 0.0:"),
    ("projection_error: relative to the projected nodes", CH, "projection_error",
     'relative_err /= np.linalg.norm(nodes, ord="fro")', 'relative_err /= np.linalg.norm(projected, ord="fro")'),
    ("maybe_reduce: < becomes <=", CH, "maybe_reduce", "if relative_err < _REDUCE_THRESHOLD:", "if relative_err <= _REDUCE_THRESHOLD:"),
    ("_REDUCE_THRESHOLD: changed constant", CH, None, "_REDUCE_THRESHOLD = 0.5**26", "_REDUCE_THRESHOLD = 0.5**25"),
    ("maybe_reduce: a single node counts as reducible", CH, "maybe_reduce", "    if num_nodes < 2:\n", "    if num_nodes < 1:\n"),
    ("maybe_reduce: wrong projection for 4 nodes", CH, "maybe_reduce",
     "        projection = _PROJECTION2\n", "        projection = _PROJECTION1\n"),
    ("_PROJECTION1: changed entry", CH, None,
     "[[2.5, 1.0, -0.5], [1.0, 1.0, 1.0], [-0.5, 1.0, 2.5]]", "[[2.5, 1.0, -0.5], [1.0, 1.0, 1.0], [-0.5, 1.0, 2.0]]"),
    ("_PROJ_DENOM2: changed constant", CH, None, "_PROJ_DENOM2 = 5.0", "_PROJ_DENOM2 = 6.0"),
    ("maybe_reduce: reduced flag", CH, "maybe_reduce",
     "        return True, reduce_pseudo_inverse(nodes)", "        return False, reduce_pseudo_inverse(nodes)"),
    ("full_reduce: loop condition negated", CH, "full_reduce", "while was_reduced:", "while not was_reduced:"),
    ("full_reduce: returns after one reduction", CH, "full_reduce",
     "    while was_reduced:\n        was_reduced, nodes = maybe_reduce(nodes)\n", "    pass\n"),
]

T.HARMLESS = [
    ("renamed locals (subdivide_nodes: left_nodes/right_nodes -> lhs/rhs)", True, CH, "subdivide_nodes",
     [("left_nodes", "lhs", None), ("right_nodes", "rhs", None)]),
    ("renamed loop variable (make_subdivision_matrices: col -> c)", True, CH, "make_subdivision_matrices",
     [("col", "c", None)]),
    ("added comment (elevate_nodes)", True, CH, "elevate_nodes",
     [("    new_nodes /= denominator\n", "    # divide last\n    new_nodes /= denominator\n", 1)]),
    ("renamed locals (get_curvature: concavity -> second)", True, CH, "get_curvature", [("concavity", "second", None)]),
    ("renamed local (reduce_pseudo_inverse: result -> reduced)", True, CH, "reduce_pseudo_inverse", [("result", "reduced", None)]),
    ("`result /= denom` written `result = result / denom` (reduce_pseudo_inverse)", False, CH, "reduce_pseudo_inverse",
     [("    result /= denom\n", "    result = result / denom\n", 1)]),
    ("boundary columns assigned in the other order (elevate_nodes)", False, CH, "elevate_nodes",
     [("    new_nodes[:, 0] = nodes[:, 0]\n    new_nodes[:, -1] = nodes[:, -1]\n",
       "    new_nodes[:, -1] = nodes[:, -1]\n    new_nodes[:, 0] = nodes[:, 0]\n", 1)]),
    ("LIMIT: `x ** 3` written `x * x * x` (get_curvature)", False, CH, "get_curvature",
     [("    curvature /= np.linalg.norm(tangent_vec[:, 0], ord=2) ** 3\n",
       "    size = np.linalg.norm(tangent_vec[:, 0], ord=2)\n    curvature /= size * size * size\n", 1)]),
]

P4_NAMES = ["make_subdivision_matrices", "subdivide_nodes", "reduce_pseudo_inverse", "elevate_nodes", "get_curvature",
            "projection_error", "maybe_reduce", "full_reduce", "vec_size", "compute_length"]


def run_case_fast(work, label, edits):
    import ast
    import re
    import shutil
    import subprocess
    import tempfile
    import time
    t0 = time.time()
    d = tempfile.mkdtemp(prefix="case_", dir=work)
    src = os.path.join(d, "repo", "src", "python", "bezier", "hazmat")
    shutil.copytree(os.path.join(T.REPO, "src", "python", "bezier", "hazmat"), src)
    for f, fn, old, new, count in edits:
        pth = os.path.join(src, f + ".py")
        with open(pth) as fh:
            text = fh.read()
        text = T.edit(text, fn, old, new, count)
        ast.parse(text)
        with open(pth, "w") as fh:
            fh.write(text)
    gen = os.path.join(d, "Generated.lean")
    env = dict(os.environ, BEZIER_REPO=os.path.join(d, "repo"))
    r = subprocess.run([T.PY, os.path.join(T.HARNESS, "translate_py.py"), "--out", gen], env=env,
                       stdout=subprocess.PIPE, stderr=subprocess.STDOUT, text=True)
    t_tr = time.time() - t0
    if r.returncode != 0:
        return {"label": label, "crash": r.stdout[-800:], "problems": [], "failed": [], "t_translate": t_tr, "t_lean": 0.0}
    problems = [l for l in r.stdout.split("\n") if l.startswith("EXTRACT-PROBLEM")]
    with open(gen) as fh:
        gtext = fh.read()
    a = gtext.index("/-! ## module-level constant arrays -/")
    b = gtext.index("/-! ## translated functions -/")
    consts = gtext[a:b]
    chunks = re.split(r"\n(?=/-- `)", gtext[b:gtext.rindex("end BezierVerif.Src.Py")])
    defs = [c for c in chunks if any(re.search(r"^def %s " % re.escape(n), c, flags=re.M) for n in P4_NAMES)]
    part = consts + "\n".join(defs)
    out = []
    for line in part.split("\n"):
        if not (line.startswith("def ") or line.startswith("/--")):
            for n in P4_NAMES:
                line = re.sub(r"(?<![\w.])%s(?![\w.])" % n, "_root_.BezierVerif.Src.PyMut." + n, line)
            line = re.sub(r"(?<![\w.])curve_helpers\._", "_root_.BezierVerif.Src.PyMut.curve_helpers._", line)
        out.append(line)
    part = "\n".join(out)
    with open(T.TABLES[-1]) as fh:
        ttext = fh.read()
    imports = [l for l in ttext.split("\n") if l.startswith("import ")]
    tbody = "\n".join("" if l.startswith("import ") else l for l in ttext.split("\n"))
    for n in P4_NAMES:
        tbody = re.sub(r"Src\.Py\.%s(?![\w])" % n, "Src.PyMut." + n, tbody)
    tbody = tbody.replace("Src.Py.curve_helpers._", "Src.PyMut.curve_helpers._")
    head = "\n".join(imports) + "\n" + "set_option linter.unusedVariables false\nnamespace BezierVerif.Src.PyMut\n" \
        "open BezierVerif\nopen BezierVerif.Model (Err Pt)\nopen BezierVerif.Src.Py hiding " + " ".join(P4_NAMES) + "\n" \
        "variable {K : Type} [Add K] [Sub K] [Mul K] [Div K] [Neg K] [OfNat K 0] [OfNat K 1] [NatCast K]\n" \
        "  [LT K] [DecidableLT K] [LE K] [DecidableLE K] [DecidableEq K]\n\n"
    combined = head + part + "\nend BezierVerif.Src.PyMut\n"
    offset = combined.count("\n")
    combined += tbody
    cfile = os.path.join(d, "Combined.lean")
    with open(cfile, "w") as fh:
        fh.write(combined)
    t1 = time.time()
    r2 = subprocess.run(["lake", "env", "lean", cfile], cwd=T.LEAN, stdout=subprocess.PIPE, stderr=subprocess.STDOUT, text=True)
    t_lean = time.time() - t1
    thms = T.theorems(tbody)
    failed, other = [], []
    for m in re.finditer(r"^(\S+?):(\d+):(\d+): error", r2.stdout, flags=re.M):
        ln = int(m.group(2)) - offset
        cands = [n for n, l in thms if l <= ln]
        if ln > 0 and cands:
            if cands[-1] not in failed:
                failed.append(cands[-1])
        else:
            other.append("line %s of the generated part" % m.group(2) if ln <= 0 else "Tables line %d" % ln)
    if r2.returncode != 0 and not failed and not other:
        other.append(r2.stdout[-300:])
    return {"label": label, "problems": problems, "failed": failed, "other": other, "n_thms": len(thms),
            "t_translate": t_tr, "t_lean": t_lean, "same_text": None, "gen": part}


if __name__ == "__main__":
    if "--fast" in sys.argv:
        sys.argv.remove("--fast")
        T.run_case = run_case_fast
    if os.environ.get("PYCURVE_WITH_REDUCE", "1") == "1":
        import ast as _ast
        with open(os.path.join(HERE, "..", "translate_py.py")) as _fh:
            _txt = _fh.read()
        if '("curve_helpers", "maybe_reduce"' in _txt:
            T.MUTATIONS = T.MUTATIONS + MUTATIONS_REDUCE
    T.main()
