#!/venv/bin/python
"""Self-test of phase 4 (builder `pypipeline`) of the source-to-Lean translator:
harness/translate_py.py + lean/BezierVerif/Tables/SrcPyPipeline.lean (`newton_iterate`, `NewtonDoubleRoot.__call__`, ...).

Same method (and the same machinery) as harness/tools/test_translate_py.py: for every case a COPY of
`$BEZIER_REPO/src/python/bezier/hazmat/*.py` is edited, the translator is re-run on the copy, the generated text and
the Tables files (Tables/SrcPyPipeline.lean and the files it builds on) are concatenated into one scratch file
and checked with `lake env lean`; /repo, Generated/SrcPy.lean and .lake are not touched.

  * MUTATIONS: semantic changes; each must break a theorem of Tables/SrcPyPipeline.lean (or be refused by the translator).
  * HARMLESS: renamed locals / comments must survive.

usage: test_translate_pypipeline.py [-j N] [-k SUBSTRING] [--re REGEX]
"""
import os
import sys

HERE = os.path.dirname(os.path.abspath(__file__))
sys.path.insert(0, HERE)
import test_translate_py as base  # noqa: E402

T = os.path.join(base.LEAN, "BezierVerif", "Tables")
base.TABLES = [os.path.join(T, "SrcPy.lean"), os.path.join(T, "SrcPyReal.lean"), os.path.join(T, "SrcPyKernels.lean"),
               os.path.join(T, "SrcPyNewton.lean"), os.path.join(T, "SrcPyPipeline.lean")]
base.OWN_MODULES = set(base.OWN_MODULES) | {"import BezierVerif.Tables.SrcPyPipeline"}

IH = "intersection_helpers"
GI = "geometric_intersection"
base.MUTATIONS = [
    # ---- newton_iterate
    ("newton_iterate: cut rule of the tree before ab67aa1 (2 * index)", IH, "newton_iterate",
     "if index >= 4 and 3 * linear_updates >= 2 * (index + 1):", "if index >= 4 and 3 * linear_updates >= 2 * index:"),
    ("newton_iterate: cut rule checked one round earlier", IH, "newton_iterate",
     "if index >= 4 and 3 * linear_updates", "if index >= 3 and 3 * linear_updates"),
    ("newton_iterate: cut rule 2/3 becomes 1/2", IH, "newton_iterate",
     "3 * linear_updates >= 2 * (index + 1)", "2 * linear_updates >= 1 * (index + 1)"),
    ("newton_iterate: linear-convergence factor", IH, "newton_iterate",
     "norm_update > 0.25 * norm_update_prev", "norm_update > 0.5 * norm_update_prev"),
    ("newton_iterate: > becomes >= in the linear-convergence test", IH, "newton_iterate",
     "norm_update > 0.25 * norm_update_prev", "norm_update >= 0.25 * norm_update_prev"),
    ("newton_iterate: guard `index > 0` dropped (None * float in the first round)", IH, "newton_iterate",
     "if index > 0 and norm_update > 0.25 * norm_update_prev:", "if norm_update > 0.25 * norm_update_prev:"),
    ("newton_iterate: counter incremented by 2", IH, "newton_iterate",
     "linear_updates += 1", "linear_updates += 2"),
    ("newton_iterate: singular system: continue instead of break", IH, "newton_iterate",
     "        if singular:\n            break", "        if singular:\n            continue"),
    ("newton_iterate: singular system reported as converged", IH, "newton_iterate",
     "        if singular:\n            break", "        if singular:\n            return True, current_s, current_t"),
    ("newton_iterate: sign of the update", IH, "newton_iterate",
     "current_s -= delta_s", "current_s += delta_s"),
    ("newton_iterate: update components exchanged", IH, "newton_iterate",
     "current_t -= delta_t", "current_t -= delta_s"),
    ("newton_iterate: < becomes <= in the convergence test", IH, "newton_iterate",
     "if norm_update < NEWTON_ERROR_RATIO * norm_soln:", "if norm_update <= NEWTON_ERROR_RATIO * norm_soln:"),
    ("newton_iterate: solution norm taken after the update", IH, "newton_iterate",
     "        norm_soln = np.linalg.norm([current_s, current_t], ord=2)\n        current_s -= delta_s\n        current_t -= delta_t\n",
     "        current_s -= delta_s\n        current_t -= delta_t\n        norm_soln = np.linalg.norm([current_s, current_t], ord=2)\n"),
    ("newton_iterate: previous norm saved after the new one is computed", IH, "newton_iterate",
     "        norm_update_prev = norm_update\n        norm_update = np.linalg.norm([delta_s, delta_t], ord=2)\n",
     "        norm_update = np.linalg.norm([delta_s, delta_t], ord=2)\n        norm_update_prev = norm_update\n"),
    ("newton_iterate: exact zero reported as not converged", IH, "newton_iterate",
     "        if jacobian is None:\n            return True, current_s, current_t",
     "        if jacobian is None:\n            return False, current_s, current_t"),
    ("newton_iterate: failure returns the start values", IH, "newton_iterate",
     "    return False, current_s, current_t", "    return False, s, t"),
    ("newton_iterate: right-hand side rows exchanged", IH, "newton_iterate",
     "jacobian, func_val[:, 0]", "jacobian, func_val[::-1, 0]"),
    ("MAX_NEWTON_ITERATIONS: changed constant", IH, None,
     "MAX_NEWTON_ITERATIONS = 10", "MAX_NEWTON_ITERATIONS = 11"),
    ("NEWTON_ERROR_RATIO: changed constant", IH, None,
     "NEWTON_ERROR_RATIO = 0.5**36", "NEWTON_ERROR_RATIO = 0.5**35"),
    ("newton_iterate: while loop (a statement the translator does not know: must be refused)", IH, "newton_iterate",
     "    for index in range(MAX_NEWTON_ITERATIONS):", "    index = 0\n    while index < 1:"),
    # ---- NewtonDoubleRoot.__call__ (a method: edits are located in the whole file)
    ("NewtonDoubleRoot.__call__: cross product operands exchanged in G", IH, None,
     "func_val[2, :] = _py_helpers.cross_product(b1_ds[:, 0], b2_dt[:, 0])",
     "func_val[2, :] = _py_helpers.cross_product(b2_dt[:, 0], b1_ds[:, 0])"),
    ("NewtonDoubleRoot.__call__: sign of the second Jacobian column", IH, None,
     "jacobian[:2, 1:] = -b2_dt", "jacobian[:2, 1:] = b2_dt"),
    ("NewtonDoubleRoot.__call__: entry for an empty second derivative", IH, None,
     "            if self.second_deriv1.size == 0:\n                jacobian[2, 0] = 0.0",
     "            if self.second_deriv1.size == 0:\n                jacobian[2, 0] = 1.0"),
    ("NewtonDoubleRoot.__call__: second derivative of the wrong curve", IH, None,
     "curve_helpers.evaluate_multi(self.second_deriv2, t_vals)[", "curve_helpers.evaluate_multi(self.second_deriv1, t_vals)["),
    ("NewtonDoubleRoot.__call__: normal matrix scaled", IH, None,
     "modified_lhs = _py_helpers.matrix_product(jacobian.T, jacobian)",
     "modified_lhs = _py_helpers.matrix_product(jacobian.T, 2.0 * jacobian)"),
    ("NewtonDoubleRoot.__call__: wrong rows of G returned at an exact zero", IH, None,
     "return None, func_val[:2, :]", "return None, func_val[1:, :]"),
    # ---- make_same_degree / coincident_parameters
    ("make_same_degree: elevation counts exchanged", GI, "make_same_degree",
     "for _ in range(num_nodes2 - num_nodes1):\n        nodes1", "for _ in range(num_nodes1 - num_nodes2):\n        nodes1"),
    ("make_same_degree: results exchanged", GI, "make_same_degree",
     "return nodes1, nodes2", "return nodes2, nodes1"),
    ("coincident_parameters: s_final located from the first node", GI, "coincident_parameters",
     "s_final = curve_helpers.locate_point(\n        nodes1, nodes2[:, -1]", "s_final = curve_helpers.locate_point(\n        nodes1, nodes2[:, 0]"),
    ("coincident_parameters: parameters of the contained curve exchanged", GI, "coincident_parameters",
     "return ((s_initial, 0.0), (s_final, 1.0))", "return ((s_initial, 1.0), (s_final, 0.0))"),
    ("coincident_parameters: and becomes or (no end point of curve 1 on curve 2)", GI, "coincident_parameters",
     "if t_initial is None and t_final is None:", "if t_initial is None or t_final is None:"),
    ("coincident_parameters: shared interval, wrong end of curve 2", GI, "coincident_parameters",
     "            start_s = s_final\n            end_s = 1.0\n            start_t = 1.0",
     "            start_s = s_final\n            end_s = 1.0\n            start_t = 0.0"),
    ("coincident_parameters: and becomes or in the minimum-width test", GI, "coincident_parameters",
     "if width_s < _MIN_INTERVAL_WIDTH and width_t < _MIN_INTERVAL_WIDTH:",
     "if width_s < _MIN_INTERVAL_WIDTH or width_t < _MIN_INTERVAL_WIDTH:"),
    ("_MIN_INTERVAL_WIDTH: changed constant", GI, None,
     "_MIN_INTERVAL_WIDTH = 0.5**40", "_MIN_INTERVAL_WIDTH = 0.5**39"),
    ("coincident_parameters: interval of curve 2 reversed", GI, "coincident_parameters",
     "specialized2 = curve_helpers.specialize_curve(nodes2, start_t, end_t)",
     "specialized2 = curve_helpers.specialize_curve(nodes2, end_t, start_t)"),
    # ---- from_linearized
    ("from_linearized: and becomes or in the unhandled-lines test", GI, "from_linearized",
     "if first.error == 0.0 and second.error == 0.0:", "if first.error == 0.0 or second.error == 0.0:"),
    ("from_linearized: fallback parameter", GI, "from_linearized",
     "        s = 0.5\n", "        s = 0.25\n"),
    ("from_linearized: start / end exchanged in the promotion of s", GI, "from_linearized",
     "orig_s = (1 - s) * first.curve.start + s * first.curve.end", "orig_s = (1 - s) * first.curve.end + s * first.curve.start"),
    ("from_linearized: Newton on the subdivided nodes instead of the original ones", GI, "from_linearized",
     "orig_s, first.curve.original_nodes, orig_t, second.curve.original_nodes",
     "orig_s, first.curve.nodes, orig_t, second.curve.original_nodes"),
    ("from_linearized: convex-hull exit inverted", GI, "from_linearized",
     "if not convex_hull_collide(first.curve.nodes, second.curve.nodes):", "if convex_hull_collide(first.curve.nodes, second.curve.nodes):"),
    ("from_linearized: second wiggle_interval applied to refined_s", GI, "from_linearized",
     "refined_t, success = _py_helpers.wiggle_interval(refined_t)", "refined_t, success = _py_helpers.wiggle_interval(refined_s)"),
    ("from_linearized: parameters exchanged in add_intersection", GI, "from_linearized",
     "add_intersection(refined_s, refined_t, intersections)", "add_intersection(refined_t, refined_s, intersections)"),
    ("from_linearized: bad parameters ignored", GI, "from_linearized",
     "            bad_parameters = True\n    else:", "            bad_parameters = False\n    else:"),
    # ---- prune_candidates / check_lines
    ("prune_candidates: test inverted", GI, "prune_candidates",
     "if convex_hull_collide(nodes1, nodes2):", "if not convex_hull_collide(nodes1, nodes2):"),
    ("prune_candidates: nodes of the wrong candidate", GI, "prune_candidates",
     "nodes2 = second.curve.nodes", "nodes2 = first.curve.nodes"),
    ("prune_candidates: kept pair exchanged", GI, "prune_candidates",
     "pruned.append((first, second))", "pruned.append((second, first))"),
    ("check_lines: error of the second candidate not tested", GI, "check_lines",
     "        and first.error == 0.0\n        and second.error == 0.0\n", "        and first.error == 0.0\n"),
    ("check_lines: rows of the parameter array exchanged", GI, "check_lines",
     "intersections = np.asfortranarray([[s], [t]])", "intersections = np.asfortranarray([[t], [s]])"),
    ("check_lines: coincident flag of overlapping parallel lines", GI, "check_lines",
     "result = params, True", "result = params, False"),
    ("check_lines: parameters outside [0, 1] accepted", GI, "check_lines",
     "        if _py_helpers.in_interval(s, 0.0, 1.0) and _py_helpers.in_interval(\n            t, 0.0, 1.0\n        ):",
     "        if _py_helpers.in_interval(s, 0.0, 1.0) or _py_helpers.in_interval(\n            t, 0.0, 1.0\n        ):"),
    ("check_lines: not both lines reported as both lines", GI, "check_lines",
     "return False, None", "return True, None"),
    # ---- all_intersections (round loop and budgets), SubdividedCurve.subdivide, Linearization.from_shape
    ("_MAX_CANDIDATES: changed constant", GI, None, "_MAX_CANDIDATES = 64", "_MAX_CANDIDATES = 32"),
    ("_MAX_INTERSECT_SUBDIVISIONS: changed constant", GI, None,
     "_MAX_INTERSECT_SUBDIVISIONS = 20", "_MAX_INTERSECT_SUBDIVISIONS = 21"),
    ("all_intersections: > becomes >= in the candidate budget", GI, "all_intersections",
     "        if len(candidates) > _MAX_CANDIDATES:\n            candidates = prune_candidates(candidates)",
     "        if len(candidates) >= _MAX_CANDIDATES:\n            candidates = prune_candidates(candidates)"),
    ("all_intersections: pruning skipped", GI, "all_intersections",
     "            candidates = prune_candidates(candidates)\n", "            candidates = candidates[:]\n"),
    ("all_intersections: coincident flag not set", GI, "all_intersections",
     "                coincident = True\n", "                coincident = False\n"),
    ("all_intersections: not coincident is not an error", GI, "all_intersections",
     "                if params is None:\n                    raise NotImplementedError(\n                        _TOO_MANY_TEMPLATE.format(len(candidates))\n                    )\n",
     "                if params is None:\n                    return np.empty((2, 0), order=\"F\"), coincident\n"),
    ("all_intersections: coincident parameters of the curves exchanged", GI, "all_intersections",
     "params = coincident_parameters(nodes_first, nodes_second)", "params = coincident_parameters(nodes_second, nodes_first)"),
    ("all_intersections: check_lines result ignored", GI, "all_intersections",
     "    if both_linear:\n        return result\n", "    if not both_linear:\n        return result\n"),
    ("all_intersections: second curve object built from the first nodes", GI, "all_intersections",
     "curve_second = SubdividedCurve(nodes_second, nodes_second)", "curve_second = SubdividedCurve(nodes_first, nodes_second)"),
    ("all_intersections: exhausted rounds return the intersections found so far", GI, "all_intersections",
     "    raise ValueError(msg)", "    return np.empty((2, 0), order=\"F\"), coincident"),
    ("SubdividedCurve.__init__: default end", GI, None,
     "def __init__(self, nodes, original_nodes, start=0.0, end=1.0):", "def __init__(self, nodes, original_nodes, start=0.0, end=0.5):"),
    ("SubdividedCurve.subdivide: midpoint", GI, None,
     "midpoint = 0.5 * (self.start + self.end)", "midpoint = 0.25 * (self.start + self.end)"),
    ("SubdividedCurve.subdivide: right half keeps the left nodes", GI, None,
     "            right_nodes, self.original_nodes, start=midpoint, end=self.end", "            left_nodes, self.original_nodes, start=midpoint, end=self.end"),
    ("SubdividedCurve.subdivide: original nodes replaced", GI, None,
     "            left_nodes, self.original_nodes, start=self.start, end=midpoint", "            left_nodes, left_nodes, start=self.start, end=midpoint"),
    ("_ERROR_VAL: changed constant", GI, None, "_ERROR_VAL = 0.5**26", "_ERROR_VAL = 0.5**25"),
    ("Linearization.from_shape: < becomes <=", GI, None,
     "            if error < _ERROR_VAL:", "            if error <= _ERROR_VAL:"),
    ("Linearization.__init__: end node is the first column", GI, None,
     "self.end_node = curve.nodes[:, -1]", "self.end_node = curve.nodes[:, 0]"),
    ("Linearization.from_shape: linearized although the error is too large", GI, None,
     "                return linearized\n\n            else:\n                return shape", "                return linearized\n\n            else:\n                return cls(shape, error)"),
]

base.HARMLESS = [
    ("renamed local variables (newton_iterate: linear_updates -> lin_count, norm_soln -> size)", True, IH,
     "newton_iterate", [("linear_updates", "lin_count", None), ("norm_soln", "size", None)]),
    ("renamed loop variable (newton_iterate: index -> k)", True, IH, "newton_iterate", [("index", "k", None)]),
    ("added comment (newton_iterate)", True, IH, "newton_iterate",
     [("        if singular:\n            break", "        if singular:\n            # give up\n            break", 1)]),
    ("`a > b` written as `b < a` (newton_iterate, linear-convergence test)", False, IH, "newton_iterate",
     [("norm_update > 0.25 * norm_update_prev", "0.25 * norm_update_prev < norm_update", 1)]),
    ("`index >= 4` written as `4 <= index`", False, IH, "newton_iterate",
     [("if index >= 4 and", "if 4 <= index and", 1)]),
    ("renamed local variables (coincident_parameters: width_s -> ws, specialized1 -> sp1)", True, GI,
     "coincident_parameters", [("width_s", "ws", None), ("specialized1", "sp1", None)]),
    ("renamed local variable (from_linearized: bad_parameters -> bad)", True, GI, "from_linearized",
     [("bad_parameters", "bad", None)]),
    ("renamed list variable (prune_candidates: pruned -> kept)", True, GI, "prune_candidates", [("pruned", "kept", None)]),
    ("renamed local variables (check_lines: disjoint -> dj, params -> pp)", True, GI, "check_lines",
     [("disjoint", "dj", None), ("params", "pp", None)]),
    ("added comment (make_same_degree)", True, GI, "make_same_degree",
     [("    return nodes1, nodes2", "    # same number of nodes now\n    return nodes1, nodes2", 1)]),
    ("renamed local variables (all_intersections: candidate1 -> cand_a, params -> pp)", True, GI, "all_intersections",
     [("candidate1", "cand_a", None), ("params", "pp", None)]),
    ("renamed local variable (SubdividedCurve.subdivide: midpoint -> mid)", True, GI, None, [("midpoint", "mid", None)]),
]

if __name__ == "__main__":
    # --re PATTERN: only the cases whose label matches the regular expression (plus the baseline)
    if "--re" in sys.argv:
        import re
        i = sys.argv.index("--re")
        pat = re.compile(sys.argv[i + 1])
        del sys.argv[i:i + 2]
        base.MUTATIONS = [m for m in base.MUTATIONS if pat.search(m[0])]
        base.HARMLESS = [h for h in base.HARMLESS if pat.search(h[0])]
    base.main()
