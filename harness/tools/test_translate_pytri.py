#!/venv/bin/python
"""Self-test of phase 4 (pytri) of the source-to-Lean translator: the pure-Python TRIANGLE kernels
(harness/translate_py.py + lean/BezierVerif/Tables/SrcPyTriangle.lean).

Same machinery as harness/tools/test_translate_py.py (a copy of `hazmat/*.py` is edited in a temp dir, the translator is
re-run on the copy, the generated text and the theorem files are concatenated into one scratch file that is checked with
`lake env lean`; /repo, Generated/SrcPy.lean and .lake are not touched).  Tables/SrcPyTriangle.lean uses lemmas of
Tables/SrcPy.lean and Tables/SrcPyKernels.lean, so those files are part of the scratch file as well; a case counts as
DETECTED only through a theorem of Tables/SrcPyTriangle.lean (or an EXTRACT-PROBLEM of the translator).

  * MUTATIONS: small semantic changes of triangle_helpers.py / triangle_intersection.py -> a theorem must break.
  * HARMLESS: renamed locals, comments, a re-ordered pair of independent statements -> must survive where marked.

Three groups (env PYTRI_GROUP, default `kernels`), one per theorem file, so that a case only re-checks what it needs:
  kernels  Tables/SrcPyTriangle.lean       evaluation kernels, Jacobian nets, Newton step
  sub      Tables/SrcPyTriangleSub.lean    subdivide_nodes, quadratic_jacobian_polynomial, mean_centroid, module constants
  cubic    Tables/SrcPyTriangleCubic.lean  cubic_jacobian_polynomial (about a minute of evaluation per case)

usage: [PYTRI_GROUP=kernels|sub|cubic] test_translate_pytri.py [-j N] [-k SUBSTRING]
"""
import os
import sys

HERE = os.path.dirname(os.path.abspath(__file__))
sys.path.insert(0, HERE)
import test_translate_py as T  # noqa: E402

TRI = os.path.join(T.LEAN, "BezierVerif", "Tables", "SrcPyTriangle.lean")
T.TABLES = [os.path.join(T.LEAN, "BezierVerif", "Tables", "SrcPy.lean"),
            os.path.join(T.LEAN, "BezierVerif", "Tables", "SrcPyReal.lean"),
            os.path.join(T.LEAN, "BezierVerif", "Tables", "SrcPyKernels.lean"),
            TRI]
T.OWN_MODULES = set(T.OWN_MODULES) | {"import BezierVerif.Tables.SrcPyTriangle"}

GROUP = os.environ.get("PYTRI_GROUP", "kernels")
if GROUP not in ("kernels", "sub", "cubic"):
    raise SystemExit(__doc__)
if GROUP in ("sub", "cubic"):
    T.TABLES.append(os.path.join(T.LEAN, "BezierVerif", "Tables", "SrcPyTriangleSub.lean"))
    T.OWN_MODULES |= {"import BezierVerif.Tables.SrcPyTriangleSub"}
if GROUP == "cubic":
    T.TABLES.append(os.path.join(T.LEAN, "BezierVerif", "Tables", "SrcPyTriangleCubic.lean"))
    T.OWN_MODULES |= {"import BezierVerif.Tables.SrcPyTriangleCubic"}

TH, TI = "triangle_helpers", "triangle_intersection"
KERNEL_MUTATIONS = [
    # ---- de_casteljau_one_round
    ("tri de_casteljau_one_round: weights swapped", TH, "de_casteljau_one_round",
     "lambda1 * nodes[:, parent_i1]\n                + lambda2 * nodes[:, parent_i2]",
     "lambda2 * nodes[:, parent_i1]\n                + lambda1 * nodes[:, parent_i2]"),
    ("tri de_casteljau_one_round: third parent starts one early", TH, "de_casteljau_one_round",
     "parent_i3 = degree + 1", "parent_i3 = degree"),
    ("tri de_casteljau_one_round: row jump of parent_i2 dropped", TH, "de_casteljau_one_round",
     "        parent_i1 += 1\n        parent_i2 += 1\n    return new_nodes", "        parent_i1 += 1\n    return new_nodes"),
    ("tri de_casteljau_one_round: inner loop one shorter", TH, "de_casteljau_one_round",
     "for unused_j in range(degree - k):", "for unused_j in range(degree - k - 1):"),
    ("tri de_casteljau_one_round: too many new nodes", TH, "de_casteljau_one_round",
     "num_new_nodes = num_nodes - degree - 1", "num_new_nodes = num_nodes - degree"),
    # ---- evaluate_barycentric and the multi routines
    ("evaluate_barycentric: binomial update uses k", TH, "evaluate_barycentric",
     "binom_val = (binom_val * (k + 1)) / (degree - k)", "binom_val = (binom_val * k) / (degree - k)"),
    ("evaluate_barycentric: binomial starts at 2", TH, "evaluate_barycentric",
     "binom_val = 1.0", "binom_val = 2.0"),
    ("evaluate_barycentric: column slice one short", TH, "evaluate_barycentric",
     "col_nodes = nodes[:, new_index : index + 1]", "col_nodes = nodes[:, new_index:index]"),
    ("evaluate_barycentric: first element of the column off by one", TH, "evaluate_barycentric",
     "new_index = index - degree + k  # First", "new_index = index - degree + k + 1  # First"),
    ("evaluate_barycentric: Horner factor lambda2", TH, "evaluate_barycentric",
     "result *= lambda3", "result *= lambda2"),
    ("evaluate_barycentric: curve kernel gets swapped weights", TH, "evaluate_barycentric",
     "col_nodes, lambda1, lambda2\n", "col_nodes, lambda2, lambda1\n"),
    ("evaluate_barycentric: loop stops before k = 0", TH, "evaluate_barycentric",
     "for k in range(degree - 1, -1, -1):", "for k in range(degree - 1, 0, -1):"),
    ("evaluate_barycentric: starts from the first node", TH, "evaluate_barycentric",
     "result[:, 0] += nodes[:, index]", "result[:, 0] += nodes[:, 0]"),
    ("evaluate_barycentric_multi: weights permuted", TH, "evaluate_barycentric_multi",
     "nodes, degree, lambda1, lambda2, lambda3", "nodes, degree, lambda2, lambda1, lambda3"),
    ("evaluate_cartesian_multi: lambda1 = 1 - s", TH, "evaluate_cartesian_multi",
     "nodes, degree, 1.0 - s - t, s, t", "nodes, degree, 1.0 - s, s, t"),
    ("evaluate_cartesian_multi: s and t swapped", TH, "evaluate_cartesian_multi",
     "nodes, degree, 1.0 - s - t, s, t", "nodes, degree, 1.0 - s - t, t, s"),
    # ---- Jacobian nets
    ("jacobian_s: difference reversed", TH, "jacobian_s",
     "result[:, index] = nodes[:, i + 1] - nodes[:, i]", "result[:, index] = nodes[:, i] - nodes[:, i + 1]"),
    ("jacobian_s: row jump dropped", TH, "jacobian_s",
     "            i += 1\n        # In between each row, the index gains an extra value.\n        i += 1\n",
     "            i += 1\n"),
    ("jacobian_s: scaled by degree + 1", TH, "jacobian_s",
     "return float(degree) * result", "return float(degree + 1) * result"),
    ("jacobian_t: upper parent starts at degree", TH, "jacobian_t",
     "j = degree + 1", "j = degree"),
    ("jacobian_t: difference with the right neighbour", TH, "jacobian_t",
     "result[:, index] = nodes[:, j] - nodes[:, i]", "result[:, index] = nodes[:, j] - nodes[:, i + 1]"),
    ("jacobian_both: B_t first", TH, "jacobian_both",
     "result[:dimension, :] = jacobian_s(nodes, degree, dimension)\n    result[dimension:, :] = jacobian_t(nodes, degree, dimension)",
     "result[:dimension, :] = jacobian_t(nodes, degree, dimension)\n    result[dimension:, :] = jacobian_s(nodes, degree, dimension)"),
    ("jacobian_det: wrong cofactor", TH, "jacobian_det",
     "- bs_bt_vals[1, :] * bs_bt_vals[2, :]", "- bs_bt_vals[1, :] * bs_bt_vals[3, :]"),
    ("jacobian_det: evaluates at full degree", TH, "jacobian_det",
     "jac_nodes, degree - 1, st_vals, 4", "jac_nodes, degree, st_vals, 4"),
    ("jacobian_det: linear shortcut taken for degree 2", TH, "jacobian_det",
     "if degree == 1:", "if degree == 2:"),
    # ---- triangle Newton step
    ("newton_refine_solve: sign of delta_s numerator", TI, "newton_refine_solve",
     "delta_s = (d_val * e_val - c_val * f_val) / denom", "delta_s = (d_val * e_val + c_val * f_val) / denom"),
    ("newton_refine_solve: b and c unpacked in the other order", TI, "newton_refine_solve",
     "a_val, b_val, c_val, d_val = jac_both[:, 0]", "a_val, c_val, b_val, d_val = jac_both[:, 0]"),
    ("newton_refine_solve: right-hand side reversed", TI, "newton_refine_solve",
     "e_val = x_val - triangle_x", "e_val = triangle_x - x_val"),
    ("tri newton_refine: exact-hit test uses `or`", TI, "newton_refine",
     "if triangle_x == x_val and triangle_y == y_val:", "if triangle_x == x_val or triangle_y == y_val:"),
    ("tri newton_refine: Jacobian evaluated at full degree", TI, "newton_refine",
     "jac_nodes, degree - 1, lambda1, s, t", "jac_nodes, degree, lambda1, s, t"),
    ("tri newton_refine: update subtracted", TI, "newton_refine",
     "return s + delta_s, t + delta_t", "return s - delta_s, t + delta_t"),
    ("tri newton_refine: lambda1 = 1 - s + t", TI, "newton_refine",
     "lambda1 = 1.0 - s - t", "lambda1 = 1.0 - s + t"),
    # ---- the translator must refuse what it does not understand
    ("tri de_casteljau_one_round: columns written from the back (refused at run time: no theorem)", TH,
     "de_casteljau_one_round", "new_nodes[:, index] = (", "new_nodes[:, num_new_nodes - 1 - index] = ("),
    ("jacobian_s: unsupported statement (while loop)", TH, "jacobian_s",
     "    return float(degree) * result", "    while False:\n        pass\n    return float(degree) * result"),
]

SUB_MUTATIONS = [
    ("subdivide_nodes: quadratic tables B and C exchanged", TH, "subdivide_nodes",
     "nodes_b = _py_helpers.matrix_product(nodes, QUADRATIC_SUBDIVIDE_B)\n        nodes_c = _py_helpers.matrix_product(nodes, QUADRATIC_SUBDIVIDE_C)",
     "nodes_b = _py_helpers.matrix_product(nodes, QUADRATIC_SUBDIVIDE_C)\n        nodes_c = _py_helpers.matrix_product(nodes, QUADRATIC_SUBDIVIDE_B)"),
    ("subdivide_nodes: cubic tables used for degree 5", TH, "subdivide_nodes",
     "elif degree == 3:", "elif degree == 5:"),
    ("subdivide_nodes: weights of quarter C permuted", TH, "subdivide_nodes",
     "            _WEIGHTS_SUBDIVIDE1,\n            _WEIGHTS_SUBDIVIDE4,\n            _WEIGHTS_SUBDIVIDE3,",
     "            _WEIGHTS_SUBDIVIDE4,\n            _WEIGHTS_SUBDIVIDE1,\n            _WEIGHTS_SUBDIVIDE3,"),
    ("subdivide_nodes: quarter D gets the last weights of quarter A", TH, "subdivide_nodes",
     "            _WEIGHTS_SUBDIVIDE3,\n            _WEIGHTS_SUBDIVIDE5,", "            _WEIGHTS_SUBDIVIDE3,\n            _WEIGHTS_SUBDIVIDE2,"),
    ("module constant: an entry of LINEAR_SUBDIVIDE_A changed", TH, None,
     "np.asfortranarray([[2, 1, 1], [0, 1, 0], [0, 0, 1]], dtype=_FLOAT64) / 2.0",
     "np.asfortranarray([[2, 1, 1], [0, 1, 0], [0, 1, 1]], dtype=_FLOAT64) / 2.0"),
    ("module constant: _WEIGHTS_SUBDIVIDE1 changed", TH, None,
     "_WEIGHTS_SUBDIVIDE1 = np.asfortranarray([0.5, 0.5, 0.0])", "_WEIGHTS_SUBDIVIDE1 = np.asfortranarray([0.5, 0.25, 0.25])"),
    ("module constant: divisor of _QUADRATIC_TO_BERNSTEIN", TH, None,
     "            [0, 0, 0, -1, -1, 2],\n        ],\n        dtype=_FLOAT64,\n    )\n    / 2.0",
     "            [0, 0, 0, -1, -1, 2],\n        ],\n        dtype=_FLOAT64,\n    )\n    / 4.0"),
    ("quadratic_jacobian_polynomial: a column pair read twice", TH, "quadratic_jacobian_polynomial",
     "jac_at_nodes[0, 2] = two_by_two_det(jac_parts[:, 4:6])", "jac_at_nodes[0, 2] = two_by_two_det(jac_parts[:, 2:4])"),
    ("quadratic_jacobian_polynomial: entries 3 and 4 exchanged", TH, "quadratic_jacobian_polynomial",
     "jac_at_nodes[0, 3] = two_by_two_det(jac_parts[:, 6:8])\n    jac_at_nodes[0, 4] = two_by_two_det(jac_parts[:, 8:10])",
     "jac_at_nodes[0, 3] = two_by_two_det(jac_parts[:, 8:10])\n    jac_at_nodes[0, 4] = two_by_two_det(jac_parts[:, 6:8])"),
    ("quadratic_jacobian_polynomial: change of basis with the helper table", TH, "quadratic_jacobian_polynomial",
     "jac_at_nodes, _QUADRATIC_TO_BERNSTEIN", "jac_at_nodes, _QUADRATIC_JACOBIAN_HELPER"),
    ("mean_centroid: divides by 2 * len", TI, "mean_centroid",
     "denom = 3.0 * len(candidates)", "denom = 2.0 * len(candidates)"),
    ("mean_centroid: sums centroid_x twice", TI, "mean_centroid",
     "sum_y += centroid_y", "sum_y += centroid_x"),
    ("update_locate_candidates: middle triangle keeps a positive width", TI, "update_locate_candidates",
     "(centroid_x, centroid_y, -half_width, nodes_b)", "(centroid_x, centroid_y, half_width, nodes_b)"),
    ("update_locate_candidates: centroid of C shifted by half_width only", TI, "update_locate_candidates",
     "(centroid_x + width, centroid_y - half_width, half_width, nodes_c)",
     "(centroid_x + half_width, centroid_y - half_width, half_width, nodes_c)"),
    ("update_locate_candidates: quarters C and D exchanged", TI, "update_locate_candidates",
     "half_width, nodes_c),\n            (centroid_x - half_width, centroid_y + width, half_width, nodes_d),",
     "half_width, nodes_d),\n            (centroid_x - half_width, centroid_y + width, half_width, nodes_c),"),
    ("update_locate_candidates: box test inverted", TI, "update_locate_candidates",
     "if not _py_helpers.contains_nd(candidate_nodes, point):", "if _py_helpers.contains_nd(candidate_nodes, point):"),
    ("update_locate_candidates: quarter width", TI, "update_locate_candidates",
     "half_width = 0.5 * width", "half_width = 0.25 * width"),
]
CUBIC_MUTATIONS = [
    ("cubic_jacobian_polynomial: factor 36 not applied", TH, "cubic_jacobian_polynomial",
     "    bernstein /= _QUARTIC_BERNSTEIN_FACTOR\n", ""),
    ("cubic_jacobian_polynomial: last column pair starts one early", TH, "cubic_jacobian_polynomial",
     "jac_at_nodes[0, 14] = two_by_two_det(jac_parts[:, 28:])", "jac_at_nodes[0, 14] = two_by_two_det(jac_parts[:, 27:29])"),
    ("module constant: _QUARTIC_BERNSTEIN_FACTOR changed", TH, None,
     "_QUARTIC_BERNSTEIN_FACTOR = 36.0", "_QUARTIC_BERNSTEIN_FACTOR = 32.0"),
]
T.MUTATIONS = {"kernels": KERNEL_MUTATIONS, "sub": SUB_MUTATIONS, "cubic": CUBIC_MUTATIONS}[GROUP]

KERNEL_HARMLESS = [
    ("tri de_casteljau_one_round: renamed running indices", True, TH, "de_casteljau_one_round",
     [("parent_i1", "p1", None), ("parent_i2", "p2", None), ("parent_i3", "p3", None)]),
    ("evaluate_barycentric: renamed locals", True, TH, "evaluate_barycentric",
     [("col_result", "cr", None), ("new_index", "first", None)]),
    ("jacobian_t: comment / docstring changed", True, TH, "jacobian_t",
     [("        # In between each row, the index gains an extra value.\n", "        # next row\n", 1)]),
    ("jacobian_s: independent increments re-ordered", True, TH, "jacobian_s",
     [("            index += 1\n            i += 1\n", "            i += 1\n            index += 1\n", 1)]),
    ("newton_refine_solve: renamed locals", True, TI, "newton_refine_solve",
     [("e_val", "rhs_x", None), ("f_val", "rhs_y", None)]),
    ("tri newton_refine: comparison operands swapped (needs symmetry of =: may break)", False, TI, "newton_refine",
     [("if triangle_x == x_val and triangle_y == y_val:", "if x_val == triangle_x and y_val == triangle_y:", 1)]),
    ("jacobian_det: commuted product (LIMIT: needs commutativity)", False, TH, "jacobian_det",
     [("bs_bt_vals[0, :] * bs_bt_vals[3, :]", "bs_bt_vals[3, :] * bs_bt_vals[0, :]", 1)]),
]
SUB_HARMLESS = [
    ("subdivide_nodes: renamed locals", True, TH, "subdivide_nodes", [("nodes_a", "first", None), ("nodes_d", "last", None)]),
    ("mean_centroid: renamed locals", True, TI, "mean_centroid", [("sum_x", "total_x", None), ("denom", "count3", None)]),
    ("update_locate_candidates: renamed locals", True, TI, "update_locate_candidates",
     [("half_width", "hw", None), ("candidate_nodes", "cn", None)]),
]
T.HARMLESS = {"kernels": KERNEL_HARMLESS, "sub": SUB_HARMLESS, "cubic": []}[GROUP]

if __name__ == "__main__":
    T.main()
