#!/venv/bin/python
"""Translator (code): the scalar / planar predicate routines and the numeric kernels of the Fortran implementation, re-read
from /repo's *current working tree* (`src/fortran/helpers.f90`, `curve_intersection.f90`, `curve.f90`, `triangle.f90`; root
from env BEZIER_REPO), are translated statement by statement into Lean definitions
(lean/BezierVerif/Generated/SrcF90.lean, namespace `BezierVerif.Generated.SrcF90`).  The kernel then
re-proves (lean/BezierVerif/Tables/SrcF90.lean, Tables/SrcF90Kernels.lean) that each generated definition equals the
hand-written model definition (Model/Helpers.lean, Model/Solve2x2.lean, Model/Curve.lean, Model/Triangle.lean, Model/Newton.lean,
Model/TriDeriv.lean) on all inputs (the third table file is Tables/SrcF90Pipeline.lean).  A semantic edit of the source changes the
generated definition and breaks the theorem; an edit the translator does not understand removes the
definition (and prints `EXTRACT-PROBLEM srcf90: <routine>: <what>`), which breaks the theorem as well.

ACCEPTED SUBSET (everything else is an EXTRACT-PROBLEM, never skipped silently)
  procedures    `[pure] subroutine name(args) [bind(..)]`, `[type] [pure] function name(args) result(r) [bind(..)]`
  declarations  `real(c_double) | integer(c_int) | logical(c_bool) [, intent(in|out)] :: name[(extents)], ...`
                extents: integer literals or names of integer intent(in) dummies (explicit shape), rank <= 2
  statements    assignment to a scalar / whole array / array element with literal subscripts;
                `if (c) then / else if (c) then / else / end if`, one-line `if (c) stmt`; `return`;
                `call listed_subroutine(actuals)`; `do i = lo, hi`: literal bounds -> unrolled (<= 8 iterations);
                literal `lo >= 1`, step 1 and an integer expression `hi` (extent dummies, do variables, `+ -` literals)
                -> a left fold over `List.range' lo (hi + 1 - lo)`; `return` inside such a loop is supported
  expressions   literals (`1.0_dp`, `3`, `.TRUE.`), variables, module parameters, `+ - * /`, unary `-` (Fortran
                precedence: `-a / b` is `-(a / b)`), `** <integer literal>` on constants only,
                `== /= < <= > >=` (and `.eq.` ...), `.AND. .OR. .NOT.`, parentheses,
                element references `v(1)`, `m(2, 1)`, sections `m(:, j)` / `m(i, :)`; subscripts are literals or integer
                expressions in do variables / extents that are provably >= 1 (`i`, `i - 1` with `i >= 2`, `n`),
                sections `m(:, lo:hi)` of a rank-2 array (integer expressions; `hi` defaults to the declared extent),
                whole-array `a - b`, `a + b` (rank 1 and 2), `c * m`, elementwise comparisons of rank-1 arrays,
                intrinsics `abs (scalar / rank 2) min max minval(m, 2) maxval(m, 2) dot_product norm2 any all`,
                integer expressions in extents / do variables / literals with `+ - *`, integer comparisons,
                integer operands of a real operation (converted by `ofInt`), references to listed functions.

TYPING DISCIPLINE (fixed)
  real(c_double) scalar                -> K                 logical(c_bool)        -> Bool
  real(c_double) v(2)                  -> Pt K = K × K      v(1) ↦ v.1, v(2) ↦ v.2
  real(c_double) v(n)  (n a dummy)     -> List K            v(i) ↦ seq v (i-1)
  real(c_double) m(d, n) (any extents) -> List (List K) = list of ROWS; m(i, j) ↦ at2 m (i-1) (j-1);
                                          m(:, j) ↦ colPt m (j-1) if d = 2; m(i, :) ↦ row m (i-1)
  integer dummies used as extents      -> dropped from the Lean signature (their value IS the shape of the list: `ncols m`,
                                          `List.length v`); as VALUES (`0.125_dp * (num_nodes - 1)`, `num_nodes == 2`) they are
                                          Int-valued and exact (`ofInt (↑(ncols m) - 1)`); as subscripts / bounds they are
                                          Nat-valued and must provably be >= 1 (only the outermost `-` of an upper bound may
                                          truncate: an empty section / zero-trip loop either way);
                                          at a call site the actual extent must be textually the declared extent
                                          of the actual array
  integer(c_int) intent(out) assigned only `Family_NAME` parameters -> the model's inductive (table ENUMS below; the
                                          generated file re-checks `ctor.toNat = <value parsed from the source>`)
  intent(out) variables                -> the returned tuple, in dummy-argument order; function result -> the value
  a variable read or returned before any assignment on that path -> the explicit parameter `undef : K`
                                          (Fortran: undefined content; the theorems hold for every `undef`)
  `norm2`                              -> an explicit parameter `norm2 : List K → K` (external square root)
  early `return`                       -> the continuation is dropped; code after an `if` block is duplicated into
                                          the branches that fall through (the result is a pure if-then-else tree)
  `do i = lo, hi` (fold)               -> `List.foldl (fun st i => ...) init (List.range' lo (hi + 1 - lo))`; the state `st`
                                          holds exactly the variables that carry a value from one iteration to the next
                                          or out of the loop (found by retrying: a variable assigned in the body that is
                                          read before being re-assigned joins the state), plus `Option <result>` if the
                                          body contains `return` (`some r`: returned; later iterations are skipped)
  array extents                        -> every extent is assumed >= 1 (a zero-size array is outside the translated
                                          semantics: `minval` would be `HUGE`, `polygon(:, n)` out of bounds)

NUMERIC KERNELS (curve.f90, triangle.f90; Tables/SrcF90Kernels.lean) - additional rules, selected per routine in ROUTINES
  UNIFORM AXES  `{"reduce": ["dimension_", "num_vals"]}`: an axis declared with such an integer dummy extent is uniform if every
                reference has `:` there or the index of an enclosing `forall (v = 1:<extent>)`, and the extent occurs nowhere
                else (checked; otherwise EXTRACT-PROBLEM).  The routine then acts identically and independently on every
                index of the axis and the generated definition is its action on ONE index: the axis is removed from the
                declarations and references, the `forall` over it is replaced by its body.  `{"unit": True}` drops axes of
                literal extent 1 (`hodograph(dimension_, 1)`, `[s]`).  This is the granularity of the model (row-wise).
  LIFTED CALL   a caller that keeps an axis (`nodes(dimension_, n)`) calls a routine translated for one index of it: the call
                is a map over the rows, `List.map (fun nodes_ => evaluate_multi nodes_ s) nodes` (one output, carrying the axis)
  forall        `forall (i = lo:hi) a(idx(i)) = rhs(i)` on a rank-1 array: every right-hand side reads the OLD array;
                `List.map (fun i => rhs) (List.range' 1 n)` when the whole array is defined, else a fold of `List.set`
  rank-1 arrays `v(lo:hi)` ↦ `secRow v lo hi`, `v(hi:lo:-1)` its reverse, `v(lo:hi) = w` ↦ `setSec v lo hi w`, `v = scalar` ↦
                `List.replicate <declared extent> scalar`, `v(i) = x` ↦ `List.set v (i-1) x` (an unassigned array is
                `List.replicate <extent> undef`), `c * v`, `v * w`, `v ± w`; `m(:, lo:hi) = w` on rank 2; `p * c` on `v(2)`
  loops         descending `do i = hi, lo, -1` (fold over the reversed range), lower bound 0, nested loops; inside a loop an
                `if` construct without `return` is `let (modified) := if c then .. else ..` (no duplication of the rest)
  integers      subscripts / bounds may contain `a - b` with non-literal `b` when the bounds of the do variables
                (`lo <= i <= hi`) and extents (>= 1) show the result is >= 0 (affine forms); integer scalar VARIABLES
                (`index_`, `degree`) are Int-valued; a subscript containing one is `Int.toNat (e - 1)`, a bound / trip count
                `Int.toNat e`; integer -> real as `((e : Nat) : K)` when exact as a natural number, else `ofInt e`
  `x ** n`      with the literals n = 2, 3, 4: the repeated product
  explicit shape an actual extent that is not textually the extent of the actual array: the callee sees the first `extent`
                elements (`List.take`)
  BLOCK SPLIT   an array whose first extent is `2 * <uniform extent>` (`new_nodes(2 * dimension_, n)` of jacobian_both) is the
                two arrays `<name>_lo`, `<name>_hi` (rows `:d` and `d + 1:`), each carrying the uniform axis; a reference must
                address one block, or the whole array in `a = expr(a)` (applied to both)
  pipeline      (Tables/SrcF90Pipeline.lean) `matmul(a, b)` ↦ `matMul`, `matmul(a, v)` ↦ `matVec`, `transpose`; `-p`, `p = scalar`,
                `array == scalar` under `all` / `any`; an output argument bound to an element / a column section
                (`jacobian(:, 1:1)`, `func_val(3, 1)`) is an assignment of the result; `m(:, j) = p`, `m(:2, j:j) = p` on an
                array with literal extents ↦ `setColPt`; `v(lo:hi) = p`, `v(lo:hi) - p` with a `v(2)` array `p`
  OPAQUE        `{"opaque": True}`: only the interface of the routine is read (declared limitation, no definition); its
                callers take it as an explicit function argument `<name>_ext`

PHASE 4 (f90tri; Tables/SrcF90Triangle.lean) - `triangle.f90`, `triangle_intersection.f90`, rest of `curve.f90`
  `"as"`        `{"as": "tri_subdivide_nodes"}`: the Lean name of a routine whose Fortran name is already taken by a routine of
                another module; a referenced name is looked up in the module of the referencing routine first
  BLOCK OUTPUT  a caller that keeps the axis (`jac_nodes(4, n)`, `dimension_ = 2`) of a BLOCK SPLIT output
                (`new_nodes(2 * dimension_, n)` of jacobian_both): the rows of the first block for every row of the input,
                followed by the rows of the second block (`List.map (·).1 nodes ++ List.map (·).2 nodes`)
  `[a, b, c]`   an array constructor of real scalars: the list (`[a, b]`: the point)
  opaque        an interface-only routine may have local declarations / statements outside the subset (only the dummy
                arguments are read)
  rank-1 output unassigned on a path: `List.replicate <extent> undef`
  integers      `mod(a, b)` ↦ `Int.tmod`, integer `a / b` ↦ `Int.tdiv` (truncation towards zero), `a ** 2..4` the repeated
                product; unbounded `Int` - the wrap-around of `integer(c_int)` is not modelled; `{"ints": True}` admits
                integer inputs that are not extents
  allocatable   a local `real(c_double), allocatable :: w(:, :)` with exactly one top-level `allocate(w(e1, e2))`: an array with
                those extents (integer expressions), undefined content (`List.replicate n undef`) from the `allocate` on
  inout         `{"inout": True}`: an `intent(inout)` dummy is an input AND an output of the Lean definition; at a call the
                actual is read and re-assigned; an output actual may be a section of a loop-carried variable
  columns       of a rank-2 array whose first extent is not a literal: `m(:, j)` ↦ `col m (j-1)`, `m(lo:hi, j)` ↦
                `secRow (col m (j-1)) lo hi`, `m(lo:hi, j) = v` ↦ `setColSec m (j-1) lo hi v`; `forall (j = a:b) m(lo:hi, j) = rhs`
                ↦ a fold of `setColSec` whose right-hand sides read the OLD array; `-v`, `v / c` on rank-1 arrays;
                `norm2(m)` of a rank-2 array ↦ `norm2 (List.flatten m)` (Frobenius norm; order of the elements immaterial)
  not read      `use m, only: ...` lists: a name that exists in two modules and is referenced from a THIRD module resolves to
                the routine listed first (the argument count then differs: EXTRACT-PROBLEM, not a wrong translation)
PHASE 4 (f90classify; Tables/SrcF90Classify.lean) - decision routines of triangle_intersection.f90 on derived types
  derived types `type :: Name .. end type` is read from the module text and emitted as `structure NameRec (K)` (real -> K, integer ->
                Int, logical -> Bool, `real, allocatable :: a(:, :)` -> List (List K), not allocated = []), with `NameRec.dflt` =
                the DEFAULT INITIALISATION of the source (a local / intent(out) variable of such a type starts as `dflt`; a type
                with a scalar component without default is refused), `NameRec.elem l i` = `l(i+1)` (`dflt` outside), `setElem`;
                `a%f`, `a(i)%f`, `a%f = e`, `a(i)%f = e` (`{ x with f := e }`), `x = a(i)`, `a(i) = x`
  integers      an intent(out) integer left unassigned is the explicit parameter `undefI : Int`; integer rank-1 arrays are
                `List Int` (`intAt`, `secI`, `setSecI`); enum / status parameters are inlined as their integer values
  intrinsics    `size(a, k)`, `size(a)`; `modulo(a, p)` with a positive literal `p` = Lean's `Int.emod`; `sign(a, b)` = `signK a b`
                (`-|a|` iff `b < 0`; K has no negative zero)
  `n = size(a, k)` an integer local that holds `size(<array expr>, k)` may be passed as the extent argument belonging to the
                textually same array argument; the fact is forgotten when the local or a name in `<array expr>` is re-assigned
  `{"records": True}` additionally accepts intent(inout) dummies (an input AND a component of the result tuple) and assumed-shape
                rank-1 dummies `a(:)`

Deterministic; writes the file only when its content changes; exit status 0 also when routines are not translatable.
Usage: translate_f90.py [--out PATH] [--print]
"""
import os
import re
import sys
from fractions import Fraction as Fr

HERE = os.path.dirname(os.path.abspath(__file__))
REPO = os.environ.get("BEZIER_REPO", "/repo")
OUT = os.path.join(os.path.dirname(HERE), "lean", "BezierVerif", "Generated", "SrcF90.lean")

# routines in translation order (callees first): (module, name)
ROUTINES = [
    ("helpers", "in_interval"),
    ("helpers", "cross_product"),
    ("helpers", "wiggle_interval"),
    ("helpers", "vector_close"),
    ("helpers", "bbox"),
    ("helpers", "contains_nd"),
    ("helpers", "solve2x2"),
    ("helpers", "is_separating"),
    ("helpers", "polygon_collide"),
    ("curve_intersection", "bbox_intersect"),
    ("curve_intersection", "segment_intersection"),
    ("curve_intersection", "parallel_lines_parameters"),
    ("curve_intersection", "line_line_collide"),
    ("curve_intersection", "bbox_line_intersect"),
    ("curve_intersection", "linearization_error"),
    # numeric kernels of curve.f90: every routine acts identically on each row (`dimension_`) and on each parameter
    # value (`num_vals`); the translation is the action on one row / one value (UNIFORM AXES, see `reduce_axes`)
    ("curve", "evaluate_curve_vs", {"reduce": ["dimension_", "num_vals"]}),
    ("curve", "evaluate_curve_de_casteljau", {"reduce": ["dimension_", "num_vals"]}),
    ("curve", "evaluate_curve_barycentric", {"reduce": ["dimension_", "num_vals"]}),
    ("curve", "evaluate_multi", {"reduce": ["dimension_", "num_vals"]}),
    ("curve", "evaluate_hodograph", {"reduce": ["dimension_"], "unit": True}),
    ("curve", "elevate_nodes", {"reduce": ["dimension_"]}),
    ("curve", "subdivide_nodes_generic", {"reduce": ["dimension_"]}),
    ("curve", "subdivide_nodes", {"reduce": ["dimension_"]}),
    ("curve", "specialize_curve_generic", {"reduce": ["dimension_"], "opaque": True}),
    ("curve", "specialize_curve_quadratic", {"reduce": ["dimension_"]}),
    ("curve", "specialize_curve", {"reduce": ["dimension_"]}),
    ("curve", "newton_refine", {"unit": True}),
    ("curve", "get_curvature", {"unit": True}),
    ("curve_intersection", "newton_simple_root", {"unit": True}),
    ("curve_intersection", "newton_double_root", {"unit": True}),
    # triangle.f90
    ("triangle", "de_casteljau_one_round", {"reduce": ["dimension_"]}),
    ("triangle", "evaluate_barycentric_multi", {"reduce": ["dimension_", "num_vals"]}),
    ("triangle", "evaluate_barycentric", {"reduce": ["dimension_"], "unit": True}),
    ("triangle", "evaluate_cartesian_multi", {"reduce": ["dimension_", "num_vals"]}),
    ("triangle", "compute_edge_nodes", {"reduce": ["dimension_"]}),
    ("triangle", "jacobian_both", {"reduce": ["dimension_"]}),
    # phase 4 (f90tri)
    ("triangle", "jacobian_det", {"reduce": ["num_vals"]}),
    ("triangle", "specialize_workspace_sizes", {"ints": True}),
    ("triangle", "specialize_triangle_one_round", {"reduce": ["dimension_"], "inout": True}),
    ("triangle", "specialize_triangle", {"reduce": ["dimension_"]}),
    ("triangle", "subdivide_nodes", {"reduce": ["dimension_"], "as": "tri_subdivide_nodes"}),
    ("triangle_intersection", "newton_refine_solve", {"unit": True}),
    ("triangle_intersection", "newton_refine", {"unit": True, "as": "tri_newton_refine"}),
    ("triangle", "shoelace_for_area"),
    ("curve", "reduce_pseudo_inverse", {"reduce": ["dimension_"]}),
    ("curve", "specialize_curve_generic", {"reduce": ["dimension_"], "as": "specialize_curve_generic_full"}),
    ("curve", "projection_error"),
    ("curve", "can_reduce"),
    # phase 4 (f90classify): decision logic of triangle_intersection.f90 (derived types -> structures, integers -> Int)
    ("triangle_intersection", "ignored_edge_corner", {"unit": True}),
    ("triangle_intersection", "ignored_double_corner", {"unit": True}),
    ("triangle_intersection", "ignored_corner", {"unit": True}),
    ("triangle_intersection", "classify_tangent_intersection", {"unit": True}),
    ("triangle_intersection", "classify_intersection", {"unit": True}),
    ("triangle_intersection", "is_first", {"records": True}),
    ("triangle_intersection", "is_second", {"records": True}),
    ("triangle_intersection", "should_keep", {"records": True}),
    ("triangle_intersection", "find_corner_unused", {"records": True}),
    ("triangle_intersection", "update_edge_end_unused", {"records": True}),      # translated; no theorem yet
    ("triangle_intersection", "remove_node", {"records": True}),
    ("triangle_intersection", "to_front", {"records": True}),
    ("triangle_intersection", "get_next", {"records": True}),
]

MODULES = ("helpers", "curve_intersection", "curve", "triangle")
MODULES = MODULES + ("status", "triangle_intersection")            # phase 4 (f90tri, f90classify)

# integer enum families: Fortran prefix -> (Lean inductive, {constructor: toNat value}, name of the toNat function)
ENUMS = {
    "BoxIntersectionType": ("BoxType", {"intersection": 0, "tangent": 1, "disjoint": 2}, "BoxType.toNat"),
}

LEAN_KEYWORDS = {"end", "at", "from", "do", "then", "else", "if", "fun", "let", "in", "have", "show", "match", "with",
                 "open", "local", "instance", "structure", "class", "where", "by", "Type", "Prop", "Sort", "def",
                 "theorem", "namespace", "section", "variable", "import", "return", "for", "mut", "this", "using",
                 "deriving", "abbrev", "example", "axiom", "inductive", "macro", "syntax", "notation", "infix",
                 "prefix", "postfix", "private", "protected", "unsafe", "partial", "nomatch", "nofun", "calc",
                 "suffices", "obtain", "exact", "extends", "forall", "exists", "universe", "set_option", "attribute",
                 "mutual", "opaque", "noncomputable", "true", "false", "undef", "norm2", "K", "Pt", "seq", "row",
                 "at2", "colPt", "minval", "maxval", "psub", "padd", "cross", "dot2", "dot", "absK", "minK", "maxK",
                 "subRow", "addRow", "q", "vecOfPt", "set2", "anyB", "allB", "colRange", "matAdd", "matSub", "matScale", "matAbs", "ofInt", "ncols", "scaleRow",
                 "st", "r", "getP", "rowsOf", "secRow", "setSec", "mulRow", "acc", "setColRange", "pscale", "ptOf", "pneg", "setColPt", "matVec", "matMul", "transpose"}
LEAN_KEYWORDS |= {"j%d" % k for k in range(1, 40)}
LEAN_KEYWORDS |= {"col", "setColSec", "negRow", "divRow"}       # phase 4 (f90tri)


class Problem(Exception):
    pass


class PoisonRead(Exception):
    """a variable assigned inside a fold-translated loop, tentatively treated as local to one iteration, is read
       where it would carry a value from a previous iteration / from the last iteration: retry with it in the
       loop state"""

    def __init__(self, var, token):
        Exception.__init__(self, var)
        self.var, self.token = var, token


# ======================================================================================== source reading
def read_source(mod):
    with open(os.path.join(REPO, "src", "fortran", mod + ".f90")) as fh:
        return fh.read()


def strip_comments(src):
    out = []
    for line in src.split("\n"):
        res = []
        quote = None
        for ch in line:
            if quote:
                res.append(ch)
                if ch == quote:
                    quote = None
                continue
            if ch in "'\"":
                quote = ch
                res.append(ch)
                continue
            if ch == "!":
                break
            res.append(ch)
        out.append("".join(res).rstrip())
    return out


def join_continuations(lines):
    out = []
    cur = ""
    for line in lines:
        s = line.strip()
        if not s:
            continue
        if cur:
            if s.startswith("&"):
                s = s[1:].lstrip()
            cur += " " + s
        else:
            cur = s
        if cur.endswith("&"):
            cur = cur[:-1].rstrip()
            continue
        out.append(cur)
        cur = ""
    if cur:
        out.append(cur)
    # `a; b` on one line
    res = []
    for l in out:
        if ";" in l and "'" not in l and '"' not in l:
            res += [p.strip() for p in l.split(";") if p.strip()]
        else:
            res.append(l)
    return res


def module_lines(mod):
    return join_continuations(strip_comments(read_source(mod)))


HEADER_RX = re.compile(
    r"^(?:(?P<rtype>(?:real|integer|logical)\s*\(\s*\w+\s*\))\s+)?(?P<prefix>(?:(?:pure|elemental|recursive)\s+)*)"
    r"(?P<kind>subroutine|function)\s+(?P<name>\w+)\s*\((?P<args>[^)]*)\)\s*"
    r"(?:result\s*\(\s*(?P<result>\w+)\s*\)\s*)?(?:bind\s*\(.*\)\s*)?$", re.I)


def find_procedure(lines, name):
    """(header match, body lines) of the module procedure `name` (interface blocks are skipped)"""
    depth_iface = 0
    start = None
    hdr = None
    for i, line in enumerate(lines):
        low = line.lower()
        if re.match(r"(abstract\s+)?interface\b", low):
            depth_iface += 1
            continue
        if re.match(r"end\s*interface\b", low):
            depth_iface -= 1
            continue
        if depth_iface:
            continue
        if start is None:
            m = HEADER_RX.match(line)
            if m and m.group("name").lower() == name.lower():
                start, hdr = i, m
        else:
            if re.match(r"end\s*(subroutine|function)\s+%s\s*$" % re.escape(name), low):
                return hdr, lines[start + 1:i]
    if start is None:
        raise Problem("procedure not found (or header not of the accepted form)")
    raise Problem("`end subroutine/function %s` not found" % name)


# ======================================================================================== tokens / expressions
TOKEN_RX = re.compile(
    r"\s*(?:(?P<real>(?:\d+\.\d*|\.\d+)(?:[eEdD][-+]?\d+)?(?:_\w+)?|\d+[eEdD][-+]?\d+(?:_\w+)?)"
    r"|(?P<int>\d+(?:_\w+)?)"
    r"|(?P<dot>\.[A-Za-z]+\.)"
    r"|(?P<name>[A-Za-z_]\w*)"
    r"|(?P<op>\*\*|==|/=|<=|>=|=>|::|[-+*/(),:<>=\[\]%]))")


def tokenize(s):
    toks = []
    pos = 0
    s = s.rstrip()
    while pos < len(s):
        m = TOKEN_RX.match(s, pos)
        if not m or m.end() == pos:
            raise Problem("cannot tokenize %r" % s[pos:pos + 30])
        pos = m.end()
        for kind in ("real", "int", "dot", "name", "op"):
            if m.group(kind) is not None:
                toks.append((kind, m.group(kind)))
                break
    return toks


DOT_REL = {".eq.": "==", ".ne.": "/=", ".lt.": "<", ".le.": "<=", ".gt.": ">", ".ge.": ">="}


class Parser:
    """Fortran expression parser -> AST tuples
       ('num', Fraction, is_real) ('log', bool) ('name', id) ('ref', id, [args]) ('slice', lo, hi)
       ('un', op, x) ('bin', op, a, b) ('arr', [items])"""

    def __init__(self, toks):
        self.t = toks
        self.i = 0

    def peek(self):
        return self.t[self.i] if self.i < len(self.t) else (None, None)

    def next(self):
        tok = self.peek()
        self.i += 1
        return tok

    def accept(self, val):
        k, v = self.peek()
        if v is not None and k in ("op", "dot") and v.lower() == val:
            self.i += 1
            return True
        return False

    def expect(self, val):
        if not self.accept(val):
            raise Problem("expected %r, found %r" % (val, self.peek()[1]))

    def done(self):
        return self.i >= len(self.t)

    # precedence climbing, lowest first
    def expr(self):
        return self.p_eqv()

    def p_eqv(self):
        a = self.p_or()
        k, v = self.peek()
        if k == "dot" and v.lower() in (".eqv.", ".neqv."):
            raise Problem("operator %s not supported" % v)
        return a

    def p_or(self):
        a = self.p_and()
        while self.accept(".or."):
            a = ("bin", "or", a, self.p_and())
        return a

    def p_and(self):
        a = self.p_not()
        while self.accept(".and."):
            a = ("bin", "and", a, self.p_not())
        return a

    def p_not(self):
        if self.accept(".not."):
            return ("un", "not", self.p_not())
        return self.p_rel()

    def p_rel(self):
        a = self.p_add()
        k, v = self.peek()
        op = None
        if k == "op" and v in ("==", "/=", "<", "<=", ">", ">="):
            op = v
        elif k == "dot" and v.lower() in DOT_REL:
            op = DOT_REL[v.lower()]
        if op:
            self.i += 1
            b = self.p_add()
            return ("bin", op, a, b)
        return a

    def p_add(self):
        k, v = self.peek()
        if k == "op" and v in "+-":
            self.i += 1
            t = self.p_mul()
            a = ("un", "neg", t) if v == "-" else t
        else:
            a = self.p_mul()
        while True:
            k, v = self.peek()
            if k == "op" and v in ("+", "-"):
                self.i += 1
                a = ("bin", v, a, self.p_mul())
            else:
                return a

    def p_mul(self):
        a = self.p_pow()
        while True:
            k, v = self.peek()
            if k == "op" and v in ("*", "/"):
                self.i += 1
                a = ("bin", v, a, self.p_pow())
            else:
                return a

    def p_pow(self):
        a = self.p_primary()
        if self.accept("**"):
            k, v = self.peek()
            if k == "op" and v in "+-":
                raise Problem("signed exponent not supported")
            b = self.p_pow()
            return ("bin", "**", a, b)
        return a

    def p_primary(self):
        k, v = self.next()
        if k == "real":
            txt = re.sub(r"_\w+$", "", v).lower().replace("d", "e")
            return ("num", Fr(txt), True)
        if k == "int":
            return ("num", Fr(re.sub(r"_\w+$", "", v)), False)
        if k == "dot":
            if v.lower() == ".true.":
                return ("log", True)
            if v.lower() == ".false.":
                return ("log", False)
            raise Problem("unexpected %s" % v)
        if k == "op" and v == "(":
            e = self.expr()
            self.expect(")")
            return ("paren", e)
        if k == "op" and v == "[":
            items = [self.expr()]
            while self.accept(","):
                items.append(self.expr())
            self.expect("]")
            return ("arr", items)
        if k == "name":
            if self.accept("("):
                args = []
                if not self.accept(")"):
                    args.append(self.p_arg())
                    while self.accept(","):
                        args.append(self.p_arg())
                    self.expect(")")
                k2, v2 = self.peek()
                if v2 == "%":
                    return self.p_component(("ref", v, args))       # phase 4 (f90classify)
                if v2 in ("(", "%"):
                    raise Problem("component / double reference not supported")
                return ("ref", v, args)
            k2, v2 = self.peek()
            if v2 == "%":
                return self.p_component(("name", v))                # phase 4 (f90classify)
            return ("name", v)
        raise Problem("unexpected token %r" % (v,))

    def p_component(self, base):
        """phase 4 (f90classify): `base%field[%field..]` -> ('comp', base, field); a subscripted component is refused"""
        while self.accept("%"):
            k, v = self.next()
            if k != "name":
                raise Problem("malformed component reference")
            if self.peek()[1] == "(":
                raise Problem("subscripted derived-type component not supported")
            base = ("comp", base, v)
        return base

    def p_arg(self):
        k, v = self.peek()
        if k == "op" and v == ":":
            self.i += 1
            k, v = self.peek()
            if v in (",", ")"):
                return ("slice", None, None)
            return ("slice", None, self.expr())
        # keyword argument?
        if k == "name" and self.i + 1 < len(self.t) and self.t[self.i + 1] == ("op", "="):
            raise Problem("keyword argument not supported")
        e = self.expr()
        if self.accept(":"):
            k, v = self.peek()
            if v in (",", ")"):
                return ("slice", e, None)
            hi = self.expr()
            if self.accept(":"):
                return ("slice", e, hi, self.expr())     # lo:hi:stride
            return ("slice", e, hi)
        return e


def canon(e):
    """canonical text of an integer expression (extents are compared textually)"""
    if e is None:
        return ""
    k = e[0]
    if k == "num":
        return str(int(e[1])) if not e[2] else str(e[1])
    if k == "name":
        return e[1].lower()
    if k == "paren":
        return canon(e[1])
    if k == "un":
        return "(-%s)" % canon(e[2])
    if k == "bin":
        return "(%s%s%s)" % (canon(e[2]), e[1], canon(e[3]))
    if k == "ref":
        return "%s(%s)" % (e[1].lower(), ",".join(canon(a) for a in e[2]))
    if k == "slice":
        return ":".join(canon(x) for x in e[1:])
    if k == "arr":
        return "[%s]" % ",".join(canon(x) for x in e[1])
    if k == "comp":                                                 # phase 4 (f90classify)
        return "%s%%%s" % (canon(e[1]), e[2].lower())
    return "?"


def parse_expr(text):
    p = Parser(tokenize(text))
    e = p.expr()
    if not p.done():
        raise Problem("trailing tokens in expression %r" % text)
    return e


# ======================================================================================== statements
def split_top(s, sep=","):
    parts, depth, cur = [], 0, ""
    for ch in s:
        if ch in "([":
            depth += 1
        elif ch in ")]":
            depth -= 1
        if ch == sep and depth == 0:
            parts.append(cur.strip())
            cur = ""
        else:
            cur += ch
    if cur.strip():
        parts.append(cur.strip())
    return parts


def match_paren(s, i):
    """index just after the parenthesis closing the one at s[i]"""
    assert s[i] == "("
    depth = 0
    for j in range(i, len(s)):
        if s[j] == "(":
            depth += 1
        elif s[j] == ")":
            depth -= 1
            if depth == 0:
                return j + 1
    raise Problem("unbalanced parentheses in %r" % s)


def find_assign(s):
    """position of the top-level assignment `=` (not ==, /=, <=, >=, =>), or -1"""
    depth = 0
    for i, ch in enumerate(s):
        if ch in "([":
            depth += 1
        elif ch in ")]":
            depth -= 1
        elif ch == "=" and depth == 0:
            prev = s[i - 1] if i else ""
            nxt = s[i + 1] if i + 1 < len(s) else ""
            if prev in "=/<>" or nxt in "=>":
                continue
            return i
    return -1


DECL_RX = re.compile(r"^(real|integer|logical|type|character|procedure|class|complex|double\s+precision)\b", re.I)


def parse_decl(line):
    """-> list of (name, base, shape(list of extent texts), intent) or raises Problem"""
    if "::" not in line:
        raise Problem("declaration without `::`: %r" % line)
    left, right = line.split("::", 1)
    if re.match(r"^\s*type\s*\(", left, re.I):                      # phase 4 (f90classify)
        return parse_decl_record(left, right)
    m = re.match(r"^\s*(real|integer|logical)\s*\(\s*(\w+)\s*\)\s*(.*)$", left, re.I)
    if not m:
        raise Problem("declaration type not supported: %r" % left.strip())
    base = {"real": "real", "integer": "int", "logical": "bool"}[m.group(1).lower()]
    kind = m.group(2).lower()
    if (base, kind) not in (("real", "c_double"), ("int", "c_int"), ("bool", "c_bool"), ("real", "dp")):
        raise Problem("kind not supported: %s(%s)" % (m.group(1), m.group(2)))
    attrs = split_top(m.group(3).strip().lstrip(","))
    intent = None
    is_param = False
    dim_attr = None
    is_alloc = False        # phase 4 (f90tri)
    for a in attrs:
        al = a.lower().replace(" ", "")
        mm = re.match(r"intent\((in|out|inout)\)$", al)
        if mm:
            intent = mm.group(1)
        elif al == "parameter":
            is_param = True
        elif al == "":
            pass
        elif al == "allocatable" and intent is None:
            is_alloc = True     # phase 4 (f90tri): a local allocatable array; its shape is that of its one `allocate`
        else:
            raise Problem("attribute not supported: %r" % a)
    out = []
    for ent in split_top(right):
        init = None
        if find_assign(ent) >= 0:
            k = find_assign(ent)
            ent, init = ent[:k].strip(), ent[k + 1:].strip()
        mm = re.match(r"^(\w+)\s*(?:\((.*)\))?$", ent.strip())
        if not mm:
            raise Problem("entity not supported: %r" % ent)
        shape = split_top(mm.group(2)) if mm.group(2) is not None else []
        if init is not None and not is_param:
            raise Problem("initialised (saved) variable not supported: %r" % ent)
        out.append({"name": mm.group(1), "base": base, "shape": shape, "intent": intent, "param": is_param, "init": init})
        if is_alloc:
            out[-1]["alloc"] = True
    return out


def parse_statements(lines):
    """-> nested statement list.  ('assign', lhs_ast, rhs_ast, text) ('if', [(cond, body)], else_body|None, text)
       ('return',) ('call', name, [arg asts], text) ('do', var, lo, hi, step, body, text)"""
    pos = [0]

    def block(terminators):
        stmts = []
        while pos[0] < len(lines):
            line = lines[pos[0]]
            low = line.lower()
            for trx in terminators:
                if re.match(trx, low):
                    return stmts
            pos[0] += 1
            stmts.append(statement(line, low))
        if terminators:
            raise Problem("unterminated block (expected %s)" % " / ".join(terminators))
        return stmts

    def statement(line, low):
        if re.match(r"\w+\s*:\s*(do|if)\b", low):
            raise Problem("named construct not supported: %r" % line)
        if re.match(r"if\s*\(", low):
            i = low.index("(")
            j = match_paren(line, i)
            cond = parse_expr(line[i + 1:j - 1])
            rest = line[j:].strip()
            if rest.lower() == "then":
                branches = []
                body = block([r"else\b", r"end\s*if\b"])
                branches.append((cond, body))
                else_body = None
                while True:
                    l2 = lines[pos[0]]
                    low2 = l2.lower()
                    pos[0] += 1
                    if re.match(r"end\s*if\b", low2):
                        break
                    m = re.match(r"else\s*if\s*\(", low2)
                    if m:
                        i2 = low2.index("(")
                        j2 = match_paren(l2, i2)
                        if l2[j2:].strip().lower() != "then":
                            raise Problem("malformed else if: %r" % l2)
                        c2 = parse_expr(l2[i2 + 1:j2 - 1])
                        b2 = block([r"else\b", r"end\s*if\b"])
                        branches.append((c2, b2))
                        continue
                    if low2.strip() == "else":
                        else_body = block([r"end\s*if\b"])
                        continue
                    raise Problem("malformed if construct at %r" % l2)
                return ("if", branches, else_body, line)
            if not rest:
                raise Problem("malformed if: %r" % line)
            return ("if", [(cond, [statement(rest, rest.lower())])], None, line)
        if low == "return":
            return ("return",)
        m = re.match(r"call\s+(\w+)\s*\((.*)\)\s*$", line, re.I)
        if m:
            args = [Parser(tokenize(a)) for a in split_top(m.group(2))]
            asts = []
            for p in args:
                e = p.p_arg()
                if not p.done():
                    raise Problem("trailing tokens in call argument: %r" % line)
                asts.append(e)
            return ("call", m.group(1), asts, line)
        m = re.match(r"forall\s*\(\s*(\w+)\s*=\s*(.*)$", line, re.I)
        if m:
            i0 = low.index("(")
            j0 = match_paren(line, i0)
            head = line[i0 + 1:j0 - 1]
            mm = re.match(r"\s*(\w+)\s*=\s*(.*)$", head)
            if not mm or len(split_top(head)) != 1:
                raise Problem("forall header not supported (one index, no mask): %r" % line)
            bounds = split_top(mm.group(2), ":")
            if len(bounds) != 2:
                raise Problem("forall bounds not supported: %r" % line)
            rest = line[j0:].strip()
            if rest:
                body = [statement(rest, rest.lower())]
            else:
                body = block([r"end\s*forall\b"])
                pos[0] += 1
            for b in body:
                if b[0] != "assign":
                    raise Problem("only assignments are supported inside forall: %r" % line)
            return ("forall", mm.group(1), parse_expr(bounds[0]), parse_expr(bounds[1]), body, line)
        m = re.match(r"do\s+(\w+)\s*=\s*(.*)$", line, re.I)
        if m and not re.match(r"do\s+while\b", low):
            parts = split_top(m.group(2))
            if len(parts) not in (2, 3):
                raise Problem("malformed do: %r" % line)
            body = block([r"end\s*do\b"])
            pos[0] += 1
            return ("do", m.group(1), parse_expr(parts[0]), parse_expr(parts[1]),
                    parse_expr(parts[2]) if len(parts) == 3 else None, body, line)
        m = re.match(r"allocate\s*\(\s*(\w+)\s*\((.*)\)\s*\)\s*$", line, re.I)
        if m:       # phase 4 (f90tri): `allocate(w(e1, e2))` of a local allocatable array
            return ("alloc", m.group(1), split_top(m.group(2)), line)
        if re.match(r"(do\b|while\b|cycle\b|exit\b|goto\b|go\s+to\b|stop\b|allocate\b|deallocate\b|select\b|where\b|"
                    r"forall\b|print\b|write\b|read\b|nullify\b|continue\b|contains\b|use\b|entry\b)", low):
            raise Problem("statement not supported: %r" % line)
        k = find_assign(line)
        if k > 0:
            lhs = parse_expr(line[:k])
            rhs = parse_expr(line[k + 1:])
            if lhs[0] not in ("name", "ref") and not (lhs[0] == "comp" and lhs[1][0] in ("name", "ref")):   # phase 4: `a%f = ..`
                raise Problem("assignment target not supported: %r" % line)
            return ("assign", lhs, rhs, line)
        raise Problem("statement not understood: %r" % line)

    res = block([])
    return res


# ======================================================================================== phase 4 (f90classify): derived types
# RECORDS: lower type name -> {"name", "mod", "fields": [(field name, base, rank, default ast | None)], "src": [lines]}
# filled by `load_records` from the `type :: Name ... end type` definitions of the modules; a derived type is translated to
# a Lean structure `<Name>Rec K` (real -> K, integer -> Int, logical -> Bool, allocatable real (:, :) -> List (List K),
# not allocated = []), `<Name>Rec.dflt` is the default initialisation of the source, `<Name>Rec.elem l i` the element
# `l(i+1)` of an array of records (`dflt` outside the array: a subscript out of bounds is outside the translated semantics)
RECORDS = {}
RECORDS_USED = []


def load_records(mod, lines):
    i = 0
    while i < len(lines):
        m = re.match(r"type\s*(?:,\s*bind\s*\(\s*c\s*\)\s*)?::\s*(\w+)\s*$", lines[i], re.I)
        if not m:
            i += 1
            continue
        name = m.group(1)
        fields, src = [], [lines[i]]
        i += 1
        ok = True
        while i < len(lines) and not re.match(r"end\s*type\b", lines[i], re.I):
            src.append(lines[i])
            mm = re.match(r"^(real|integer|logical)\s*\(\s*(\w+)\s*\)\s*(,\s*allocatable\s*)?::\s*(\w+)\s*(\(\s*:\s*(?:,\s*:\s*)*\))?"
                          r"\s*(?:=\s*(.*))?$", lines[i], re.I)
            if not mm or (mm.group(1).lower(), mm.group(2).lower()) not in (("real", "c_double"), ("integer", "c_int"), ("logical", "c_bool")):
                ok = False
            else:
                rank = mm.group(5).count(":") if mm.group(5) else 0
                if bool(mm.group(3)) != bool(rank) or (rank and (mm.group(1).lower() != "real" or mm.group(6))):
                    ok = False
                else:
                    base = {"real": "real", "integer": "int", "logical": "bool"}[mm.group(1).lower()]
                    fields.append((mm.group(4), base, rank, parse_expr(mm.group(6)) if mm.group(6) else None))
            i += 1
        RECORDS[name.lower()] = {"name": name, "mod": mod, "fields": fields if ok else None, "src": src + ["end type %s" % name]}
    return


def record_of(base):
    """the RECORDS entry of the base `rec:<name>`; Problem when the definition was not understood"""
    rec = RECORDS.get(base[4:])
    if rec is None:
        raise Problem("derived type %s: definition not found" % base[4:])
    if rec["fields"] is None:
        raise Problem("derived type %s: a component declaration is outside the accepted subset" % rec["name"])
    if rec not in RECORDS_USED:
        for f in rec["fields"]:
            if f[3] is None and f[2] == 0:
                raise Problem("derived type %s: component %s has no default initialisation" % (rec["name"], f[0]))
        RECORDS_USED.append(rec)
    return rec


def record_field(rec, field):
    for f in rec["fields"]:
        if f[0].lower() == field.lower():
            return f
    raise Problem("derived type %s has no component %s" % (rec["name"], field))


def parse_decl_record(left, right):
    """`type(Name) [, intent(..)] [, allocatable] :: a, b(3), c(:)`"""
    m = re.match(r"^\s*type\s*\(\s*(\w+)\s*\)\s*(.*)$", left, re.I)
    if not m:
        raise Problem("declaration type not supported: %r" % left.strip())
    intent, alloc = None, False
    for a in split_top(m.group(2).strip().lstrip(",")):
        al = a.lower().replace(" ", "")
        mm = re.match(r"intent\((in|out|inout)\)$", al)
        if mm:
            intent = mm.group(1)
        elif al == "allocatable":
            alloc = True
        elif al:
            raise Problem("attribute not supported: %r" % a)
    out = []
    for ent in split_top(right):
        mm = re.match(r"^(\w+)\s*(?:\((.*)\))?$", ent.strip())
        if not mm:
            raise Problem("entity not supported: %r" % ent)
        shape = split_top(mm.group(2)) if mm.group(2) is not None else []
        out.append({"name": mm.group(1), "base": "rec:" + m.group(1).lower(), "shape": shape, "intent": intent, "param": False,
                    "init": None, "alloc": alloc})
    return out


def emit_records():
    out = []
    if RECORDS_USED:
        out.append("/-! ### derived types of the source (phase 4): one structure per `type`, generated from its definition -/\n")
    for rec in RECORDS_USED:
        nm = rec["name"] + "Rec"
        tys, dfl = [], []
        for fname, base, rank, dflt in rec["fields"]:
            if rank:
                tys.append("  %s : List (List K)" % fname)
                dfl.append("%s := []" % fname)
                continue
            val = Translator().eval_const(dflt, {k: v[2] for k, v in EMIT_PARAMS.items()}) if base != "bool" else None
            if base == "real":
                tys.append("  %s : K" % fname)
                dfl.append("%s := %s" % (fname, lean_real(val).s if val >= 0 else "-" + lean_real(-val).at(P_NEG)))
            elif base == "int":
                tys.append("  %s : Int" % fname)
                dfl.append("%s := %d" % (fname, int(val)))
            else:
                if dflt[0] != "log":
                    raise Problem("default of logical component %s" % fname)
                tys.append("  %s : Bool" % fname)
                dfl.append("%s := %s" % (fname, "true" if dflt[1] else "false"))
        doc = "\n".join("    " + l for l in rec["src"])
        out.append("/-- `type :: %s` (%s.f90)\n```fortran\n%s\n```\n-/\nstructure %s (K : Type) where\n%s\n" % (
            rec["name"], rec["mod"], doc, nm, "\n".join(tys)))
        out.append("/-- default initialisation of `type(%s)` (an allocatable component is not allocated: `[]`) -/\n"
                   "def %s.dflt : %s K := { %s }\n" % (rec["name"], nm, nm, ", ".join(dfl)))
        out.append("/-- `l(i+1)` of an array of `type(%s)` -/\ndef %s.elem (l : List (%s K)) (i : Nat) : %s K := l.getD i %s.dflt\n"
                   % (rec["name"], nm, nm, nm, nm))
        out.append("/-- `l(i+1) = x` -/\ndef %s.setElem (l : List (%s K)) (i : Nat) (x : %s K) : List (%s K) := l.set i x\n"
                   % (nm, nm, nm, nm))
    return out


EMIT_PARAMS = {}


# ======================================================================================== typed translation
class Ty:
    """base: real | int | bool | enum:<Family>; shape: tuple of extents (int literal or lower-case text)"""

    def __init__(self, base, shape=()):
        self.base = base
        self.shape = tuple(shape)

    def __eq__(self, o):
        return isinstance(o, Ty) and self.base == o.base and self.kindshape() == o.kindshape()

    def kindshape(self):
        # what matters for the Lean type
        if len(self.shape) == 1:
            return ("pt",) if self.shape[0] == 2 else ("list",)
        if len(self.shape) == 2:
            return ("mat",)
        return ()

    def lean(self):
        if self.base.startswith("rec:"):                            # phase 4 (f90classify)
            nm = record_of(self.base)["name"] + "Rec K"
            if not self.shape:
                return nm
            if len(self.shape) == 1:
                return "List (%s)" % nm
            raise Problem("rank-2 array of derived type")
        if self.base == "int" and len(self.shape) == 1:              # phase 4 (f90classify)
            return "List Int"
        if self.base == "real":
            return {(): "K", ("pt",): "Pt K", ("list",): "List K", ("mat",): "List (List K)"}[self.kindshape()]
        if self.base == "bool":
            if self.kindshape() == ():
                return "Bool"
            if self.kindshape() in (("list",), ("pt",)):
                return "List Bool"
        if self.base.startswith("enum:") and not self.shape:
            return ENUMS[self.base[5:]][0]
        if self.base == "int" and not self.shape:
            return "Int"
        raise Problem("no Lean type for %s%r" % (self.base, self.shape))

    def __repr__(self):
        return "%s%r" % (self.base, self.shape)


REAL = Ty("real")
BOOL = Ty("bool")

# precedence levels of emitted Lean text
P_ATOM, P_APP, P_NEG, P_MUL, P_ADD, P_REL, P_NOT, P_AND, P_OR, P_LOW = 100, 90, 75, 70, 65, 50, 40, 35, 30, 0


class V:
    """a translated value: type, Lean text, precedence; for logical scalars additionally a logic tree
       ('rel', op, V, V) | ('and'|'or', L, L) | ('not', L) | ('atom', V) | ('const', bool)"""

    def __init__(self, ty, s, p=P_ATOM, logic=None, const=None, lb=None, z=None):
        self.ty, self.s, self.p, self.logic, self.const, self.lb, self.z = ty, s, p, logic, const, lb, z

    def at(self, level):
        return self.s if self.p > level else "(" + self.s + ")"


def lean_real(x):
    """a rational literal as a K-expression with the model's conventions"""
    x = Fr(x)
    if x == 0:
        return V(REAL, "0", P_ATOM, const=x)
    if x == 1:
        return V(REAL, "1", P_ATOM, const=x)
    if x.denominator == 1 and x > 0:
        return V(REAL, "((%d : Nat) : K)" % x.numerator, P_ATOM, const=x)
    return V(REAL, "q %s %d" % ("(%d)" % x.numerator if x.numerator < 0 else "%d" % x.numerator, x.denominator), P_APP, const=x)


def render_prop(l):
    """logic tree -> (Lean Prop text, precedence)"""
    k = l[0]
    if k == "rel":
        op, a, b = l[1], l[2], l[3]
        if op == "==":
            return "%s = %s" % (a.at(P_REL), b.at(P_REL)), P_REL
        if op == "/=":
            return "%s ≠ %s" % (a.at(P_REL), b.at(P_REL)), P_REL
        if op == "<":
            return "%s < %s" % (a.at(P_REL), b.at(P_REL)), P_REL
        if op == "<=":
            return "%s ≤ %s" % (a.at(P_REL), b.at(P_REL)), P_REL
        if op == ">":       # `a > b` is emitted as `b < a` (the model's orientation)
            return "%s < %s" % (b.at(P_REL), a.at(P_REL)), P_REL
        if op == ">=":
            return "%s ≤ %s" % (b.at(P_REL), a.at(P_REL)), P_REL
    if k in ("and", "or"):
        sym, lvl = ("∧", P_AND) if k == "and" else ("∨", P_OR)
        items = flatten_logic(l, k)
        parts = []
        for it in items:
            s, p = render_prop(it)
            parts.append(s if p > lvl else "(" + s + ")")
        return (" %s " % sym).join(parts), lvl
    if k == "not":
        s, p = render_prop(l[1])
        return "¬ " + (s if p >= P_NOT else "(" + s + ")"), P_NOT
    if k == "atom":
        return "%s = true" % l[1].at(P_REL), P_REL
    if k == "const":
        return ("True" if l[1] else "False"), P_ATOM
    raise Problem("internal: logic " + repr(l))


def flatten_logic(l, k):
    """left-nested chain of the same connective -> flat list (the connectives associate to the left in Fortran;
       Lean's ∧ / && associate to the right: the chain is re-associated, which is the identity on Bool / Prop values
       but not syntactically - the theorems absorb it)"""
    if l[0] == k:
        return flatten_logic(l[1], k) + [l[2]]
    return [l]


def render_bool(l):
    """logic tree -> (Lean Bool text, precedence)"""
    k = l[0]
    if k == "rel":
        s, _ = render_prop(l)
        return "decide (%s)" % s, P_APP
    if k in ("and", "or"):
        sym, lvl = ("&&", P_AND) if k == "and" else ("||", P_OR)
        parts = []
        for it in flatten_logic(l, k):
            s, p = render_bool(it)
            parts.append(s if p > lvl else "(" + s + ")")
        return (" %s " % sym).join(parts), lvl
    if k == "not":
        s, p = render_bool(l[1])
        return "!" + (s if p >= P_ATOM else "(" + s + ")"), P_APP
    if k == "atom":
        return l[1].s, l[1].p
    if k == "const":
        return ("true" if l[1] else "false"), P_ATOM
    raise Problem("internal: logic " + repr(l))


def mk_bool(logic):
    s, p = render_bool(logic)
    return V(BOOL, s, p, logic=logic)


class Routine:
    def __init__(self, mod, name):
        self.mod, self.name = mod, name
        self.kind = None
        self.args = []          # dummy names in order
        self.vars = {}          # lower name -> dict(name, ty, intent, lean)
        self.extent_dummies = {}  # lower name -> (array lower name, axis, rank): the array whose shape gives the value
        self.extent_uses = {}     # lower name -> [(array lower name, axis)]: every intent(in) array declared with it
        self.result = None      # function result variable (lower)
        self.outs = []          # lower names of returned variables, in order
        self.ins = []           # lower names of Lean parameters, in order
        self.uses_undef = False
        self.uses_norm2 = False
        self.body = None        # Lean tree
        self.src = []
        self.lean_name = name
        self.orig_args = []     # dummy names before axis reduction
        self.reduced = []       # lower names of the extent dummies whose axes are reduced away
        self.unit = False       # literal-1 axes dropped as well
        self.opaque = False     # interface only (no definition); callers take it as a function argument
        self.externals = []     # opaque routines this routine (transitively) calls


class Translator:
    def __init__(self):
        self.params = {}        # module parameters: lower name -> (name, base, Fraction, module)
        self.routines = {}      # lower name -> Routine (translated)
        self.failed = {}        # lower name -> reason
        self.problems = []
        self.param_used = []    # real parameters referenced (emitted as defs)
        self.enum_used = []     # (family, NAME, value, ctor)
        self.scoped = {}        # phase 4 (f90tri): (module, lower name) -> Routine; a name is looked up in its own module first

    # ------------------------------------------------------------------ module parameters
    def load_parameters(self, mod, lines):
        env = {k: v[2] for k, v in self.params.items()}
        for line in lines:
            if not re.match(r"(real|integer)\s*\(\s*\w+\s*\)\s*,\s*parameter\b", line, re.I):
                continue
            try:
                for d in parse_decl(line):
                    val = self.eval_const(parse_expr(d["init"]), env)
                    env[d["name"].lower()] = val
                    self.params[d["name"].lower()] = (d["name"], d["base"], val, mod)
            except Problem as exc:
                self.problems.append("EXTRACT-PROBLEM srcf90: %s (module parameter): %s" % (mod, exc))

    def eval_const(self, e, env):
        k = e[0]
        if k == "num":
            return e[1]
        if k == "paren":
            return self.eval_const(e[1], env)
        if k == "name":
            if e[1].lower() in env:
                return env[e[1].lower()]
            raise Problem("unknown name %s in constant expression" % e[1])
        if k == "un" and e[1] == "neg":
            return -self.eval_const(e[2], env)
        if k == "bin" and e[1] in ("+", "-", "*", "/", "**"):
            a, b = self.eval_const(e[2], env), self.eval_const(e[3], env)
            if e[1] == "+":
                return a + b
            if e[1] == "-":
                return a - b
            if e[1] == "*":
                return a * b
            if e[1] == "/":
                return a / b
            if b.denominator != 1:
                raise Problem("non-integer exponent")
            return a ** int(b)
        raise Problem("constant expression not supported")

    # ------------------------------------------------------------------ one routine
    def translate(self, mod, name, lines, opts=None):
        opts = opts or {}
        r = Routine(mod, name)
        r.lean_name = opts.get("as", name)      # phase 4 (f90tri): a second routine of the same name (other module)
        hdr, body = find_procedure(lines, name)
        r.kind = hdr.group("kind").lower()
        r.args = [a.strip() for a in hdr.group("args").split(",") if a.strip()]
        r.src = [hdr.group(0).strip()] + body
        # declarations first, then executable statements
        decls = []
        k = 0
        while k < len(body):
            line = body[k]
            low = line.lower()
            if low.startswith("implicit none"):
                k += 1
                continue
            if re.match(r"use\b", low):
                raise Problem("`use` inside the routine not supported")
            if DECL_RX.match(line) and "::" in line:
                try:
                    decls += parse_decl(line)
                except Problem:
                    # phase 4 (f90tri): an interface-only routine may declare LOCALS outside the subset (allocatable workspaces)
                    if not opts.get("opaque") or re.search(r"\bintent\s*\(", line, re.I):
                        raise
                k += 1
                continue
            break
        for line in body[k:]:
            if DECL_RX.match(line) and "::" in line:
                raise Problem("declaration after executable statements: %r" % line)
        stmts = [] if opts.get("opaque") else parse_statements(body[k:])      # phase 4 (f90tri): interface only
        for d in decls:
            if d["param"]:
                raise Problem("local parameter not supported: %s" % d["name"])
            low = d["name"].lower()
            if low in r.vars:
                raise Problem("duplicate declaration of %s" % d["name"])
            r.vars[low] = {"name": d["name"], "base": d["base"], "shape_txt": d["shape"], "intent": d["intent"]}
            if d.get("alloc"):
                # phase 4 (f90tri): the shape is given by the single top-level `allocate` of the array
                al = [x for x in stmts if x[0] == "alloc" and x[1].lower() == low]
                if len(al) != 1 or len(al[0][2]) != len(d["shape"]) or any(e.strip() != ":" for e in d["shape"]):
                    raise Problem("allocatable %s: exactly one top-level `allocate` with its declared rank is supported" % d["name"])
                r.vars[low]["shape_txt"] = list(al[0][2])
                r.vars[low]["alloc"] = True
        if r.kind == "function":
            res = hdr.group("result")
            if not res:
                raise Problem("function without result(...) clause not supported")
            r.result = res.lower()
            if r.result not in r.vars:
                rt = hdr.group("rtype")
                if not rt:
                    raise Problem("result variable %s not declared" % res)
                base = {"real": "real", "integer": "int", "logical": "bool"}[re.match(r"\w+", rt).group(0).lower()]
                r.vars[r.result] = {"name": res, "base": base, "shape_txt": [], "intent": None}
            elif hdr.group("rtype"):
                raise Problem("result type given twice")
        for a in r.args:
            if a.lower() not in r.vars:
                raise Problem("dummy argument %s not declared" % a)
            if r.vars[a.lower()]["intent"] not in ("in", "out") and not (r.vars[a.lower()]["intent"] == "inout" and (opts.get("inout") or opts.get("records"))):
                raise Problem("dummy argument %s: intent(%s) not supported (only in / out)" % (a, r.vars[a.lower()]["intent"]))
        for low, v in r.vars.items():
            if v["intent"] and low not in [a.lower() for a in r.args]:
                raise Problem("%s has an intent but is not a dummy argument" % v["name"])
        r.orig_args = list(r.args)
        if opts.get("reduce") or opts.get("unit"):
            stmts = self.reduce_axes(r, stmts, opts)
        # shapes; integer intent(in) dummies used as extents are dropped from the signature
        for low, v in r.vars.items():
            shape = []
            for axis, ext in enumerate(v["shape_txt"]):
                ext = ext.strip()
                if re.fullmatch(r"\d+", ext):
                    shape.append(int(ext))
                elif v.get("alloc"):        # phase 4 (f90tri): the extents of the `allocate` (integer expressions)
                    shape.append(canon(parse_expr(ext)))
                elif ext == ":" and opts.get("records") and len(v["shape_txt"]) == 1 and low in [a.lower() for a in r.args]:
                    shape.append(":")                               # phase 4 (f90classify): assumed-shape rank-1 dummy
                elif re.fullmatch(r"\w+", ext):
                    el = ext.lower()
                    if el not in r.vars or r.vars[el]["base"] != "int" or r.vars[el]["intent"] != "in" or r.vars[el]["shape_txt"]:
                        raise Problem("extent %s of %s is not an integer intent(in) dummy" % (ext, v["name"]))
                    shape.append(el)
                    if v["intent"] == "in" or v["intent"] == "inout":
                        r.extent_dummies.setdefault(el, (low, axis, len(v["shape_txt"])))
                        r.extent_uses.setdefault(el, []).append((low, axis))
                elif v["intent"] in (None, "out") or opts.get("reduce") or opts.get("unit"):
                    # a local (automatic) array or an output (kernel mode: also an input whose extent is an expression in
                    # the extents of other inputs): any integer expression in extents / literals
                    shape.append(canon(parse_expr(ext)))
                else:
                    raise Problem("extent %r of %s not supported (literal or dummy name only)" % (ext, v["name"]))
            if len(shape) > 2:
                raise Problem("rank %d array %s not supported" % (len(shape), v["name"]))
            v["shape"] = tuple(shape)
            v["shape_ast"] = [None if e.strip() == ":" else parse_expr(e) for e in v["shape_txt"]]
        for el in list(r.extent_dummies):
            pass
        for low, v in r.vars.items():
            if v["base"] == "int" and v["intent"] == "in" and not v["shape"] and low not in r.extent_dummies:
                # an integer input that is not the extent of an intent(in) array
                if not (opts.get("reduce") or opts.get("unit") or opts.get("ints") or opts.get("records")):
                    raise Problem("integer input %s is not the extent of an intent(in) array" % v["name"])
        # enum typed integer outputs / locals: every assignment is a Family_NAME parameter
        self.assign_enum_types(r, stmts)
        for low, v in r.vars.items():
            if v["base"] == "int" and low not in r.extent_dummies and not v["base"].startswith("enum:"):
                v["ty"] = Ty("int", v["shape"])
            else:
                v["ty"] = Ty(v["base"], v["shape"])
        # Lean names
        taken = set()
        for low, v in r.vars.items():
            nm = v["name"]
            if nm in LEAN_KEYWORDS or nm.lower() in self.routines or nm.lower() in ("undef", "norm2") \
                    or re.fullmatch(r"loop\d+|r\d+_\w+", nm) or nm.lower() in self.params:
                nm = nm + "_"
            if nm in taken or (nm != v["name"] and nm.lower() in r.vars):
                raise Problem("name clash after renaming %s" % v["name"])
            taken.add(nm)
            v["lean"] = nm
        r.ins = [a.lower() for a in r.args if r.vars[a.lower()]["intent"] in ("in", "inout") and a.lower() not in r.extent_dummies]
        r.outs = [a.lower() for a in r.args if r.vars[a.lower()]["intent"] in ("out", "inout")]
        if r.kind == "function":
            if r.outs:
                raise Problem("function with intent(out) dummies not supported")
            r.outs = [r.result]
        if not r.outs:
            raise Problem("no output")
        for o in r.outs + r.ins:
            r.vars[o]["ty"].lean()   # must have a Lean type
        if opts.get("opaque"):
            # declared limitation: only the interface is read; callers receive the routine as an explicit function argument
            r.opaque = True
            r.body = None
            return r
        ctx = Ctx(self, r)
        r.body = ctx.block(stmts, 0, State(set(r.ins)), ctx.finish)
        r.uses_undef, r.uses_norm2 = ctx.uses_undef, ctx.uses_norm2
        r.uses_undef_int = ctx.uses_undef_int                       # phase 4 (f90classify)
        r.externals = ctx.externals
        return r

    # ------------------------------------------------------------------ axis reduction
    def reduce_axes(self, r, stmts, opts):
        """UNIFORM AXES.  `opts["reduce"]` names integer intent(in) extent dummies (`dimension_`, `num_vals`); an axis
        declared with such an extent (and, with `opts["unit"]`, an axis of literal extent 1) is *uniform* if every
        reference to the array has there `:` or the index of an enclosing `forall (v = 1:<extent>)` (resp. `1`), and the
        extent is used nowhere else.  The routine then acts independently and identically on every index of that axis;
        the translation is its action on ONE index: the axis is removed from every declaration and reference, the
        `forall` over it is replaced by its body, the extent dummy disappears.  Anything else is a Problem."""
        red = [x.lower() for x in opts.get("reduce", [])]
        unit = bool(opts.get("unit"))
        for x in red:
            if x not in r.vars or r.vars[x]["base"] != "int" or r.vars[x]["intent"] != "in" or r.vars[x]["shape_txt"]:
                raise Problem("axis reduction: %s is not an integer intent(in) scalar dummy" % x)
        r.reduced, r.unit = red, unit
        # BLOCK SPLIT: an array whose first extent is `2 * <uniform extent>` (jacobian_both: the rows of B_s followed by the
        # rows of B_t) is two arrays `<name>_lo`, `<name>_hi` carrying the uniform axis; references must address one block
        # (`a(:d, ..)` / `a(d + 1:, ..)`) or the whole array in an elementwise assignment `a = expr(a)`
        split = {}
        for low, v in list(r.vars.items()):
            if v["shape_txt"] and canon(parse_expr(v["shape_txt"][0])) in ["(2*%s)" % x for x in red]:
                d = canon(parse_expr(v["shape_txt"][0]))[3:-1]
                split[low] = d
                names = []
                for suf in ("_lo", "_hi"):
                    nv = dict(v)
                    nv["name"] = v["name"] + suf
                    nv["shape_txt"] = [d] + list(v["shape_txt"][1:])
                    r.vars[low + suf] = nv
                    names.append(v["name"] + suf)
                del r.vars[low]
                r.args = [x for a in r.args for x in (names if a.lower() == low else [a])]
        if split:
            stmts = self.split_blocks(r, stmts, split)
        for low, v in r.vars.items():
            exts = [e.strip().lower() for e in v["shape_txt"]]
            v["mask"] = [(e in red) or (unit and e == "1") for e in exts]
            v["orig_exts"] = exts
            v["shape_txt"] = [e for e, m in zip(v["shape_txt"], v["mask"]) if not m]
        r.args = [a for a in r.args if a.lower() not in red]
        out = self.rw_stmts(r, stmts, {})

        def names(e, acc):
            if isinstance(e, tuple):
                if e and e[0] == "name":
                    acc.add(e[1].lower())
                for x in e[1:]:
                    names(x, acc)
            elif isinstance(e, list):
                for x in e:
                    names(x, acc)
        acc = set()
        names(out, acc)
        for low, v in r.vars.items():
            for e in v["shape_txt"]:
                names(parse_expr(e), acc)
        for x in red:
            if x in acc:
                raise Problem("axis reduction: %s is used other than as the extent of a uniform axis" % r.vars[x]["name"])
            del r.vars[x]
        return out

    def split_blocks(self, r, stmts, split):
        def sub(e, suf):
            if isinstance(e, tuple):
                if e and e[0] == "name" and e[1].lower() in split:
                    return ("name", e[1] + suf)
                return tuple(sub(x, suf) for x in e)
            if isinstance(e, list):
                return [sub(x, suf) for x in e]
            return e

        def has(e):
            if isinstance(e, tuple):
                if e and e[0] in ("name", "ref") and isinstance(e[1], str) and e[1].lower() in split:
                    return True
                return any(has(x) for x in e)
            if isinstance(e, list):
                return any(has(x) for x in e)
            return False

        def ref(e):
            if isinstance(e, list):
                return [ref(x) for x in e]
            if not isinstance(e, tuple):
                return e
            if e and e[0] == "ref" and e[1].lower() in split:
                d = split[e[1].lower()]
                a0 = e[2][0]
                if a0[0] == "slice" and len(a0) == 3 and a0[1] is None and a0[2] is not None and canon(a0[2]) == d:
                    return ("ref", e[1] + "_lo", [("slice", None, None)] + [ref(x) for x in e[2][1:]])
                if a0[0] == "slice" and len(a0) == 3 and a0[2] is None and a0[1] is not None and canon(a0[1]) == "(%s+1)" % d:
                    return ("ref", e[1] + "_hi", [("slice", None, None)] + [ref(x) for x in e[2][1:]])
                raise Problem("block split: reference to %s addresses neither `:%s` nor `%s + 1:`" % (e[1], d, d))
            if e and e[0] == "name" and e[1].lower() in split:
                raise Problem("block split: whole-array reference to %s outside an elementwise assignment" % e[1])
            return tuple(ref(x) for x in e)

        out = []
        for st in stmts:
            if st[0] == "assign" and st[1][0] == "name" and st[1][1].lower() in split:
                for suf in ("_lo", "_hi"):
                    out.append(("assign", sub(st[1], suf), sub(st[2], suf), st[3]))
            elif st[0] == "assign":
                out.append(("assign", ref(st[1]), ref(st[2]), st[3]))
            elif st[0] == "if":
                out.append(("if", [(ref(c), self.split_blocks(r, b, split)) for c, b in st[1]],
                            None if st[2] is None else self.split_blocks(r, st[2], split), st[3]))
            elif st[0] == "do":
                out.append(("do", st[1], st[2], st[3], st[4], self.split_blocks(r, st[5], split), st[6]))
            elif has(st):
                raise Problem("block split: statement not supported: %r" % (st[-1],))
            else:
                out.append(st)
        return out

    def rw_ref(self, r, name, args, fv):
        v = r.vars[name.lower()]
        mask = v.get("mask", [False] * len(args))
        if len(args) != len(mask):
            raise Problem("wrong number of subscripts for %s" % name)
        new = []
        for a, m, ext in zip(args, mask, v["orig_exts"] if "orig_exts" in v else [None] * len(args)):
            if not m:
                new.append(self.rw_expr(r, a, fv))
                continue
            if a == ("slice", None, None):
                continue
            if a[0] == "name" and fv.get(a[1].lower()) == ext:
                continue
            if ext == "1" and a[0] == "num" and a[1] == 1 and not a[2]:
                continue
            raise Problem("axis reduction: subscript of the uniform axis (%s) of %s is neither `:` nor the forall index" % (ext, name))
        if not new:
            return ("name", name)
        if all(x == ("slice", None, None) for x in new):
            return ("name", name)
        return ("ref", name, new)

    def rw_expr(self, r, e, fv):
        k = e[0]
        if k == "name":
            if e[1].lower() in fv:
                raise Problem("axis reduction: forall index %s is used as a value" % e[1])
            return e
        if k in ("num", "log"):
            return e
        if k == "paren":
            return ("paren", self.rw_expr(r, e[1], fv))
        if k == "un":
            return ("un", e[1], self.rw_expr(r, e[2], fv))
        if k == "bin":
            return ("bin", e[1], self.rw_expr(r, e[2], fv), self.rw_expr(r, e[3], fv))
        if k == "arr":
            return ("arr", [self.rw_expr(r, x, fv) for x in e[1]])
        if k == "slice":
            return tuple(["slice"] + [None if x is None else self.rw_expr(r, x, fv) for x in e[1:]])
        if k == "comp":                                             # phase 4 (f90classify)
            return ("comp", self.rw_expr(r, e[1], fv), e[2])
        if k == "ref":
            if e[1].lower() in r.vars:
                return self.rw_ref(r, e[1], e[2], fv)
            low = e[1].lower()
            if low in self.routines:
                return ("ref", e[1], self.rw_call_args(r, self.routines[low], e[2], fv))
            return ("ref", e[1], [self.rw_expr(r, a, fv) for a in e[2]])
        raise Problem("internal: rw_expr " + k)

    def rw_call_args(self, r, cal, actuals, fv, lifts=None):
        if lifts is None:
            lifts = []
            own = True
        else:
            own = False
        if len(actuals) != len(cal.orig_args):
            raise Problem("wrong number of arguments in a reference to %s" % cal.name)
        out = []
        for d, a in zip(cal.orig_args, actuals):
            dl = d.lower()
            if dl in cal.reduced:
                ok = (a[0] == "name" and a[1].lower() in r.reduced) or (a[0] == "num" and a[1] == 1 and not a[2])
                if not ok:
                    # LIFTING: the caller keeps this axis; the call is the callee applied to every index of the axis
                    # (a map over the rows).  Only for an extent that is the FIRST axis of every array carrying it.
                    for xl, xv in cal.vars.items():
                        ex = xv.get("orig_exts", [])
                        if dl in ex and (ex.index(dl) != 0 or ex.count(dl) != 1):
                            raise Problem("axis reduction: %s passes %s for the uniform extent %s of %s, which is not a "
                                          "first axis there" % (r.name, canon(a), d, cal.name))
                    lifts.append((dl, canon(a)))
                continue
            if dl not in cal.vars and dl + "_lo" in cal.vars and dl + "_hi" in cal.vars:
                # phase 4 (f90tri): a BLOCK SPLIT dummy (`new_nodes(2 * dimension_, n)` of jacobian_both) receives the
                # actual once per block
                ra = self.rw_expr(r, a, fv)
                out.append(("blk", ra, "_lo"))
                out.append(("blk", ra, "_hi"))
                continue
            dv = cal.vars[dl]
            if any(dv.get("mask", [])) and a[0] == "arr":
                if all(dv["mask"]) and len(a[1]) == 1:
                    out.append(self.rw_expr(r, a[1][0], fv))
                    continue
                raise Problem("array constructor passed to %s of %s" % (d, cal.name))
            out.append(self.rw_expr(r, a, fv))
        if own and lifts:
            raise Problem("axis reduction: a function reference to %s would have to be lifted over an axis" % cal.name)
        return out

    def rw_stmts(self, r, stmts, fv):
        out = []
        for s in stmts:
            k = s[0]
            if k == "return":
                out.append(s)
            elif k == "assign":
                lhs = s[1]
                if lhs[0] == "name" and lhs[1].lower() in fv:
                    raise Problem("assignment to a forall index")
                if lhs[0] == "comp":                                # phase 4 (f90classify)
                    out.append(("assign", self.rw_expr(r, lhs, fv), self.rw_expr(r, s[2], fv), s[3]))
                    continue
                nl = self.rw_ref(r, lhs[1], lhs[2], fv) if lhs[0] == "ref" else lhs
                if lhs[1].lower() not in r.vars:
                    raise Problem("assignment to undeclared %s" % lhs[1])
                out.append(("assign", nl, self.rw_expr(r, s[2], fv), s[3]))
            elif k == "if":
                out.append(("if", [(self.rw_expr(r, c, fv), self.rw_stmts(r, b, fv)) for c, b in s[1]],
                            None if s[2] is None else self.rw_stmts(r, s[2], fv), s[3]))
            elif k == "do":
                out.append(("do", s[1], self.rw_expr(r, s[2], fv), self.rw_expr(r, s[3], fv),
                            None if s[4] is None else self.rw_expr(r, s[4], fv), self.rw_stmts(r, s[5], fv), s[6]))
            elif k == "forall":
                _, var, lo, hi, body, text = s
                if hi[0] == "name" and hi[1].lower() in r.reduced:
                    if not (lo[0] == "num" and lo[1] == 1):
                        raise Problem("axis reduction: forall over a uniform axis must start at 1: %r" % text)
                    fv2 = dict(fv)
                    fv2[var.lower()] = hi[1].lower()
                    out += self.rw_stmts(r, body, fv2)
                else:
                    out.append(("forall", var, self.rw_expr(r, lo, fv), self.rw_expr(r, hi, fv), self.rw_stmts(r, body, fv), text))
            elif k == "call":
                low = s[1].lower()
                if low in self.routines:
                    lifts = []
                    args = self.rw_call_args(r, self.routines[low], s[2], fv, lifts)
                    out.append(("call", s[1], args, s[3], lifts))
                else:
                    out.append(("call", s[1], [self.rw_expr(r, a, fv) for a in s[2]], s[3]))
            elif k == "alloc":      # phase 4 (f90tri)
                if s[1].lower() not in r.vars or not r.vars[s[1].lower()].get("alloc"):
                    raise Problem("allocate of %s, which is not a local allocatable array" % s[1])
                out.append(s)
            else:
                raise Problem("internal: rw_stmts " + k)
        return out

    def assign_enum_types(self, r, stmts):
        targets = {}

        def walk(ss):
            for s in ss:
                if s[0] == "assign" and s[1][0] == "name":
                    targets.setdefault(s[1][1].lower(), []).append(s[2])
                elif s[0] == "if":
                    for _, b in s[1]:
                        walk(b)
                    if s[2]:
                        walk(s[2])
                elif s[0] == "do":
                    walk(s[5])
        walk(stmts)
        for low, v in r.vars.items():
            if v["base"] != "int" or v["shape"] or low in r.extent_dummies:
                continue
            rhs = targets.get(low, [])
            fams = set()
            for e in rhs:
                fam = None
                if e[0] == "name" and e[1].lower() in self.params and "_" in e[1]:
                    pre = self.params[e[1].lower()][0].split("_", 1)[0]
                    if pre in ENUMS:
                        fam = pre
                fams.add(fam)
            if rhs and len(fams) == 1 and None not in fams:
                v["base"] = "enum:" + fams.pop()


class State:
    """per-path translation state: the set of variables that have a value on this path and the active do variables
       (lower name -> ('const', n) for an unrolled loop, ('var', lower bound) for a loop translated to a fold)"""

    def __init__(self, defined, loops=None, poison=None):
        self.defined = set(defined)
        self.loops = dict(loops or {})
        self.poison = dict(poison or {})      # lower name -> token of the loop that must carry it if it is read
        self.sizes = {}                       # phase 4 (f90classify): int local -> (text `size(<array>,k)` it holds, names read)

    def copy(self):
        c = State(self.defined, self.loops, self.poison)
        c.sizes = dict(self.sizes)            # phase 4 (f90classify)
        return c

    def assigned(self, low):
        self.defined.add(low)
        self.poison.pop(low, None)
        self.drop_sizes([low])                # phase 4 (f90classify)

    def drop_sizes(self, lows):
        """phase 4 (f90classify): forget `n = size(a, k)` facts about / depending on the variables `lows`"""
        for k in [k for k, (_, names) in self.sizes.items() if k in lows or any(x in names for x in lows)]:
            del self.sizes[k]


class Ctx:
    def __init__(self, tr, r):
        self.tr, self.r = tr, r
        self.uses_undef = False
        self.uses_undef_int = False                                 # phase 4 (f90classify)
        self.uses_norm2 = False
        self.ncall = 0
        self.nloop = 0
        self.externals = []
        self.on_return = self.default_return

    # ------------------------------------------------------------------ trees
    # ('let', name, text, body) ('ite', condtext, then, else) ('ret', text)
    def finish_text(self, st):
        items = [self.read_var(o, st, for_return=True).s for o in self.r.outs]
        return items[0] if len(items) == 1 else "(" + ", ".join(items) + ")"

    def finish(self, st):
        return ("ret", self.finish_text(st))

    def default_return(self, st, value=None):
        """`return` at the top level of the routine (value: the returned tuple when it is already computed)"""
        return ("ret", value) if value is not None else self.finish(st)

    def ret_type(self):
        return " × ".join(self.r.vars[o]["ty"].lean() for o in self.r.outs)

    def undef_of(self, ty, what):
        ks = ty.kindshape()
        if ty.base == "int" and not ty.shape:                       # phase 4 (f90classify): an undefined integer is `undefI : Int`
            self.uses_undef_int = True
            return V(ty, "undefI", z="undefI")
        if ty.base.startswith("rec:") and not ty.shape:             # phase 4 (f90classify): default initialisation
            return V(ty, "(%sRec.dflt : %sRec K)" % (record_of(ty.base)["name"], record_of(ty.base)["name"]))
        if ty.base == "real":
            self.uses_undef = True
            if ks == ():
                return V(ty, "undef")
            if ks == ("pt",):
                return V(ty, "(undef, undef)")
            if ks == ("mat",) and all(isinstance(e, int) for e in ty.shape):
                rowtxt = "[" + ", ".join(["undef"] * ty.shape[1]) + "]"
                return V(ty, "[" + ", ".join([rowtxt] * ty.shape[0]) + "]")
        raise Problem("%s: no representation for an undefined %s value" % (what, ty))

    def read_var(self, low, st, for_return=False):
        v = self.r.vars[low]
        if low in st.loops:
            kind, n = st.loops[low][0], st.loops[low][1]
            if kind == "const":
                return V(Ty("int"), str(n), const=Fr(n), lb=n)
            return V(Ty("int"), v["lean"], lb=n)
        if low in st.poison:
            raise PoisonRead(low, st.poison[low])
        if low in self.r.extent_dummies:
            arr, axis, rank = self.r.extent_dummies[low]
            av = self.r.vars[arr]["lean"]
            if rank == 1 or axis == 0:
                return V(Ty("int"), "List.length %s" % av, P_APP, lb=1)
            return V(Ty("int"), "ncols %s" % av, P_APP, lb=1)
        if low not in st.defined:
            if for_return and v["ty"].base == "real" and v["ty"].kindshape() == ("list",):
                # phase 4 (f90tri): a rank-1 output that is unassigned on this path: every element `undef`
                return self.list_base(low, st, "output %s unassigned at return" % v["name"])
            if (v["ty"].base == "real" and v["ty"].kindshape() == ("mat",) and not all(isinstance(e, int) for e in v["ty"].shape)
                    and v["intent"] is None):
                # phase 4 (f90tri): a local rank-2 array that is unassigned on this path: every element `undef`
                return self.mat_base(low, st, "read of unassigned %s" % v["name"])
            return self.undef_of(v["ty"], ("output %s unassigned at return" if for_return else "read of unassigned %s") % v["name"])
        val = V(v["ty"], v["lean"])
        if v["ty"].base == "bool" and not v["ty"].shape:
            val.logic = ("atom", V(v["ty"], v["lean"]))
        return val

    # ------------------------------------------------------------------ statements
    def block(self, stmts, i, st, k):
        if i >= len(stmts):
            return k(st)
        s = stmts[i]
        rest = lambda st2: self.block(stmts, i + 1, st2, k)     # noqa: E731
        if s[0] == "return":
            return self.on_return(st)
        if s[0] == "assign":
            return self.assign(s, st, rest)
        if s[0] == "call":
            return self.call_stmt(s, st, rest)
        if s[0] == "if":
            return self.if_stmt(s[1], s[2], 0, st, rest)
        if s[0] == "do":
            return self.do_stmt(s, st, rest)
        if s[0] == "forall":
            return self.forall_stmt(s, st, rest)
        if s[0] == "alloc":
            return self.alloc_stmt(s, st, rest)
        raise Problem("internal: statement " + s[0])

    def alloc_stmt(self, s, st, rest):
        """phase 4 (f90tri): `allocate(w(..))`: the array exists from here on, every element undefined"""
        low = s[1].lower()
        v = self.r.vars.get(low)
        if v is None or not v.get("alloc"):
            raise Problem("allocate of %s, which is not a local allocatable array" % s[1])
        if any(x[0] == "var" for x in st.loops.values()) or low in st.defined:
            raise Problem("allocate inside a loop / of an allocated array: %r" % s[3])
        if not (v["ty"].base == "real" and v["ty"].kindshape() == ("list",)):
            raise Problem("allocate of %s: only arrays that are rank 1 after axis reduction" % s[1])
        self.uses_undef = True
        st2 = st.copy()
        st2.assigned(low)
        return ("let", v["lean"], "List.replicate %s undef" % self.extent_val(low, 0, st).at(P_APP), rest(st2))

    def if_joined(self, branches, else_body, st, rest):
        """inside a fold-translated loop: an `if` construct without `return` is translated as
           `let (modified variables) := if c then (...) else (...)` followed ONCE by the continuation (no duplication).
           Returns None if the construct does not qualify."""
        if not any(v[0] == "var" for v in st.loops.values()):
            return None
        acc, rets = set(), []
        per = []
        for _, b in branches:
            a1 = set()
            self.assigned_in(b, a1, rets)
            per.append(a1)
            acc |= a1
        if else_body is not None:
            a1 = set()
            self.assigned_in(else_body, a1, rets)
            per.append(a1)
            acc |= a1
        else:
            per.append(set())
        if rets or not acc:
            return None
        mods = [m for m in self.r.vars if m in acc]
        for m in mods:
            if not (m in st.defined or all(m in a1 for a1 in per)) or m in st.poison:
                return None          # not defined on every path after the construct: keep the duplicating translation
        def tup(st3):
            items = [self.read_var(m, st3).s for m in mods]
            return items[0] if len(items) == 1 else "(" + ", ".join(items) + ")"
        saved = self.on_return
        def no_return(st3, value=None):
            raise Problem("internal: return inside a joined if")
        self.on_return = no_return
        try:
            tree = self.if_stmt(branches, else_body, 0, st, lambda st3: ("ret", tup(st3)), joined=True)
        finally:
            self.on_return = saved
        st2 = st.copy()
        for m in mods:
            st2.assigned(m)
        self.njoin = getattr(self, "njoin", 0) + 1
        after = rest(st2)
        if len(mods) == 1:
            return ("letblock", self.r.vars[mods[0]]["lean"], tree, after)
        tmp = "j%d" % self.njoin
        for k, m in reversed(list(enumerate(mods))):
            after = ("let", self.r.vars[m]["lean"], self.proj(tmp, k, len(mods)), after)
        return ("letblock", tmp, tree, after)

    def if_stmt(self, branches, else_body, j, st, rest, joined=False):
        if j == 0 and not joined:
            t = self.if_joined(branches, else_body, st, rest)
            if t is not None:
                return t
        if j >= len(branches):
            if else_body is None:
                return rest(st)
            return self.block(else_body, 0, st.copy(), rest)
        cond, body = branches[j]
        c = self.expr(cond, st)
        if c.ty != BOOL or c.logic is None:
            raise Problem("if condition is not a logical scalar")
        ctext, _ = render_prop(c.logic)
        then = self.block(body, 0, st.copy(), rest)
        els = self.if_stmt(branches, else_body, j + 1, st.copy(), rest, joined=True)
        return ("ite", ctext, then, els)

    def do_stmt(self, s, st, rest):
        _, var, lo, hi, step, body, text = s
        low = var.lower()
        if low not in self.r.vars or self.r.vars[low]["base"] != "int" or self.r.vars[low]["shape"]:
            raise Problem("do variable %s is not a declared integer scalar" % var)
        if low in st.loops:
            raise Problem("nested use of do variable %s" % var)
        if low in self.r.extent_dummies or self.r.vars[low]["intent"]:
            raise Problem("do variable %s is a dummy argument" % var)
        try:
            st_v = self.tr.eval_const(step, {}) if step is not None else Fr(1)
        except Problem:
            raise Problem("do loop whose step is not a literal: %r" % text)
        if st_v == -1:
            try:
                self.tr.eval_const(lo, {})
            except Problem:
                return self.do_desc(s, st, rest)
        try:
            lo_v = self.tr.eval_const(lo, {})
        except Problem:
            raise Problem("do loop whose lower bound / step is not a literal: %r" % text)
        if st_v == 0 or any(x.denominator != 1 for x in (lo_v, st_v)):
            raise Problem("do loop bounds not integers: %r" % text)
        try:
            hi_v = self.tr.eval_const(hi, {})
        except Problem:
            hi_v = None
        if hi_v is not None:
            # literal bounds: unrolled
            if hi_v.denominator != 1:
                raise Problem("do loop bounds not integers: %r" % text)
            vals = list(range(int(lo_v), int(hi_v) + (1 if st_v > 0 else -1), int(st_v)))
            if len(vals) > 8:
                raise Problem("do loop with more than 8 iterations not unrolled: %r" % text)

            def run(idx, st2):
                st3 = st2.copy()
                if idx >= len(vals):
                    st3.loops.pop(low, None)
                    return rest(st3)
                st3.loops[low] = ("const", vals[idx])
                return self.block(body, 0, st3, lambda st4: run(idx + 1, st4))
            return run(0, st)
        return self.do_fold(low, int(lo_v), st_v, hi, body, text, st, rest)

    def do_desc(self, s, st, rest):
        """`do i = hi, lo, -1` with a literal `lo >= 1`: the fold over the reversed range"""
        _, var, first, last, step, body, text = s
        return self.do_fold(var.lower(), None, Fr(-1), None, body, text, st, rest, desc=(first, last))

    # -- a loop `do i = <literal lo>, <integer expression>`: a left fold over `List.range' lo (hi + 1 - lo)`
    def assigned_in(self, stmts, acc, rets):
        for s in stmts:
            if s[0] == "assign" and s[1][0] == "comp":              # phase 4 (f90classify)
                acc.add(s[1][1][1].lower())
            elif s[0] == "assign":
                acc.add(s[1][1].lower())
            elif s[0] == "call":
                cal = self.callee(s[1])
                if len(s[2]) != len(cal.args):
                    raise Problem("wrong number of arguments in %r" % s[3])
                for d, a in zip(cal.args, s[2]):
                    if cal.vars[d.lower()]["intent"] in ("out", "inout"):
                        if a[0] == "ref" and a[1].lower() in self.r.vars and (self.r.reduced or self.r.unit):
                            acc.add(a[1].lower())       # phase 4 (f90tri): an output bound to a section of a variable
                            continue
                        if a[0] != "name":
                            raise Problem("output argument is not a whole variable in %r" % s[3])
                        acc.add(a[1].lower())
            elif s[0] == "if":
                for _, b in s[1]:
                    self.assigned_in(b, acc, rets)
                if s[2]:
                    self.assigned_in(s[2], acc, rets)
            elif s[0] == "do":
                self.assigned_in(s[5], acc, rets)
            elif s[0] == "forall":
                self.assigned_in(s[4], acc, rets)
            elif s[0] == "return":
                rets.append(True)

    @staticmethod
    def proj(base, k, n):
        if n == 1:
            return base
        return base + "".join([".2"] * k) + (".1" if k < n - 1 else "")

    def do_fold(self, low, lo_v, st_v, hi, body, text, st, rest, desc=None):
        if desc is not None:
            first, last = desc
            try:
                lo_c = self.tr.eval_const(last, {})
            except Problem:
                raise Problem("descending do loop whose final value is not a literal: %r" % text)
            if lo_c.denominator != 1 or lo_c < 0:
                raise Problem("descending do loop with final value < 0: %r" % text)
            lo_v, hi = int(lo_c), first
        elif st_v != 1:
            raise Problem("do loop with a step other than 1 and a non-literal bound: %r" % text)
        if lo_v < 0:
            raise Problem("do loop with lower bound < 0 and a non-literal upper bound: %r" % text)
        acc, rets = set(), []
        self.assigned_in(body, acc, rets)
        if low in acc:
            raise Problem("assignment to do variable in %r" % text)
        for m in acc:
            if m not in self.r.vars:
                raise Problem("assignment to undeclared %s" % m)
            if m in st.loops:
                raise Problem("assignment to do variable %s" % self.r.vars[m]["name"])
        mods = [m for m in self.r.vars if m in acc]      # declaration order
        has_ret = bool(rets)
        # The loop state holds the variables that carry a value from one iteration to the next or out of the loop.
        # Start with none; a variable assigned in the body is "poisoned" at the start of an iteration and after the
        # loop: reading it there (before a new assignment) aborts the attempt and puts it into the loop state.
        token = object()
        carried = set()
        snap = (self.ncall, self.nloop, self.uses_undef, self.uses_norm2, len(self.tr.param_used), len(self.tr.enum_used))
        while True:
            try:
                return self.do_fold_with(low, lo_v, hi, body, text, st, rest, mods, [m for m in mods if m in carried],
                                         has_ret, token, desc is not None)
            except PoisonRead as exc:
                if exc.token is not token:
                    raise
                carried.add(exc.var)
                self.ncall, self.nloop, self.uses_undef, self.uses_norm2 = snap[:4]
                del self.tr.param_used[snap[4]:]
                del self.tr.enum_used[snap[5]:]

    def do_fold_with(self, low, lo_v, hi, body, text, st, rest, mods, carried, has_ret, token, rev=False):
        try:
            hi_val = self.int_expr(hi, st, text, trunc_ok=True)
            count = "%s + 1 - %d" % (hi_val.at(P_ADD), lo_v)
        except Problem:
            if not self.is_int_ast(hi, st):
                raise
            z, _ = self.int_value(hi, st)
            count = "Int.toNat (%s + 1 - %d)" % (z, lo_v)
        local = [m for m in mods if m not in carried]
        comps = []
        for m in carried:
            v = self.r.vars[m]
            if m in st.defined:
                init = self.read_var(m, st).s
            elif v["ty"].base == "real" and v["ty"].kindshape() == ("list",):
                init = self.list_base(m, st, text).at(P_APP)
            else:
                init = self.undef_of(v["ty"], "loop-carried %s" % v["name"]).s
            comps.append((m, v["lean"], v["ty"].lean(), init))
        if not comps and not has_ret:
            # nothing is carried and nothing is returned: the loop has no effect that is read afterwards
            st2 = st.copy()
            for m in local:
                st2.poison[m] = token
            return rest(st2)
        self.nloop += 1
        lname = "loop%d" % self.nloop
        types = [c[2] for c in comps]
        if has_ret:
            types = ["Option (%s)" % self.ret_type()] + types
        n = len(types)
        off = 1 if has_ret else 0
        ivar = self.r.vars[low]["lean"]

        def state_tuple(st3, first=None):
            items = ([first] if has_ret else []) + [self.read_var(m, st3).s for m in carried]
            return items[0] if len(items) == 1 else "(" + ", ".join(items) + ")"

        st_body = st.copy()
        st_body.drop_sizes(mods)                                    # phase 4 (f90classify)
        st_body.defined |= set(carried)
        for m in local:
            st_body.poison[m] = token
        st_body.loops[low] = ("var", lo_v, hi)
        saved = self.on_return

        def loop_return(st3, value=None):
            val = value if value is not None else self.finish_text(st3)
            if not re.fullmatch(r"\w+|\([^()]*\)", val):
                val = "(" + val + ")"
            return ("ret", state_tuple(st3, "some " + val))
        self.on_return = loop_return
        try:
            inner = self.block(body, 0, st_body, lambda st3: ("ret", state_tuple(st3, "none")))
        finally:
            self.on_return = saved
        for k, (m, lean, _, _) in reversed(list(enumerate(comps))):
            inner = ("let", lean, self.proj("st", k + off, n), inner)
        if has_ret:
            inner = ("matchopt", self.proj("st", 0, n), None, ("ret", "st"), inner)
        st2 = st.copy()
        st2.drop_sizes(mods)                                        # phase 4 (f90classify)
        st2.defined |= set(carried)
        for m in local:
            st2.poison[m] = token
        after = rest(st2)
        for k, (m, lean, _, _) in reversed(list(enumerate(comps))):
            after = ("let", lean, self.proj(lname, k + off, n), after)
        if has_ret:
            after = ("matchopt", self.proj(lname, 0, n), "r", saved(st2, "r"), after)
        init = ", ".join((["none"] if has_ret else []) + [c[3] for c in comps])
        if n > 1:
            init = "(" + init + ")"
        rng = "(List.range' %d (%s))" % (lo_v, count)
        if rev:
            rng = "(List.reverse %s)" % rng
        head = "fun (st : %s) (%s : Nat) =>" % (" × ".join(types), ivar)
        return ("fold", lname, head, inner, init, rng, after)

    def lin_form(self, e, st):
        """affine form {atom: coeff, 1: const} of an integer expression over extents and do variables, or None"""
        k = e[0]
        if k == "paren":
            return self.lin_form(e[1], st)
        if k == "num" and not e[2]:
            return {1: int(e[1])}
        if k == "name":
            low = e[1].lower()
            if low in st.loops:
                if st.loops[low][0] == "const":
                    return {1: int(st.loops[low][1])}
                return {low: 1}
            if low in self.r.extent_dummies:
                return {low: 1}
            if low in self.tr.params and self.tr.params[low][1] == "int":
                return {1: int(self.tr.params[low][2])}
            return None
        if k == "un" and e[1] == "neg":
            f = self.lin_form(e[2], st)
            return None if f is None else {a: -c for a, c in f.items()}
        if k == "bin" and e[1] in ("+", "-"):
            f, g = self.lin_form(e[2], st), self.lin_form(e[3], st)
            if f is None or g is None:
                return None
            out = dict(f)
            for a, c in g.items():
                out[a] = out.get(a, 0) + (c if e[1] == "+" else -c)
            return out
        if k == "bin" and e[1] == "*":
            f, g = self.lin_form(e[2], st), self.lin_form(e[3], st)
            if f is None or g is None:
                return None
            if set(f) <= {1}:
                return {a: c * f.get(1, 0) for a, c in g.items()}
            if set(g) <= {1}:
                return {a: c * g.get(1, 0) for a, c in f.items()}
        return None

    def lower_bound(self, e, st):
        """a lower bound of the integer expression `e` from: extents >= 1, `lo <= i <= hi` for the do / forall variables"""
        f = self.lin_form(e, st)
        if f is None:
            return None
        for _ in range(16):
            lv = [a for a in f if a != 1 and a in st.loops and f[a] != 0]
            if not lv:
                break
            x = lv[0]
            c = f.pop(x)
            if c > 0:
                sub = {1: int(st.loops[x][1])}
            else:
                hi = st.loops[x][2] if len(st.loops[x]) > 2 else None
                sub = self.lin_form(hi, st) if hi is not None else None
                if sub is None:
                    return None
            for a, d in sub.items():
                f[a] = f.get(a, 0) + c * d
        total = f.get(1, 0)
        for a, c in f.items():
            if a == 1 or c == 0:
                continue
            if a in st.loops or c < 0:
                return None
            total += c          # extents are >= 1
        return total

    def int_expr(self, e, st, text, trunc_ok=False):
        """integer expression -> Nat-valued Lean text with a known lower bound (literals, extents, do variables,
           `+` / `-` of those; a subtraction must provably stay >= 0, except - with trunc_ok - the outermost one: the
           text then denotes max(0, value), which is what an upper bound of a section / a trip count needs)"""
        k = e[0]
        if k == "paren":
            return self.int_expr(e[1], st, text, trunc_ok)
        if k == "num" and not e[2]:
            if e[1] < 0:
                raise Problem("negative integer literal in %r" % text)
            return V(Ty("int"), str(int(e[1])), const=e[1], lb=int(e[1]))
        if k == "name":
            low = e[1].lower()
            if low in self.r.vars and (low in st.loops or low in self.r.extent_dummies):
                return self.read_var(low, st)
            if low in self.tr.params and self.tr.params[low][1] == "int" and self.tr.params[low][2] >= 0:
                n = int(self.tr.params[low][2])
                return V(Ty("int"), str(n), const=Fr(n), lb=n)
            raise Problem("integer variable %s is neither an extent nor a do variable in %r" % (e[1], text))
        if k == "bin" and e[1] in ("+", "-"):
            a, b = self.int_expr(e[2], st, text), self.int_expr(e[3], st, text)
            if a.const is not None and b.const is not None:
                n = a.const + b.const if e[1] == "+" else a.const - b.const
                if n < 0:
                    raise Problem("negative integer constant in %r" % text)
                return V(Ty("int"), str(int(n)), const=n, lb=int(n))
            if e[1] == "+":
                return V(Ty("int"), "%s + %s" % (a.at(P_ADD - 1), b.at(P_ADD)), P_ADD, lb=a.lb + b.lb)
            if b.const is None:
                # `a - b` with a non-literal `b`: exact as natural numbers if the bounds of the do variables / extents
                # show that it cannot be negative
                lbv = self.lower_bound(e, st)
                if lbv is None or (lbv < 0 and not trunc_ok) or a.s is None or b.s is None:
                    raise Problem("integer expression may be negative (or is not affine in extents / do variables) in %r" % text)
                return V(Ty("int"), "%s - %s" % (a.at(P_ADD - 1), b.at(P_ADD)), P_ADD, lb=lbv)
            if a.lb - int(b.const) < 0 and not trunc_ok:
                raise Problem("integer expression may be negative in %r" % text)
            return V(Ty("int"), "%s - %s" % (a.at(P_ADD - 1), b.at(P_ADD)), P_ADD, lb=a.lb - int(b.const))
        raise Problem("integer expression not supported in %r" % text)

    def assign(self, s, st, rest):
        _, lhs, rhs, text = s
        if lhs[0] == "comp" or (lhs[0] in ("name", "ref") and lhs[1].lower() in self.r.vars and (
                self.r.vars[lhs[1].lower()]["base"].startswith("rec:")
                or (self.r.vars[lhs[1].lower()]["base"] == "int" and self.r.vars[lhs[1].lower()]["shape"]))):
            return self.assign_phase4(s, st, rest)                  # phase 4 (f90classify)
        name = lhs[1]
        low = name.lower()
        if low not in self.r.vars:
            raise Problem("assignment to undeclared %s" % name)
        v = self.r.vars[low]
        if v["intent"] == "in" or low in self.r.extent_dummies:
            raise Problem("assignment to intent(in) %s" % name)
        if low in st.loops:
            raise Problem("assignment to do variable %s" % name)
        val = self.expr(rhs, st)
        ty = v["ty"]
        if lhs[0] == "ref" and all(a == ("slice", None, None) for a in lhs[2]):
            lhs = ("name", name)
        ispt = lambda t: t.base == "real" and t.kindshape() == ("pt",)        # noqa: E731
        islist = lambda t: t.base == "real" and t.kindshape() == ("list",)    # noqa: E731
        if lhs[0] == "name" and ispt(ty) and islist(val.ty):
            val = V(ty, "ptOf %s" % val.at(P_APP), P_APP)          # a rank-1 value with two entries
        if lhs[0] == "name" and ispt(ty) and (val.ty == REAL or val.ty == Ty("int")):
            if val.ty != REAL:
                val = self.int_to_real(val)
            val = V(ty, "(%s, %s)" % (val.s, val.s), P_ATOM)       # `p = scalar`
        if (lhs[0] == "ref" and ty.base == "real" and ty.kindshape() == ("mat",) and len(lhs[2]) == 2
                and all(isinstance(x, int) for x in ty.shape)
                and ((lhs[2][0] == ("slice", None, None) and ty.shape[0] == 2)
                     or (lhs[2][0] == ("slice", None, ("num", Fr(2), False)) and ty.shape[0] >= 2))):
            # m(:, j) = p  /  m(:, j:j) = p   on a 2 x n array with literal extents: one column
            c = lhs[2][1]
            j = None
            try:
                if c[0] == "slice" and len(c) == 3 and c[1] is not None and c[2] is not None:
                    j1, j2 = self.const_index(c[1], st, text), self.const_index(c[2], st, text)
                    j = j1 if j1 == j2 else None
                elif c[0] != "slice":
                    j = self.const_index(c, st, text)
            except Problem:
                j = None
            if j is not None and (ispt(val.ty) or islist(val.ty)):
                if j < 1 or j > ty.shape[1]:
                    raise Problem("subscript out of bounds in %r" % text)
                if islist(val.ty):
                    val = V(Ty("real", (2,)), "ptOf %s" % val.at(P_APP), P_APP)
                cur = self.read_var(low, st) if low in st.defined else self.undef_of(ty, "column assignment to %s" % name)
                st2 = st.copy()
                st2.assigned(low)
                return ("let", v["lean"], "setColPt %s %d %s" % (cur.at(P_APP), j - 1, val.at(P_APP)), rest(st2))
        if lhs[0] == "name" and ty == Ty("int"):
            if val.ty != Ty("int") or val.z is None:
                raise Problem("assignment %r: type %s where an integer is expected" % (text, val.ty))
            st2 = st.copy()
            st2.assigned(low)
            self.note_size(st2, low, rhs)                           # phase 4 (f90classify)
            return ("let", v["lean"], "(%s : Int)" % val.z if val.const is not None else val.z, rest(st2))
        if lhs[0] == "name":
            if ty.base == "real" and ty.kindshape() == ("list",) and (val.ty == REAL or val.ty == Ty("int")):
                # `v = scalar`: every element
                if val.ty != REAL:
                    val = self.int_to_real(val)
                ext = self.extent_val(low, 0, st)
                val = V(ty, "List.replicate %s %s" % (ext.at(P_APP), val.at(P_APP)), P_APP)
            val = self.coerce(val, ty, "assignment %r" % text)
            st2 = st.copy()
            st2.assigned(low)
            return ("let", v["lean"], val.s, rest(st2))
        if ty.base == "real" and ty.kindshape() == ("list",):
            return self.assign_list(low, lhs, val, st, rest, text)
        if (ty.base == "real" and ty.kindshape() == ("mat",) and len(lhs[2]) == 2 and lhs[2][0] == ("slice", None, None)
                and lhs[2][1][0] == "slice"):
            # m(:, lo:hi) = matrix
            sl = lhs[2][1]
            if len(sl) > 3:
                raise Problem("strided section on the left-hand side: %r" % text)
            lo_v = self.int_expr(sl[1], st, text) if sl[1] is not None else V(Ty("int"), "1", const=Fr(1), lb=1)
            if lo_v.lb < 1:
                raise Problem("section of %s: lower bound may be < 1" % name)
            hi_v = self.int_expr(sl[2], st, text, trunc_ok=True) if sl[2] is not None else self.extent_val(low, 1, st)
            if not (val.ty.base == "real" and val.ty.kindshape() == ("mat",)):
                raise Problem("assignment %r: type %s where a rank-2 array is expected" % (text, val.ty))
            if low not in st.defined:
                raise Problem("section assignment to unassigned %s: %r" % (name, text))
            cur = self.read_var(low, st)
            st2 = st.copy()
            st2.assigned(low)
            return ("let", v["lean"], "setColRange %s %s %s %s" % (cur.at(P_APP), lo_v.at(P_APP), hi_v.at(P_APP), val.at(P_APP)),
                    rest(st2))
        if (lhs[0] == "ref" and ty.base == "real" and ty.kindshape() == ("mat",) and len(lhs[2]) == 2
                and lhs[2][0][0] == "slice" and lhs[2][1][0] != "slice" and not isinstance(ty.shape[0], int)):
            # phase 4 (f90tri): `m(lo:hi, j) = v`: (a section of) one column
            if not (val.ty.base == "real" and val.ty.kindshape() == ("list",)):
                raise Problem("assignment %r: type %s where a rank-1 array is expected" % (text, val.ty))
            lo_t, hi_t = self.col_bounds(low, lhs[2][0], st, text)
            j0, _ = self.index0(lhs[2][1], st, name, ty.shape[1])
            cur = self.mat_base(low, st, text)
            st2 = st.copy()
            st2.assigned(low)
            return ("let", v["lean"], "setColSec %s %s %s %s %s" % (cur.at(P_APP), j0, lo_t, hi_t, val.at(P_APP)), rest(st2))
        # element assignment
        idx = [self.const_index(a, st, text) for a in lhs[2]]
        if len(idx) != len(ty.shape):
            raise Problem("wrong number of subscripts in %r" % text)
        val = self.coerce(val, Ty(ty.base), "assignment %r" % text)
        for n, ext in zip(idx, ty.shape):
            if n < 1 or (isinstance(ext, int) and n > ext):
                raise Problem("subscript out of bounds in %r" % text)
        cur = self.read_var(low, st) if low in st.defined else self.undef_of(ty, "element assignment to %s" % name)
        ks = ty.kindshape()
        if ks == ("pt",):
            new = "(%s, %s.2)" % (val.s, cur.at(P_APP)) if idx[0] == 1 else "(%s.1, %s)" % (cur.at(P_APP), val.s)
            if cur.s == "(undef, undef)":
                new = "(%s, undef)" % val.s if idx[0] == 1 else "(undef, %s)" % val.s
        elif ks == ("mat",):
            if not all(isinstance(e, int) for e in ty.shape):
                raise Problem("element assignment to an array without literal extents: %r" % text)
            new = "set2 %s %d %d %s" % (cur.at(P_APP), idx[0] - 1, idx[1] - 1, val.at(P_APP))
        else:
            raise Problem("element assignment to %s not supported: %r" % (ty, text))
        st2 = st.copy()
        st2.assigned(low)
        return ("let", v["lean"], new, rest(st2))

    def col_bounds(self, low, sl, st, text):
        """phase 4 (f90tri): (lo text, hi text) of the section `sl` along the FIRST axis of the rank-2 array `low`"""
        if len(sl) > 3:
            raise Problem("strided section of %s not supported in %r" % (self.r.vars[low]["name"], text))
        if sl[1] is None:
            lo_v = V(Ty("int"), "1", const=Fr(1), lb=1)
        else:
            lo_v = self.int_expr(sl[1], st, text)
            if lo_v.lb < 1:
                raise Problem("section of %s: lower bound may be < 1" % self.r.vars[low]["name"])
        hi_v = self.nat_of(sl[2], st, text) if sl[2] is not None else self.extent_val(low, 0, st)
        return lo_v.at(P_APP), hi_v.at(P_APP)

    def mat_base(self, low, st, text):
        """phase 4 (f90tri): current value of the rank-2 array `low`; unassigned: every element `undef`"""
        v = self.r.vars[low]
        if low in st.defined or low in st.poison:
            return self.read_var(low, st)
        self.uses_undef = True
        return V(v["ty"], "List.replicate %s (List.replicate %s undef)" % (self.extent_val(low, 0, st).at(P_APP),
                                                                            self.extent_val(low, 1, st).at(P_APP)), P_APP)
    # ------------------------------------------------------------------ phase 4 (f90classify): records / integer arrays
    def assign_phase4(self, s, st, rest):
        """`x%f = e`, `a(i)%f = e`, `x = <record>`, `a(i) = <record>` (derived types); `v(i) = e`, `v(lo:hi) = v(lo2:hi2)` on an
           integer rank-1 array"""
        _, lhs, rhs, text = s
        tgt = lhs[1] if lhs[0] == "comp" else lhs
        low = tgt[1].lower()
        if low not in self.r.vars:
            raise Problem("assignment to undeclared %s" % tgt[1])
        v = self.r.vars[low]
        if v["intent"] == "in" or low in self.r.extent_dummies or low in st.loops:
            raise Problem("assignment to intent(in) %s" % v["name"])
        val = self.expr(rhs, st)
        if v["base"] == "int":
            cur = self.read_var(low, st)
            if tgt[0] == "ref" and len(tgt[2]) == 1 and tgt[2][0][0] == "slice":
                sl = tgt[2][0]
                if len(sl) != 3 or sl[1] is None or sl[2] is None:
                    raise Problem("section of an integer array needs both bounds: %r" % text)
                if not (val.ty.base == "int" and len(val.ty.shape) == 1):
                    raise Problem("assignment %r: an integer section is expected on the right" % text)
                lo, hi = self.nat_bound(sl[1], st), self.nat_bound(sl[2], st)
                new = "setSecI %s %s %s %s" % (cur.at(P_APP), lo, hi, val.at(P_APP))
            elif tgt[0] == "ref" and len(tgt[2]) == 1:
                val = self.coerce(val, Ty("int"), "assignment %r" % text)
                i0, _ = self.index0(tgt[2][0], st, v["name"], v["ty"].shape[0])
                new = "List.set %s %s %s" % (cur.at(P_APP), i0, val.at(P_APP))
            else:
                raise Problem("assignment to the integer array %s not supported: %r" % (v["name"], text))
        else:
            rec = record_of(v["base"])
            elem = None
            if tgt[0] == "ref":
                if len(tgt[2]) != 1 or tgt[2][0][0] == "slice" or len(v["ty"].shape) != 1:
                    raise Problem("assignment target not supported: %r" % text)
                elem, _ = self.index0(tgt[2][0], st, v["name"], v["ty"].shape[0])
            elif v["ty"].shape:
                raise Problem("whole-array assignment of derived type not supported: %r" % text)
            if lhs[0] == "comp":
                f = record_field(rec, lhs[2])
                if f[2] != 0:
                    raise Problem("assignment to an array component not supported: %r" % text)
                want = {"real": REAL, "int": Ty("int"), "bool": BOOL}[f[1]]
                if want == REAL and val.ty == Ty("int"):
                    val = self.int_to_real(val)
                val = self.coerce(val, want, "assignment %r" % text)
                old = self.rec_value(tgt, st)
                item = "{ %s with %s := %s }" % (old.s, f[0], val.s)
            else:
                if not (val.ty.base == v["base"] and not val.ty.shape):
                    raise Problem("assignment %r: type %s where type(%s) is expected" % (text, val.ty, rec["name"]))
                item = val.s
            if elem is None:
                new = item
            else:
                cur = self.read_var(low, st)
                new = "%sRec.setElem %s %s %s" % (rec["name"], cur.at(P_APP), elem, item if item.startswith("{") else "(" + item + ")")
        st2 = st.copy()
        st2.assigned(low)
        return ("let", v["lean"], new, rest(st2))

    def nat_bound(self, e, st):
        """Nat-valued text of a section bound (a negative value reads as 0)"""
        n = self.nat_of(e, st, "section bound")
        return n.at(P_APP)

    def extent_val(self, low, axis, st):
        """declared extent of axis `axis` of variable `low` as a Nat-valued V (a negative extent is an empty array)"""
        v = self.r.vars[low]
        ext = v["shape"][axis]
        if isinstance(ext, int):
            return V(Ty("int"), str(ext), const=Fr(ext), lb=ext)
        return self.nat_of(v["shape_ast"][axis], st, "extent of %s" % v["name"])

    def list_base(self, low, st, text):
        """current value of the rank-1 array `low`; unassigned: every element `undef`"""
        v = self.r.vars[low]
        if low in st.defined or low in st.poison:
            return self.read_var(low, st)
        self.uses_undef = True
        return V(v["ty"], "List.replicate %s undef" % self.extent_val(low, 0, st).at(P_APP), P_APP)

    def slice_bounds(self, low, sl, st, text):
        """(lo V, hi V, reversed?) of the section `sl` of the rank-1 array `low`"""
        v = self.r.vars[low]
        step = sl[3] if len(sl) > 3 else None
        rev = False
        lo, hi = sl[1], sl[2]
        if step is not None:
            if not (step[0] == "un" and step[1] == "neg" and step[2][0] == "num" and step[2][1] == 1):
                raise Problem("section stride other than -1 not supported in %r" % text)
            rev = True
            lo, hi = hi, lo
        if lo is None:
            lo_v = V(Ty("int"), "1", const=Fr(1), lb=1)
        else:
            try:
                lo_v = self.int_expr(lo, st, text)
            except Problem:
                if not self.is_int_ast(lo, st):
                    raise
                # involves integer variables: the section is assumed to start inside the array (a lower bound < 1 is out
                # of bounds in Fortran)
                z, _ = self.int_value(lo, st)
                lo_v = V(Ty("int"), "Int.toNat (%s)" % z, P_APP, lb=1)
        if lo_v.lb < 1:
            raise Problem("section of %s: lower bound may be < 1" % v["name"])
        hi_v = self.nat_of(hi, st, text) if hi is not None else self.extent_val(low, 0, st)
        return lo_v, hi_v, rev

    def assign_list(self, low, lhs, val, st, rest, text):
        v = self.r.vars[low]
        ty = v["ty"]
        if len(lhs[2]) != 1:
            raise Problem("wrong number of subscripts in %r" % text)
        a = lhs[2][0]
        cur = self.list_base(low, st, text)
        if a[0] == "slice":
            lo_v, hi_v, rev = self.slice_bounds(low, a, st, text)
            if rev:
                raise Problem("reversed section on the left-hand side: %r" % text)
            if val.ty == REAL or val.ty == Ty("int"):
                if val.ty != REAL:
                    val = self.int_to_real(val)
                val = V(ty, "List.replicate (%s + 1 - %s) %s" % (hi_v.at(P_ADD), lo_v.at(P_ADD), val.at(P_APP)), P_APP)
            if val.ty.base == "real" and val.ty.kindshape() == ("pt",):
                val = self.as_list(val)
            if not (val.ty.base == "real" and val.ty.kindshape() == ("list",)):
                raise Problem("assignment %r: type %s where a rank-1 array is expected" % (text, val.ty))
            new = "setSec %s %s %s %s" % (cur.at(P_APP), lo_v.at(P_APP), hi_v.at(P_APP), val.at(P_APP))
        else:
            if val.ty == Ty("int"):
                val = self.int_to_real(val)
            val = self.coerce(val, REAL, "assignment %r" % text)
            i0, _ = self.index0(a, st, v["name"], ty.shape[0])
            new = "List.set %s %s %s" % (cur.at(P_APP), i0, val.at(P_APP))
        st2 = st.copy()
        st2.assigned(low)
        return ("let", v["lean"], new, rest(st2))

    # -- forall (i = lo:hi) a(idx(i)) = rhs(i): every right-hand side is evaluated with the OLD array
    def forall_stmt(self, s, st, rest):
        _, var, lo, hi, body, text = s
        low = var.lower()
        if low not in self.r.vars or self.r.vars[low]["base"] != "int" or self.r.vars[low]["shape"]:
            raise Problem("forall index %s is not a declared integer scalar" % var)
        if low in st.loops:
            raise Problem("nested use of index %s" % var)
        lo_v = self.int_expr(lo, st, text)
        if lo_v.const is None or lo_v.const < 1:
            raise Problem("forall lower bound must be a literal >= 1: %r" % text)
        hi_v = self.int_expr(hi, st, text, trunc_ok=True)
        ivar = self.r.vars[low]["lean"]

        def one(j, st2):
            if j >= len(body):
                st3 = st2.copy()
                st3.loops.pop(low, None)
                return rest(st3)
            _, lhs, rhs, t2 = body[j]
            tl = lhs[1].lower()
            if (lhs[0] == "ref" and tl in self.r.vars and len(lhs[2]) == 2 and lhs[2][0][0] == "slice"
                    and lhs[2][1] == ("name", var) and self.r.vars[tl]["ty"].base == "real"
                    and self.r.vars[tl]["ty"].kindshape() == ("mat",) and not isinstance(self.r.vars[tl]["ty"].shape[0], int)
                    and self.r.vars[tl]["intent"] != "in"):
                # phase 4 (f90tri): `forall (j = lo:hi) m(a:b, j) = rhs(j)`: the columns are distinct targets, every
                # right-hand side reads the OLD array: a fold of column updates whose right-hand sides refer to the old value
                tv = self.r.vars[tl]
                st_in = st2.copy()
                st_in.loops[low] = ("var", int(lo_v.const), hi)
                val = self.expr(rhs, st_in)
                if not (val.ty.base == "real" and val.ty.kindshape() == ("list",)):
                    raise Problem("assignment %r: type %s where a rank-1 array is expected" % (t2, val.ty))
                lo_t, hi_t = self.col_bounds(tl, lhs[2][0], st2, t2)
                cur = self.read_var(tl, st2)
                if tl not in st2.defined:
                    raise Problem("forall over the columns of unassigned %s" % tv["name"])
                rng = "(List.range' %d (%s + 1 - %d))" % (int(lo_v.const), hi_v.at(P_ADD), int(lo_v.const))
                new = "List.foldl (fun (acc : List (List K)) (%s : Nat) => setColSec acc (%s - 1) %s %s %s) %s %s" % (
                    ivar, ivar, lo_t, hi_t, val.at(P_APP), cur.at(P_APP), rng)
                st3 = st2.copy()
                st3.assigned(tl)
                return ("let", tv["lean"], new, one(j + 1, st3))
            if lhs[0] != "ref" or tl not in self.r.vars or len(lhs[2]) != 1 or lhs[2][0][0] == "slice":
                raise Problem("forall assignment target not supported: %r" % t2)
            tv = self.r.vars[tl]
            if not (tv["ty"].base == "real" and tv["ty"].kindshape() == ("list",)) or tv["intent"] == "in":
                raise Problem("forall assignment target %s is not an assignable rank-1 real array: %r" % (tv["name"], t2))
            st_in = st2.copy()
            st_in.loops[low] = ("var", int(lo_v.const), hi)
            val = self.expr(rhs, st_in)
            if val.ty == Ty("int"):
                val = self.int_to_real(val)
            val = self.coerce(val, REAL, "assignment %r" % t2)
            idx = lhs[2][0]
            whole = (idx[0] == "name" and idx[1].lower() == low and lo_v.const == 1
                     and canon(hi) == (str(tv["shape"][0]) if isinstance(tv["shape"][0], int) else tv["shape"][0]))
            rng = "(List.range' %d (%s + 1 - %d))" % (int(lo_v.const), hi_v.at(P_ADD), int(lo_v.const))
            if whole:
                new = "List.map (fun (%s : Nat) => %s) %s" % (ivar, val.s, rng)
            else:
                i0, _ = self.index0(idx, st_in, tv["name"], tv["shape"][0])
                cur = self.list_base(tl, st2, t2)
                new = "List.foldl (fun (acc : List K) (%s : Nat) => List.set acc %s %s) %s %s" % (
                    ivar, i0, val.at(P_APP), cur.at(P_APP), rng)
            st3 = st2.copy()
            st3.assigned(tl)
            return ("let", tv["lean"], new, one(j + 1, st3))
        return one(0, st)

    def const_index(self, a, st, text):
        if a[0] == "slice":
            raise Problem("section on the left-hand side not supported: %r" % text)
        try:
            x = self.tr.eval_const(a, {k: Fr(v[1]) for k, v in st.loops.items() if v[0] == "const"})
        except Problem:
            raise Problem("non-literal subscript in %r" % text)
        if x.denominator != 1:
            raise Problem("non-integer subscript in %r" % text)
        return int(x)

    def coerce(self, val, ty, what):
        if ty == Ty("int") and val.ty == Ty("int") and val.z is not None:
            return V(ty, val.z, P_ATOM if re.fullmatch(r"\w+|\(.*\)", val.z) else P_ADD - 1, z=val.z)
        if val.ty == ty:
            return val
        if ty == REAL and val.ty == Ty("int") and val.z is not None:
            return self.int_to_real(val)
        if ty.base.startswith("enum:") and val.ty.base == ty.base:
            return val
        raise Problem("%s: type %s where %s is expected" % (what, val.ty, ty))

    # ------------------------------------------------------------------ calls
    def callee(self, name):
        low = name.lower()
        if (self.r.mod, low) in self.tr.scoped:
            return self.tr.scoped[(self.r.mod, low)]
        if low in self.tr.routines:
            return self.tr.routines[low]
        if low in self.tr.failed:
            raise Problem("calls %s, which is not translated" % name)
        raise Problem("calls %s, which is not a listed routine" % name)

    @staticmethod
    def lifted_ty(ty):
        """the type of an array with one more (first) axis"""
        if ty == REAL:
            return Ty("real", ("(lifted)",))
        if ty.base == "real" and ty.kindshape() in (("list",), ("pt",)):
            return Ty("real", ("(lifted)", "(lifted)"))
        raise Problem("no lifted type for %s" % ty)

    def bind_actuals(self, cal, actuals, st, text, lift=None):
        """-> (Lean argument texts for the inputs, list of (out dummy low, actual ast)); `lift`: the uniform extent of the
           callee over which the call is mapped - the arrays carrying it are passed with that axis"""
        if len(actuals) != len(cal.args):
            raise Problem("wrong number of arguments in %r" % text)
        ins, outs = {}, []
        by_dummy = {d.lower(): a for d, a in zip(cal.args, actuals)}
        self.mapped = []
        for d, a in by_dummy.items():
            dv = cal.vars[d]
            if d in cal.extent_dummies:
                continue
            carries = lift is not None and lift in dv.get("orig_exts", [])
            if dv["intent"] == "inout":                             # phase 4 (f90classify): read and written
                outs.append((d, a))
            if dv["intent"] in ("in", "inout"):
                val = self.expr(a, st)
                if carries:
                    want = self.lifted_ty(dv["ty"])
                    if val.ty.base == "real" and val.ty.kindshape() == ("pt",) and want.kindshape() == ("list",):
                        val = self.as_list(val)
                    if not (val.ty.base == "real" and val.ty.kindshape() == want.kindshape()):
                        raise Problem("argument %s of %s (mapped over %s): type %s" % (dv["name"], cal.name, lift, val.ty))
                    self.mapped.append((d, val))
                    ins[d] = V(dv["ty"], "%s_" % dv["lean"].rstrip("_"), P_ATOM)
                else:
                    val = self.coerce(val, dv["ty"], "argument %s of %s" % (dv["name"], cal.name))
                    ins[d] = val
            elif dv["intent"] == "inout":
                # phase 4 (f90tri): read and written: the current value goes in, the result is assigned to the same actual
                val = self.coerce(self.expr(a, st), dv["ty"], "argument %s of %s" % (dv["name"], cal.name))
                ins[d] = val
                outs.append((d, a))
            else:
                outs.append((d, a))
        # extents: the actual extent must be the declared extent of the actual array (textually), or a literal
        for d in cal.extent_dummies:
            a = by_dummy[d]
            got = self.extent_text(a)
            if a[0] == "name" and a[1].lower() in st.sizes:         # phase 4 (f90classify): the local holds `size(<array>, k)`
                got = st.sizes[a[1].lower()][0]
            for arr, axis in cal.extent_uses[d]:
                shift = 1 if (lift is not None and lift in cal.vars[arr].get("orig_exts", [])) else 0
                want = self.extent_of(by_dummy[arr], axis + shift, st, text)
                if want is None or got != want:
                    # explicit-shape dummy: the callee sees the first `extent` elements of the actual (sequence association;
                    # a shorter actual is outside the standard)
                    dv = cal.vars[arr]
                    if shift == 0 and arr in ins and dv["ty"].base == "real" and dv["ty"].kindshape() == ("list",) and axis == 0:
                        n = self.nat_of(a, st, text)
                        ins[arr] = V(dv["ty"], "List.take %s %s" % (n.at(P_APP), ins[arr].at(P_APP)), P_APP)
                        continue
                    raise Problem("extent argument %s of %s is %s but the array argument %s has extent %s in %r"
                                  % (cal.vars[d]["name"], cal.name, got, cal.vars[arr]["name"], want, text))
        return [ins[d] for d in cal.ins], outs

    def extent_text(self, a):
        if a[0] == "num" and not a[2]:
            return int(a[1])
        if a[0] == "name":
            return a[1].lower()
        return canon(a)

    def extent_of(self, a, axis, st, text):
        """declared extent (int or lower-case name) of axis `axis` of the actual argument `a`"""
        if a[0] == "name" and a[1].lower() in self.r.vars:
            sh = self.r.vars[a[1].lower()]["shape"]
            if axis < len(sh):
                return sh[axis]
            return None
        if a[0] == "ref" and a[1].lower() in self.r.vars:
            # a section: m(:, j) / m(i, :) has the extent of the sliced axis
            sh = self.r.vars[a[1].lower()]["shape"]
            kept = [n for n, x in enumerate(a[2]) if x[0] == "slice"]
            if axis < len(kept):
                sl = a[2][kept[axis]]
                if sl == ("slice", None, None):
                    return sh[kept[axis]]
                if len(sl) == 3 and sl[1] is None and sl[2] is not None:        # `:hi` has `hi` elements
                    e = sl[2]
                    return int(e[1]) if (e[0] == "num" and not e[2]) else (e[1].lower() if e[0] == "name" else canon(e))
        if a[0] == "comp":                                          # phase 4 (f90classify): an allocatable component
            return "size(%s,%d)" % (canon(a), axis + 1)
        return None

    def call_stmt(self, s, st, rest):
        _, name, actuals, text = s[:4]
        lifts = s[4] if len(s) > 4 else []
        cal = self.callee(name)
        if cal.kind != "subroutine":
            raise Problem("call of a function: %r" % text)
        if lifts:
            return self.call_lifted(cal, actuals, lifts, st, rest, text)
        ins, outs = self.bind_actuals(cal, actuals, st, text)
        app = self.apply(cal, ins)
        if len(outs) == 1 and outs[0][1][0] == "ref" and outs[0][1][1].lower() in self.r.vars and (self.r.reduced or self.r.unit):
            # a single output bound to an element / section: an assignment of the result
            d, a = outs[0]
            return self.assign(("assign", a, ("val", V(cal.vars[d]["ty"], app, P_APP)), text), st, rest)
        # outputs must be whole variables of this routine
        targets = []
        for d, a in outs:
            if a[0] != "name" or a[1].lower() not in self.r.vars:
                raise Problem("output argument %s of %s is not a whole variable in %r" % (cal.vars[d]["name"], cal.name, text))
            low = a[1].lower()
            v = self.r.vars[low]
            if v["intent"] == "in" or low in self.r.extent_dummies or low in st.loops:
                raise Problem("output argument bound to intent(in) %s in %r" % (v["name"], text))
            if not (v["ty"] == cal.vars[d]["ty"] and v["ty"].base == cal.vars[d]["ty"].base):
                raise Problem("output argument %s of %s: type %s where %s is expected" % (cal.vars[d]["name"], cal.name, v["ty"], cal.vars[d]["ty"]))
            targets.append(low)
        if len(set(targets)) != len(targets):
            raise Problem("one variable bound to two outputs in %r" % text)
        order = [targets[[d for d, _ in outs].index(o)] for o in cal.outs]
        st2 = st.copy()
        if len(order) == 1:
            st2.assigned(order[0])
            return ("let", self.r.vars[order[0]]["lean"], app, rest(st2))
        self.ncall += 1
        tmp = "r%d_%s" % (self.ncall, cal.name)
        tree_rest = None
        projs = []
        for n, low in enumerate(order):
            proj = tmp + "".join([".2"] * n) + (".1" if n < len(order) - 1 else "")
            projs.append((self.r.vars[low]["lean"], proj))
            st2.assigned(low)
        tree_rest = rest(st2)
        for nm, proj in reversed(projs):
            tree_rest = ("let", nm, proj, tree_rest)
        return ("let", tmp, app, tree_rest)

    def call_lifted(self, cal, actuals, lifts, st, rest, text):
        """`call f(.., m, ..)` where `f` is translated for ONE index of an axis that the caller keeps: a map over that axis"""
        if len(lifts) != 1:
            raise Problem("call mapped over more than one axis: %r" % text)
        lift = lifts[0][0]
        ins, outs = self.bind_actuals(cal, actuals, st, text, lift=lift)
        mapped = list(self.mapped)
        if (len(outs) == 2 and all(a[0] == "blk" for _, a in outs) and outs[0][1][1] == outs[1][1][1]
                and [a[2] for _, a in outs] == ["_lo", "_hi"] and [d for d, _ in outs] == list(cal.outs)
                and all(lift in cal.vars[d].get("orig_exts", []) for d, _ in outs)):
            # phase 4 (f90tri): the two blocks of a BLOCK SPLIT output, each carrying the mapped axis: the actual array
            # is the rows of the first block followed by the rows of the second block
            a = outs[0][1][1]
            if a[0] != "name" or a[1].lower() not in self.r.vars:
                raise Problem("block output of a mapped call is not a whole variable in %r" % text)
            low = a[1].lower()
            v = self.r.vars[low]
            if v["intent"] == "in" or low in self.r.extent_dummies or low in st.loops:
                raise Problem("output argument bound to intent(in) %s in %r" % (v["name"], text))
            if len(mapped) != 1:
                raise Problem("block call mapped over an axis with %d array inputs: %r" % (len(mapped), text))
            app = self.apply(cal, ins)
            nm = ins[list(cal.ins).index(mapped[0][0])].s
            txt = "(List.map (fun %s => (%s).1) %s ++ List.map (fun %s => (%s).2) %s)" % (
                nm, app, mapped[0][1].at(P_APP), nm, app, mapped[0][1].at(P_APP))
            want = self.lifted_ty(cal.vars[outs[0][0]]["ty"])
            return self.assign(("assign", a, ("val", V(want, txt, P_ATOM)), text), st, rest)
        if len(outs) != 1 or lift not in cal.vars[outs[0][0]].get("orig_exts", []):
            raise Problem("call mapped over an axis needs exactly one output, carrying that axis: %r" % text)
        d, a = outs[0]
        if a[0] not in ("name", "ref") or a[1].lower() not in self.r.vars:
            raise Problem("output argument of a mapped call is not a variable / section in %r" % text)
        low = a[1].lower()
        v = self.r.vars[low]
        if v["intent"] == "in" or low in self.r.extent_dummies or low in st.loops:
            raise Problem("output argument bound to intent(in) %s in %r" % (v["name"], text))
        app = self.apply(cal, ins)
        names = [i.s for dd, _ in mapped for i in [ins[[x for x in cal.ins].index(dd)]]]
        if len(mapped) == 1:
            txt = "List.map (fun %s => %s) %s" % (names[0], app, mapped[0][1].at(P_APP))
        elif len(mapped) == 2:
            txt = "List.zipWith (fun %s %s => %s) %s %s" % (names[0], names[1], app, mapped[0][1].at(P_APP), mapped[1][1].at(P_APP))
        else:
            raise Problem("call mapped over an axis with %d array inputs: %r" % (len(mapped), text))
        want = self.lifted_ty(cal.vars[d]["ty"])
        return self.assign(("assign", a, ("val", V(want, txt, P_APP)), text), st, rest)

    def apply(self, cal, ins):
        if cal.opaque:
            if cal not in self.externals:
                self.externals.append(cal)
            return " ".join([cal.lean_name + "_ext"] + [v.at(P_APP) for v in ins])
        for x in cal.externals:
            if x not in self.externals:
                self.externals.append(x)
        parts = [cal.lean_name] + [x.lean_name + "_ext" for x in cal.externals]
        if cal.uses_undef:
            self.uses_undef = True
            parts.append("undef")
        if getattr(cal, "uses_undef_int", False):                   # phase 4 (f90classify)
            self.uses_undef_int = True
            parts.append("undefI")
        if cal.uses_norm2:
            self.uses_norm2 = True
            parts.append("norm2")
        parts += [v.at(P_APP) for v in ins]
        return " ".join(parts)

    # ------------------------------------------------------------------ expressions
    def is_int_ast(self, e, st):
        k = e[0]
        if k == "paren":
            return self.is_int_ast(e[1], st)
        if k == "num":
            return not e[2]
        if k == "name":
            low = e[1].lower()
            if low in self.r.vars:
                return low in st.loops or low in self.r.extent_dummies or self.is_int_var(low)
            if low in self.tr.params:
                name, base, val, mod = self.tr.params[low]
                return base == "int" and name.split("_", 1)[0] not in ENUMS
            return False
        if k == "un" and e[1] == "neg":
            return self.is_int_ast(e[2], st)
        if k == "bin" and e[1] in ("+", "-", "*"):
            return self.is_int_ast(e[2], st) and self.is_int_ast(e[3], st)
        # phase 4 (f90tri): integer division (truncating), `mod`, `** <literal 2..4>` of integer expressions
        if k == "bin" and e[1] == "/":
            return self.is_int_ast(e[2], st) and self.is_int_ast(e[3], st)
        if k == "bin" and e[1] == "**":
            return (self.is_int_ast(e[2], st) and e[3][0] == "num" and not e[3][2] and 2 <= e[3][1] <= 4)
        if k == "ref" and e[1].lower() == "mod" and e[1].lower() not in self.r.vars and len(e[2]) == 2:
            return self.is_int_ast(e[2][0], st) and self.is_int_ast(e[2][1], st)
        if k == "comp":                                             # phase 4 (f90classify)
            return self.comp_field(e)[1] == "int"
        if k == "ref" and e[1].lower() == "size" and e[1].lower() not in self.r.vars:
            return True
        if k == "ref" and e[1].lower() == "modulo" and e[1].lower() not in self.r.vars and len(e[2]) == 2:
            return self.is_int_ast(e[2][0], st) and self.is_int_ast(e[2][1], st)
        if k == "ref" and e[1].lower() in self.r.vars and len(e[2]) == 1 and e[2][0][0] != "slice":
            v = self.r.vars[e[1].lower()]
            return v["ty"].base == "int" and len(v["ty"].shape) == 1
        return False

    # ------------------------------------------------------------------ phase 4 (f90classify): derived types, size, modulo
    def comp_field(self, e):
        """(record entry, base, rank) of the component reference `e` = ('comp', name | ref, field)"""
        b = e[1]
        if b[0] not in ("name", "ref") or b[1].lower() not in self.r.vars:
            raise Problem("component of %s not supported" % canon(b))
        v = self.r.vars[b[1].lower()]
        if not v["base"].startswith("rec:"):
            raise Problem("%s is not of derived type" % v["name"])
        rec = record_of(v["base"])
        f = record_field(rec, e[2])
        return rec, f[1], f[2], f[0]

    def rec_value(self, b, st):
        """the record denoted by a name / an element reference, as V"""
        low = b[1].lower()
        v = self.r.vars[low]
        rec = record_of(v["base"])
        if b[0] == "name":
            if v["ty"].shape:
                raise Problem("component of the whole array %s" % v["name"])
            return self.read_var(low, st)
        if len(b[2]) != 1 or len(v["ty"].shape) != 1 or b[2][0][0] == "slice":
            raise Problem("reference to %s: one subscript expected" % v["name"])
        if low in st.poison:
            raise PoisonRead(low, st.poison[low])
        if low not in st.defined:
            raise Problem("element of unassigned %s" % v["name"])
        i0, _ = self.index0(b[2][0], st, v["name"], v["ty"].shape[0])
        return V(Ty(v["base"]), "%sRec.elem %s %s" % (rec["name"], v["lean"], i0), P_APP)

    def comp_ref(self, e, st):
        rec, base, rank, fname = self.comp_field(e)
        txt = "%s.%s" % (self.rec_value(e[1], st).at(P_APP), fname)
        if base == "real" and rank == 0:
            return V(REAL, txt, P_ATOM)
        if base == "real" and rank == 2:
            return V(Ty("real", ("(alloc)", "(alloc)")), txt, P_ATOM)
        if base == "int" and rank == 0:
            return V(Ty("int"), None, P_ATOM, z=txt)
        if base == "bool" and rank == 0:
            out = V(BOOL, txt, P_ATOM)
            out.logic = ("atom", V(BOOL, txt, P_ATOM))
            return out
        raise Problem("component %s of this type / rank not supported" % fname)

    def size_text(self, args, st):
        """Nat-valued text of `size(a [, dim])`"""
        if len(args) not in (1, 2):
            raise Problem("size: wrong number of arguments")
        a = self.expr(args[0], st)
        dim = None
        if len(args) == 2:
            if not (args[1][0] == "num" and not args[1][2] and args[1][1] in (1, 2)):
                raise Problem("size: the dimension must be the literal 1 or 2")
            dim = int(args[1][1])
        ks = a.ty.kindshape()
        if ks == ("mat",) and dim == 2:
            return "ncols %s" % a.at(P_APP)
        if (ks == ("mat",) and dim == 1) or (ks == ("list",) and dim in (None, 1)):
            return "List.length %s" % a.at(P_APP)
        raise Problem("size of this argument not supported")

    def note_size(self, st, low, rhs):
        """after `low = size(<array>, k)`: remember it (used to match an extent argument against its array argument)"""
        while rhs[0] == "paren":
            rhs = rhs[1]
        if rhs[0] == "ref" and rhs[1].lower() == "size" and "size" not in self.r.vars and len(rhs[2]) == 2 \
                and rhs[2][1][0] == "num" and not rhs[2][1][2]:
            names = set()

            def walk(x):
                if isinstance(x, tuple):
                    if x and x[0] in ("name", "ref") and isinstance(x[1], str):
                        names.add(x[1].lower())
                    for y in x[1:]:
                        walk(y)
                elif isinstance(x, list):
                    for y in x:
                        walk(y)
            walk(rhs[2][0])
            st.sizes[low] = ("size(%s,%d)" % (canon(rhs[2][0]), int(rhs[2][1][1])), names)

    def is_int_var(self, low):
        """an integer scalar variable (input, output or local) that is neither an extent nor an enum"""
        v = self.r.vars.get(low)
        return (v is not None and v["ty"].base == "int" and not v["ty"].shape and low not in self.r.extent_dummies)

    def int_value(self, e, st):
        """Int-valued Lean text of an integer expression (exact: no truncation), with its precedence"""
        k = e[0]
        if k == "paren":
            return self.int_value(e[1], st)
        if k == "num":
            return str(int(e[1])), P_ATOM
        if k == "name":
            low = e[1].lower()
            if low in self.r.vars:
                v = self.read_var(low, st)
                if v.const is not None:
                    return str(int(v.const)), P_ATOM
                if low not in st.loops and self.is_int_var(low):
                    return v.s, P_ATOM                      # an Int-valued variable
                return "((%s : Nat) : Int)" % v.s, P_ATOM
            return str(int(self.tr.params[low][2])), P_ATOM
        if k == "comp":                                             # phase 4 (f90classify)
            return self.comp_ref(e, st).z, P_ATOM
        if k == "ref" and e[1].lower() == "size":
            return "((%s : Nat) : Int)" % self.size_text(e[2], st), P_ATOM
        if k == "ref" and e[1].lower() == "modulo":
            # Fortran `modulo(a, p)` with a positive literal `p` is Lean's `Int.emod` (result in `[0, p)`)
            if not (e[2][1][0] == "num" and not e[2][1][2] and e[2][1][1] > 0):
                raise Problem("modulo: the modulus must be a positive integer literal")
            a, pa = self.int_value(e[2][0], st)
            return "%s %% %d" % (a if pa > P_MUL - 1 else "(" + a + ")", int(e[2][1][1])), P_MUL
        if k == "ref" and e[1].lower() in self.r.vars:      # phase 4 (f90classify): element of an integer rank-1 array
            low = e[1].lower()
            v = self.r.vars[low]
            if low in st.poison:
                raise PoisonRead(low, st.poison[low])
            if low not in st.defined:
                raise Problem("element of unassigned %s" % v["name"])
            i0, _ = self.index0(e[2][0], st, v["name"], v["ty"].shape[0])
            return "intAt %s %s" % (v["lean"], i0), P_APP
        if k == "un":
            t, p = self.int_value(e[2], st)
            return "-" + (t if p > P_NEG else "(" + t + ")"), P_NEG
        if k == "ref":          # phase 4 (f90tri): mod(a, b): the remainder has the sign of `a` (Int.tmod)
            a, pa = self.int_value(e[2][0], st)
            b, pb = self.int_value(e[2][1], st)
            return "Int.tmod %s %s" % (a if pa > P_APP else "(" + a + ")", b if pb > P_APP else "(" + b + ")"), P_APP
        if k == "bin" and e[1] == "/":      # phase 4 (f90tri): integer division truncates towards zero (Int.tdiv)
            a, pa = self.int_value(e[2], st)
            b, pb = self.int_value(e[3], st)
            return "Int.tdiv %s %s" % (a if pa > P_APP else "(" + a + ")", b if pb > P_APP else "(" + b + ")"), P_APP
        if k == "bin" and e[1] == "**":     # phase 4 (f90tri): the repeated product, associated to the left
            a, pa = self.int_value(e[2], st)
            t = a if pa > P_MUL else "(" + a + ")"
            return " * ".join([a if pa > P_MUL - 1 else "(" + a + ")"] + [t] * (int(e[3][1]) - 1)), P_MUL
        a, pa = self.int_value(e[2], st)
        b, pb = self.int_value(e[3], st)
        lvl = P_MUL if e[1] == "*" else P_ADD
        return "%s %s %s" % (a if pa > lvl - 1 else "(" + a + ")", e[1], b if pb > lvl else "(" + b + ")"), lvl

    def int_any(self, e, st):
        """an integer expression as V: `.z` Int-valued text (always), `.s` Nat-valued text when it provably does not
           truncate (else None)"""
        z, _ = self.int_value(e, st)
        try:
            n = self.int_expr(e, st, "integer expression")
            return V(Ty("int"), n.s, n.p, const=n.const, lb=n.lb, z=z)
        except Problem:
            return V(Ty("int"), None, P_ATOM, z=z)

    def nat_of(self, e, st, text, trunc_ok=True):
        """Nat-valued V of an integer expression used as an upper bound / count: exact natural-number text when the
           bounds show it cannot be negative, else `Int.toNat` of the exact Int expression (max(0, value))"""
        try:
            return self.int_expr(e, st, text, trunc_ok=trunc_ok)
        except Problem:
            z, _ = self.int_value(e, st)
            return V(Ty("int"), "Int.toNat (%s)" % z, P_APP, lb=0)

    def int_to_real(self, x):
        if x.const is not None and x.const >= 0:
            return lean_real(x.const)
        if x.s is not None and x.lb is not None and x.lb >= 0 and self.r.reduced:
            return V(REAL, "((%s : Nat) : K)" % x.s, P_ATOM)     # exact as a natural number
        return V(REAL, "ofInt (%s)" % x.z, P_APP)

    def expr(self, e, st):
        k = e[0]
        if k == "val":
            return e[1]
        if k == "paren":
            return self.expr(e[1], st)
        if k not in ("num", "val") and self.is_int_ast(e, st):
            return self.int_any(e, st)
        if k == "num":
            if e[2]:
                return lean_real(e[1])
            return V(Ty("int"), str(int(e[1])), const=e[1], lb=int(e[1]), z=str(int(e[1])))
        if k == "log":
            return mk_bool(("const", e[1]))
        if k == "name":
            low = e[1].lower()
            if low in self.r.vars:
                return self.read_var(low, st)
            if low in self.tr.params:
                return self.param(low)
            raise Problem("unknown name %s" % e[1])
        if k == "arr":
            # phase 4 (f90tri): `[x1, .., xn]` of real scalars: a rank-1 array (n = 2: a `v(2)` point)
            items = [self.expr(x, st) for x in e[1]]
            items = [self.int_to_real(x) if (x.ty == Ty("int") and x.z is not None) else x for x in items]
            if not items or any(x.ty != REAL for x in items):
                raise Problem("array constructor of other than real scalars not supported")
            if len(items) == 2:
                return V(Ty("real", (2,)), "(%s, %s)" % (items[0].s, items[1].s), P_ATOM)
            return V(Ty("real", (len(items),)), "[" + ", ".join(x.s for x in items) + "]", P_ATOM)
        if k == "comp":                                             # phase 4 (f90classify)
            return self.comp_ref(e, st)
        if k == "un":
            x = self.expr(e[2], st)
            if e[1] == "not":
                self.need_bool(x, ".NOT.")
                return mk_bool(("not", x.logic))
            if x.ty.base == "real" and x.ty.kindshape() == ("pt",):
                return V(x.ty, "pneg %s" % x.at(P_APP), P_APP)
            if x.ty.base == "real" and x.ty.kindshape() == ("list",):        # phase 4 (f90tri): `-v` on a rank-1 array
                return V(x.ty, "negRow %s" % x.at(P_APP), P_APP)
            if x.ty != REAL:
                raise Problem("unary minus on %s" % x.ty)
            return V(REAL, "-" + x.at(P_NEG), P_NEG)
        if k == "bin":
            return self.binop(e[1], self.expr(e[2], st), self.expr(e[3], st))
        if k == "ref":
            low = e[1].lower()
            if low in self.r.vars and self.r.vars[low]["base"].startswith("rec:"):          # phase 4 (f90classify)
                return self.rec_value(e, st)
            if low in self.r.vars and self.r.vars[low]["base"] == "int" and len(self.r.vars[low]["shape"]) == 1 \
                    and len(e[2]) == 1 and e[2][0][0] == "slice":                              # phase 4: `v(lo:hi)`
                sl = e[2][0]
                if len(sl) != 3 or sl[1] is None or sl[2] is None:
                    raise Problem("section of an integer array needs both bounds")
                cur = self.read_var(low, st)
                return V(Ty("int", ("(section)",)), "secI %s %s %s" % (cur.at(P_APP), self.nat_bound(sl[1], st), self.nat_bound(sl[2], st)), P_APP)
            if low in self.r.vars:
                return self.array_ref(low, e[2], st)
            return self.func(e[1], e[2], st)
        if k == "slice":
            raise Problem("array section in this position not supported")
        raise Problem("internal: expression " + k)

    def need_bool(self, x, what):
        if x.ty != BOOL or x.logic is None:
            raise Problem("%s applied to %s" % (what, x.ty))

    def param(self, low):
        name, base, val, mod = self.tr.params[low]
        if base == "real":
            if low not in [p for p in self.tr.param_used]:
                self.tr.param_used.append(low)
            return V(REAL, name if name not in LEAN_KEYWORDS else name + "_", P_ATOM)
        pre = name.split("_", 1)[0]
        if pre in ENUMS:
            lean_ty, ctors, _ = ENUMS[pre]
            hit = [c for c, n in ctors.items() if n == val]
            if len(hit) != 1:
                raise Problem("enum value %s = %s has no constructor in %s" % (name, val, lean_ty))
            item = (pre, name, int(val), hit[0])
            if item not in self.tr.enum_used:
                self.tr.enum_used.append(item)
            return V(Ty("enum:" + pre), "%s.%s" % (lean_ty, hit[0]), P_ATOM)
        return V(Ty("int"), str(int(val)), const=val)

    def to_real(self, x, what):
        if x.ty == REAL:
            return x
        raise Problem("%s: %s where a real scalar is expected (implicit conversions are not translated)" % (what, x.ty))

    def binop(self, op, a, b):
        if op in ("and", "or"):
            self.need_bool(a, ".%s." % op.upper())
            self.need_bool(b, ".%s." % op.upper())
            return mk_bool((op, a.logic, b.logic))
        INT = Ty("int")
        if op in ("==", "/=", "<", "<=", ">", ">="):
            if a.ty == REAL and b.ty == REAL:
                return mk_bool(("rel", op, a, b))
            if a.ty == INT and b.ty == INT and a.z is not None and b.z is not None:
                if a.s is not None and b.s is not None:      # both sides exact as natural numbers
                    return mk_bool(("rel", op, V(INT, a.s, a.p), V(INT, b.s, b.p)))
                return mk_bool(("rel", op, V(INT, "(%s : Int)" % a.z), V(INT, "(%s : Int)" % b.z)))
            if a.ty.base == "real" and a.ty == b.ty and a.ty.kindshape() in (("list",), ("pt",)):
                al, bl = self.as_list(a), self.as_list(b)
                s, _ = render_prop(("rel", op, V(REAL, "a"), V(REAL, "b")))
                return V(Ty("bool", a.ty.shape), "List.zipWith (fun a b => decide (%s)) %s %s" % (s, al.at(P_APP), bl.at(P_APP)), P_APP)
            if a.ty.base == "real" and a.ty.kindshape() in (("list",), ("pt",)) and b.ty == REAL:
                al = self.as_list(a)
                sx, _ = render_prop(("rel", op, V(REAL, "a"), b))
                return V(Ty("bool", a.ty.shape), "List.map (fun a => decide (%s)) %s" % (sx, al.at(P_APP)), P_APP)
            if a.ty.base.startswith("enum:") or a.ty.base in ("int", "bool"):
                raise Problem("comparison of %s values not supported" % a.ty)
            raise Problem("comparison of %s with %s" % (a.ty, b.ty))
        if op in ("+", "-", "*", "/") and {a.ty.base, b.ty.base} == {"int", "real"}:
            # Fortran converts the integer operand to real
            if a.ty == INT and a.z is not None:
                a = self.int_to_real(a)
            elif b.ty == INT and b.z is not None:
                b = self.int_to_real(b)
        if op in ("+", "-") and a.ty.base == "real" and b.ty.base == "real" and \
                {a.ty.kindshape(), b.ty.kindshape()} == {("list",), ("pt",)}:
            a, b = self.as_list(a), self.as_list(b)
        if op in ("+", "-"):
            if a.ty == REAL and b.ty == REAL:
                return V(REAL, "%s %s %s" % (a.at(P_ADD - 1), op, b.at(P_ADD)), P_ADD)
            if a.ty.base == "real" and a.ty == b.ty and a.ty.kindshape() == ("mat",):
                return V(a.ty, "%s %s %s" % ("matSub" if op == "-" else "matAdd", a.at(P_APP), b.at(P_APP)), P_APP)
            if a.ty.base == "real" and a.ty == b.ty:
                ks = a.ty.kindshape()
                if ks == ("pt",):
                    return V(a.ty, "%s %s %s" % ("psub" if op == "-" else "padd", a.at(P_APP), b.at(P_APP)), P_APP)
                if ks == ("list",):
                    return V(a.ty, "%s %s %s" % ("subRow" if op == "-" else "addRow", a.at(P_APP), b.at(P_APP)), P_APP)
            raise Problem("`%s` on %s and %s" % (op, a.ty, b.ty))
        if op in ("*", "/"):
            if a.ty == REAL and b.ty == REAL:
                return V(REAL, "%s %s %s" % (a.at(P_MUL - 1), op, b.at(P_MUL)), P_MUL)
            islist = lambda x: x.ty.base == "real" and x.ty.kindshape() == ("list",)     # noqa: E731
            if op == "*" and a.ty.base == "real" and a.ty.kindshape() == ("pt",) and b.ty == REAL:
                return V(a.ty, "pscale %s %s" % (a.at(P_APP), b.at(P_APP)), P_APP)
            if op == "*" and a.ty == REAL and islist(b):
                return V(b.ty, "scaleRow %s %s" % (a.at(P_APP), b.at(P_APP)), P_APP)
            if op == "/" and islist(a) and b.ty == REAL:       # phase 4 (f90tri): `v / c` on a rank-1 array
                return V(a.ty, "divRow %s %s" % (a.at(P_APP), b.at(P_APP)), P_APP)
            if op == "*" and islist(a) and islist(b):
                return V(a.ty, "mulRow %s %s" % (a.at(P_APP), b.at(P_APP)), P_APP)
            if op == "*" and a.ty == REAL and b.ty.base == "real" and b.ty.kindshape() == ("mat",):
                return V(b.ty, "matScale %s %s" % (a.at(P_APP), b.at(P_APP)), P_APP)
            raise Problem("`%s` on %s and %s" % (op, a.ty, b.ty))
        if op == "**":
            if a.ty == REAL and b.ty == Ty("int") and b.const is not None and 2 <= b.const <= 4:
                # `x ** n` with a small literal exponent: the repeated product, associated to the left
                t = a.at(P_MUL)
                return V(REAL, " * ".join([a.at(P_MUL - 1)] + [t] * (int(b.const) - 1)), P_MUL)
            raise Problem("`**` outside constant expressions (or with an exponent other than the literals 2, 3, 4) not supported")
        raise Problem("operator %s" % op)

    def as_list(self, x):
        if x.ty.kindshape() == ("list",):
            return x
        if x.ty.kindshape() == ("pt",):
            return V(Ty(x.ty.base, ("n",)), "vecOfPt %s" % x.at(P_APP), P_APP)
        raise Problem("%s where a rank-1 array is expected" % x.ty)

    def index0(self, a, st, text, ext=None):
        """zero-based Lean text of the subscript `a` (literal, or an integer expression that is provably >= 1)"""
        try:
            n = self.const_index(a, st, text)
        except Problem:
            try:
                v = self.int_expr(a, st, text)
            except Problem:
                if not self.is_int_ast(a, st):
                    raise
                # a subscript that involves integer variables: the exact Int expression; a subscript < 1 is outside the
                # array in Fortran, `Int.toNat` reads element 1 there
                z, _ = self.int_value(a, st)
                return "(Int.toNat (%s - 1))" % z, None
            if v.lb is None or v.lb < 1:
                raise Problem("subscript may be < 1 in a reference to %s" % text)
            return "(%s - 1)" % v.at(P_ADD - 1), None
        if n < 1 or (isinstance(ext, int) and n > ext):
            raise Problem("subscript out of bounds in a reference to %s" % text)
        return str(n - 1), n

    def array_ref(self, low, args, st):
        v = self.r.vars[low]
        ty = v["ty"]
        if len(args) != len(ty.shape):
            raise Problem("wrong number of subscripts for %s" % v["name"])
        if low in st.poison:
            raise PoisonRead(low, st.poison[low])
        if low not in st.defined:
            raise Problem("element / section of unassigned %s" % v["name"])
        base = V(ty, v["lean"])
        ks = ty.kindshape()
        slices = [a[0] == "slice" for a in args]
        if any(slices):
            if ks == ("list",):
                lo_v, hi_v, rev = self.slice_bounds(low, args[0], st, v["name"])
                txt = "secRow %s %s %s" % (base.s, lo_v.at(P_APP), hi_v.at(P_APP))
                if rev:
                    txt = "List.reverse (%s)" % txt
                return V(Ty("real", ("(section)",)), txt, P_APP)
            if ks == ("mat",) and all(slices) and args[0] == ("slice", None, None):
                # m(:, lo:hi): the columns lo..hi of every row
                _, lo, hi = args[1]
                if lo is None and hi is None:
                    return base
                lo_v = self.int_expr(lo, st, v["name"]) if lo is not None else V(Ty("int"), "1", const=Fr(1), lb=1)
                if lo_v.lb < 1:
                    raise Problem("section of %s: lower bound may be < 1" % v["name"])
                if hi is not None:
                    hi_v = self.int_expr(hi, st, v["name"], trunc_ok=True)
                else:
                    ext = ty.shape[1]
                    if isinstance(ext, int):
                        hi_v = V(Ty("int"), str(ext), const=Fr(ext), lb=ext)
                    elif ext in self.r.extent_dummies:
                        hi_v = self.read_var(ext, st)
                    else:
                        hi_v = self.extent_val(low, 1, st)
                return V(Ty("real", (ty.shape[0], "(section)")), "colRange %s %s %s" % (base.s, lo_v.at(P_APP), hi_v.at(P_APP)), P_APP)
            if ks == ("mat",) and slices[0] and not slices[1] and not isinstance(ty.shape[0], int):
                # phase 4 (f90tri): `m(lo:hi, j)`: (a section of) one column of an array with a non-literal first extent
                j, _ = self.index0(args[1], st, v["name"], ty.shape[1])
                if args[0] == ("slice", None, None):
                    return V(Ty("real", (ty.shape[0],)), "col %s %s" % (base.s, j), P_APP)
                lo_t, hi_t = self.col_bounds(low, args[0], st, v["name"])
                return V(Ty("real", ("(section)",)), "secRow (col %s %s) %s %s" % (base.s, j, lo_t, hi_t), P_APP)
            for a in args:
                if a[0] == "slice" and a != ("slice", None, None):
                    raise Problem("section with bounds of %s not supported" % v["name"])
            if ks != ("mat",) or all(slices):
                raise Problem("section of %s not supported" % v["name"])
            if slices[0]:          # m(:, j): column j
                j, _ = self.index0(args[1], st, v["name"], ty.shape[1])
                if ty.shape[0] != 2:
                    raise Problem("column section of %s whose first extent is not 2" % v["name"])
                return V(Ty("real", (2,)), "colPt %s %s" % (base.s, j), P_APP)
            i, _ = self.index0(args[0], st, v["name"], ty.shape[0])
            return V(Ty("real", (ty.shape[1] if ty.shape[1] != 2 else "n",)), "row %s %s" % (base.s, i), P_APP)
        idx = [self.index0(a, st, v["name"], ext) for a, ext in zip(args, ty.shape)]
        elem = Ty(ty.base)
        if ks == ("pt",):
            if idx[0][1] is None:
                raise Problem("non-literal subscript of the 2-vector %s" % v["name"])
            out = V(elem, "%s.%d" % (base.s, idx[0][1]), P_ATOM)
        elif ks == ("list",):
            out = V(elem, "seq %s %s" % (base.s, idx[0][0]), P_APP)
        else:
            out = V(elem, "at2 %s %s %s" % (base.s, idx[0][0], idx[1][0]), P_APP)
        if elem == BOOL:
            raise Problem("logical arrays not supported")
        return out

    def func(self, name, args, st):
        low = name.lower()
        if low in ("minval", "maxval"):
            if len(args) == 2 and args[1] == ("num", Fr(2), False):
                m = self.expr(args[0], st)
                if m.ty.base == "real" and m.ty.kindshape() == ("mat",):
                    if m.ty.shape[0] == 2:
                        return V(Ty("real", (2,)), "(%s (row %s 0), %s (row %s 1))" % (low, m.at(P_APP), low, m.at(P_APP)), P_ATOM)
                    return V(Ty("real", (m.ty.shape[0],)), "List.map %s %s" % (low, m.at(P_APP)), P_APP)
            if len(args) == 1:
                m = self.expr(args[0], st)
                if m.ty.base == "real" and m.ty.kindshape() == ("list",):
                    return V(REAL, "%s %s" % (low, m.at(P_APP)), P_APP)
            raise Problem("%s: only (matrix, 2) and (rank-1 list) are supported" % name)
        vals = [self.expr(a, st) for a in args]
        ismat = lambda x: x.ty.base == "real" and x.ty.kindshape() == ("mat",)      # noqa: E731
        if low == "transpose":
            if len(vals) == 1 and ismat(vals[0]):
                sh = vals[0].ty.shape
                return V(Ty("real", (sh[1], sh[0])), "transpose %s" % vals[0].at(P_APP), P_APP)
            raise Problem("transpose of this argument not supported")
        if low == "matmul":
            if len(vals) == 2 and ismat(vals[0]) and ismat(vals[1]):
                return V(Ty("real", (vals[0].ty.shape[0], vals[1].ty.shape[1])),
                         "matMul %s %s" % (vals[0].at(P_APP), vals[1].at(P_APP)), P_APP)
            if len(vals) == 2 and ismat(vals[0]) and vals[1].ty.base == "real" and vals[1].ty.kindshape() == ("list",):
                return V(Ty("real", ("(matvec)",)), "matVec %s %s" % (vals[0].at(P_APP), vals[1].at(P_APP)), P_APP)
            raise Problem("matmul of these arguments not supported")
        if low == "abs":
            if len(vals) == 1 and vals[0].ty == REAL:
                return V(REAL, "absK %s" % vals[0].at(P_APP), P_APP)
            if len(vals) == 1 and vals[0].ty.base == "real" and vals[0].ty.kindshape() == ("mat",):
                return V(vals[0].ty, "matAbs %s" % vals[0].at(P_APP), P_APP)
            raise Problem("abs of %s" % (vals[0].ty if vals else "nothing"))
        if low in ("min", "max"):
            if len(vals) >= 2 and all(x.ty == REAL for x in vals):
                fn = "minK" if low == "min" else "maxK"
                acc = vals[0]
                for x in vals[1:]:
                    acc = V(REAL, "%s %s %s" % (fn, acc.at(P_APP), x.at(P_APP)), P_APP)
                return acc
            raise Problem("%s needs >= 2 real scalars" % low)
        if low == "dot_product":
            if len(vals) == 2 and vals[0].ty == vals[1].ty and vals[0].ty.base == "real":
                ks = vals[0].ty.kindshape()
                if ks == ("pt",):
                    return V(REAL, "dot2 %s %s" % (vals[0].at(P_APP), vals[1].at(P_APP)), P_APP)
                if ks == ("list",):
                    return V(REAL, "dot %s %s" % (vals[0].at(P_APP), vals[1].at(P_APP)), P_APP)
            raise Problem("dot_product of these arguments not supported")
        if low == "norm2":
            if len(vals) == 1 and vals[0].ty.base == "real" and vals[0].ty.kindshape() in (("pt",), ("list",)):
                self.uses_norm2 = True
                return V(REAL, "norm2 %s" % self.as_list(vals[0]).at(P_APP), P_APP)
            if len(vals) == 1 and vals[0].ty.base == "real" and vals[0].ty.kindshape() == ("mat",):
                # phase 4 (f90tri): `norm2(m)` of a rank-2 array (no `dim`): the Frobenius norm = the 2-norm of the list of all
                # its elements (listed row by row; the external `norm2` is taken not to depend on the order)
                self.uses_norm2 = True
                return V(REAL, "norm2 (List.flatten %s)" % vals[0].at(P_APP), P_APP)
            raise Problem("norm2 of this argument not supported")
        if low in ("any", "all"):
            if len(vals) == 1 and vals[0].ty.base == "bool" and vals[0].ty.shape:
                atom = V(BOOL, "%s %s" % ("anyB" if low == "any" else "allB", vals[0].at(P_APP)), P_APP)
                return mk_bool(("atom", atom))
            raise Problem("%s of this argument not supported" % low)
        if low == "sign":                                           # phase 4 (f90classify)
            if len(vals) == 2 and vals[0].ty == REAL and vals[1].ty == REAL:
                return V(REAL, "signK %s %s" % (vals[0].at(P_APP), vals[1].at(P_APP)), P_APP)
            raise Problem("sign needs two real scalars")
        cal = self.callee(name)
        if cal.kind != "function":
            raise Problem("%s is a subroutine, referenced as a function" % name)
        ins, outs = self.bind_actuals(cal, args, st, name)
        rty = cal.vars[cal.result]["ty"]
        out = V(rty, self.apply(cal, ins), P_APP)
        if rty == BOOL:
            out.logic = ("atom", V(rty, out.s, out.p))
        return out


# ======================================================================================== Lean output
def render_tree(t, ind):
    pad = "  " * ind
    if t[0] == "let":
        return pad + "let %s := %s\n" % (t[1], t[2]) + render_tree(t[3], ind)
    if t[0] == "ret":
        return pad + t[1] + "\n"
    if t[0] == "ite":
        out = pad + "if %s then\n" % t[1] + render_tree(t[2], ind + 1)
        els = t[3]
        if els[0] == "ite":
            sub = render_tree(els, ind)
            return out + pad + "else " + sub[len(pad):]
        return out + pad + "else\n" + render_tree(els, ind + 1)
    if t[0] == "letblock":
        _, name, tree, after = t
        body = render_tree(tree, ind + 2).rstrip("\n")
        return pad + "let %s :=\n" % name + body + "\n" + render_tree(after, ind)
    if t[0] == "fold":
        _, lname, head, inner, init, rng, after = t
        body = render_tree(inner, ind + 2).rstrip("\n")
        return (pad + "let %s := List.foldl (%s\n" % (lname, head) + body + ") %s %s\n" % (init, rng)
                + render_tree(after, ind))
    if t[0] == "matchopt":
        _, scrut, var, some_t, none_t = t
        return (pad + "match %s with\n" % scrut + pad + "| some %s =>\n" % (var or "_") + render_tree(some_t, ind + 1)
                + pad + "| none =>\n" + render_tree(none_t, ind + 1))
    raise Problem("internal: tree")


PRELUDE = """\
/-! ### semantics of the Fortran array references / intrinsics used below (fixed part of the translator)

`List (List K)` is the list of ROWS of a Fortran `m(d, n)` array.  A zero-size `minval` / `maxval` (Fortran: `±HUGE`) and
an out-of-range subscript have no counterpart in `K`; `seq` / `getD` read `0` there (the theorems that compare with the
model's error branches exclude these inputs). -/

/-- `m(i+1, :)` -/
def row (m : List (List K)) (i : Nat) : List K := m.getD i []

/-- `m(i+1, j+1)` -/
def at2 (m : List (List K)) (i j : Nat) : K := seq (row m i) j

/-- `m(:, j+1)` of an array with two rows, as a point -/
def colPt (m : List (List K)) (j : Nat) : Pt K := (at2 m 0 j, at2 m 1 j)

/-- `m(i+1, j+1) = v` -/
def set2 (m : List (List K)) (i j : Nat) (v : K) : List (List K) := m.set i ((row m i).set j v)

/-- a `v(2)` array as rank-1 list -/
def vecOfPt (p : Pt K) : List K := [p.1, p.2]

/-- `a + b` on `v(2)` arrays -/
def padd (p r : Pt K) : Pt K := (p.1 + r.1, p.2 + r.2)

/-- `minval` of one row (`minval(m, 2)` is this on every row) -/
def minval (r : List K) : K := minOf (seq r 0) (r.drop 1)

/-- `maxval` of one row -/
def maxval (r : List K) : K := maxOf (seq r 0) (r.drop 1)

/-- `m(:, lo:hi)`: columns `lo .. hi` (1-based, inclusive) of every row; empty for `hi < lo` -/
def colRange (m : List (List K)) (lo hi : Nat) : List (List K) := m.map (fun r => (r.drop (lo - 1)).take (hi + 1 - lo))

/-- elementwise `a + b`, `a - b`, `c * a`, `abs(a)` on rank-2 arrays of the same shape -/
def matAdd (a b : List (List K)) : List (List K) := List.zipWith addRow a b
def matSub (a b : List (List K)) : List (List K) := List.zipWith subRow a b
def matScale (c : K) (a : List (List K)) : List (List K) := a.map (scaleRow c)
def matAbs (a : List (List K)) : List (List K) := a.map (List.map absK)

/-- `v(lo:hi)` of a rank-1 array (1-based, inclusive; empty for `hi < lo`) -/
def secRow (v : List K) (lo hi : Nat) : List K := (v.drop (lo - 1)).take (hi + 1 - lo)

/-- `v(lo:hi) = w` -/
def setSec (v : List K) (lo hi : Nat) (w : List K) : List K := v.take (lo - 1) ++ w.take (hi + 1 - lo) ++ v.drop hi

/-- elementwise `a * b` on rank-1 arrays -/
def mulRow (a b : List K) : List K := List.zipWith (· * ·) a b

/-- `m(:, lo:hi) = w` on every row -/
def setColRange (m : List (List K)) (lo hi : Nat) (w : List (List K)) : List (List K) :=
  List.zipWith (fun r x => setSec r lo hi x) m w

/-- `matmul(m, v)` with a rank-1 `v` -/
def matVec (m : List (List K)) (v : List K) : List K := m.map (fun r => dot r v)

/-- `-p` on a `v(2)` array -/
def pneg (p : Pt K) : Pt K := (-p.1, -p.2)

/-- `m(:, j+1) = p` on an array with two rows -/
def setColPt (m : List (List K)) (j : Nat) (p : Pt K) : List (List K) := set2 (set2 m 0 j p.1) 1 j p.2

/-- `p * c` on a `v(2)` array -/
def pscale (p : Pt K) (c : K) : Pt K := (p.1 * c, p.2 * c)

/-- integer -> real conversion -/
def ofInt (z : Int) : K := if z < 0 then -((z.natAbs : Nat) : K) else ((z.natAbs : Nat) : K)

/-- `any(mask)` -/
def anyB (l : List Bool) : Bool := l.any id

/-- `all(mask)` -/
def allB (l : List Bool) : Bool := l.all id

/-- phase 4 (f90tri): `-v` on a rank-1 array -/
def negRow (v : List K) : List K := v.map (fun x => -x)

/-- phase 4 (f90tri): `m(lo:hi, j+1) = w` (1-based inclusive rows `lo .. hi`, conformable `w`) -/
def setColSec (m : List (List K)) (j lo hi : Nat) (w : List K) : List (List K) :=
  m.take (lo - 1) ++ List.zipWith (fun r x => r.set j x) ((m.drop (lo - 1)).take (hi + 1 - lo)) w ++ m.drop hi
"""


PRELUDE += """
/-! ### phase 4 (f90classify) -/

/-- `sign(a, b)`: `|a|` if `b >= 0`, `-|a|` if `b < 0` (`K` has no negative zero: for `b = -0.0` gfortran returns `-|a|`) -/
def signK (a b : K) : K := if b < 0 then -absK a else absK a

/-- `v(i+1)` of an integer array (`0` outside) -/
def intAt (v : List Int) (i : Nat) : Int := v.getD i 0

/-- `v(lo:hi)` of an integer array (1-based, inclusive; empty for `hi < lo`) -/
def secI (v : List Int) (lo hi : Nat) : List Int := (v.drop (lo - 1)).take (hi + 1 - lo)

/-- `v(lo:hi) = w` on an integer array -/
def setSecI (v : List Int) (lo hi : Nat) (w : List Int) : List Int := v.take (lo - 1) ++ w.take (hi + 1 - lo) ++ v.drop hi
"""

LEAN_KEYWORDS |= {"undefI", "signK", "intAt", "dflt", "elem", "setElem", "secI", "setSecI"}


def signature(r):
    parts = []
    if r.uses_undef:
        parts.append("(undef : K)")
    if getattr(r, "uses_undef_int", False):                         # phase 4 (f90classify)
        parts.append("(undefI : Int)")
    if r.uses_norm2:
        parts.append("(norm2 : List K → K)")
    for x in r.externals:
        xt = " → ".join([x.vars[i]["ty"].lean() for i in x.ins] + [" × ".join(x.vars[o]["ty"].lean() for o in x.outs)])
        parts.append("(%s_ext : %s)" % (x.lean_name, xt))
    for low in r.ins:
        v = r.vars[low]
        parts.append("(%s : %s)" % (v["lean"], v["ty"].lean()))
    ret = " × ".join(r.vars[o]["ty"].lean() for o in r.outs)
    return " ".join(parts), ret


def emit(tr, done):
    out = ["/- GENERATED by harness/translate_f90.py from the working tree's src/fortran/helpers.f90, curve_intersection.f90,",
           "   curve.f90 and triangle.f90 on every run; do not edit.  One definition per translated routine;",
           "   Tables/SrcF90.lean and Tables/SrcF90Kernels.lean prove each equal to the hand-written model. -/",
           "import BezierVerif.Model.Basic", "import BezierVerif.Model.Curve", "import BezierVerif.Model.Solve2x2",
           "import BezierVerif.Model.Helpers", "",
           "set_option linter.unusedVariables false", "",
           "namespace BezierVerif.Generated.SrcF90", "", "open BezierVerif.Model", "",
           "variable {K : Type} [Add K] [Sub K] [Mul K] [Div K] [Neg K] [OfNat K 0] [OfNat K 1] [NatCast K]",
           "  [LT K] [DecidableLT K] [LE K] [DecidableLE K] [DecidableEq K]", "", PRELUDE]
    EMIT_PARAMS.update(tr.params)                                   # phase 4 (f90classify)
    out += emit_records()
    if tr.param_used:
        out.append("/-! ### module parameters referenced by the routines (exact values of the constant expressions) -/\n")
        for low in tr.param_used:
            name, base, val, mod = tr.params[low]
            lname = name if name not in LEAN_KEYWORDS else name + "_"
            out.append("/-- `%s` of %s.f90 -/\ndef %s : K := %s\n" % (name, mod, lname, lean_real(val).s))
            out.append("/-- the same value as a rational number (for comparison with Generated/Data.lean) -/\n"
                       "def %s_rat : Rat := %s\n" % (lname, rat_text(val)))
    if tr.enum_used:
        out.append("/-! ### enum parameters: the model's constructor carries the integer found in the source -/\n")
        for fam, name, val, ctor in tr.enum_used:
            lean_ty, _, tonat = ENUMS[fam]
            out.append("/-- `%s = %d` -/\nexample : %s %s.%s = %d := rfl\n" % (name, val, tonat, lean_ty, ctor, val))
    for r in done:
        if r.opaque:
            out.append("/- `%s` (%s.f90): outside the translated subset; its callers take it as the explicit argument `%s_ext` -/\n"
                       % (r.name, r.mod, r.lean_name))
            continue
        sig, ret = signature(r)
        doc = "\n".join("    " + l.replace("/-", "/ -").replace("-/", "- /") for l in r.src)
        out.append("/-- `%s` (%s.f90)\n```fortran\n%s\n```\n-/" % (r.name, r.mod, doc))
        out.append("def %s %s : %s :=\n%s" % (r.lean_name, sig, ret, render_tree(r.body, 1)))
    out.append("end BezierVerif.Generated.SrcF90\n")
    return "\n".join(out)


def rat_text(x):
    x = Fr(x)
    if x.denominator == 1:
        return "(%d : Rat)" % x.numerator
    return "(%d : Rat)/%d" % (x.numerator, x.denominator)


def main(argv):
    out_path = OUT
    do_print = False
    i = 0
    while i < len(argv):
        if argv[i] == "--out":
            out_path = argv[i + 1]
            i += 2
        elif argv[i] == "--print":
            do_print = True
            i += 1
        else:
            print("usage: translate_f90.py [--out PATH] [--print]")
            return 2
    tr = Translator()
    lines = {}
    for mod in MODULES:
        try:
            lines[mod] = module_lines(mod)
            tr.load_parameters(mod, lines[mod])
            load_records(mod, lines[mod])                           # phase 4 (f90classify)
        except (OSError, Problem) as exc:
            tr.problems.append("EXTRACT-PROBLEM srcf90: %s.f90: %s" % (mod, exc))
            lines[mod] = None
    done = []
    for entry in ROUTINES:
        mod, name = entry[0], entry[1]
        opts = entry[2] if len(entry) > 2 else {}
        if lines[mod] is None:
            tr.failed[name.lower()] = "module unreadable"
            tr.problems.append("EXTRACT-PROBLEM srcf90: %s: module %s.f90 unreadable" % (name, mod))
            continue
        try:
            r = tr.translate(mod, name, lines[mod], opts)
            tr.routines[opts.get("as", name).lower()] = r
            tr.scoped[(mod, name.lower())] = r
            done.append(r)
        except Problem as exc:
            tr.failed[name.lower()] = str(exc)
            tr.problems.append("EXTRACT-PROBLEM srcf90: %s: %s" % (name, exc))
        except RecursionError:
            tr.failed[name.lower()] = "too deep"
            tr.problems.append("EXTRACT-PROBLEM srcf90: %s: nesting too deep" % name)
    text = emit(tr, done)
    if do_print:
        print(text)
    old = None
    if os.path.exists(out_path):
        with open(out_path) as fh:
            old = fh.read()
    if old != text:
        os.makedirs(os.path.dirname(out_path), exist_ok=True)
        with open(out_path + ".tmp", "w") as fh:
            fh.write(text)
        os.replace(out_path + ".tmp", out_path)
    for p in tr.problems:
        print(p)
    nop = sum(1 for r in done if r.opaque)
    print("srcf90: %d of %d routines translated%s (%s)" % (len(done) - nop, len(ROUTINES) - nop,
          " + %d interface-only" % nop if nop else "", "changed" if old != text else "unchanged"))
    return 0


if __name__ == "__main__":
    sys.exit(main(sys.argv[1:]))
